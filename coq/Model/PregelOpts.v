(* Model/PregelOpts.v — the call option WithRuntimeMaxSteps (C01).
   compose/graph_run.go runner.run: `maxSteps := r.options.maxRunSteps; for opts { if opts[i].maxRunSteps > 0
   { maxSteps = opts[i].maxRunSteps } }` — a positive runtime limit replaces the compile-time limit of the graph
   that is being called. compose/utils.go extractOption: an Option that carries no component options and no
   node path is not handed to any node (`if len(opt.options) == 0 { continue }`), so the nested graphs keep their
   own limits. In all-predecessor mode the option is an error ("cannot set max run steps in dag"); the C01
   harness only calls any-predecessor roots with it, a Dag root is left as it is here. *)
From Eino Require Import Base.Util Model.Graph Model.Chain.

Definition set_max (n : nat) (g : graph) : graph :=
  {| g_nodes := g_nodes g; g_mode := g_mode g; g_eager := g_eager g; g_max := n |}.

Definition rt_graph (n : nat) (g : graph) : graph :=
  match n, g_mode g with
  | S _, Pregel => set_max n g
  | _, _ => g
  end.

Definition rt_gdef (n : nat) (d : gdef) : gdef :=
  match d with
  | GGraph g => GGraph (rt_graph n g)
  | GChain sts max => GChain sts (match n with O => max | S _ => n end)
  end.

(* the forest as runner.run sees it when the root is called with WithRuntimeMaxSteps n (0 = no option) *)
Definition with_rtmax (n : nat) (ds : list gdef) : list gdef :=
  match ds with
  | [] => []
  | d :: rest => rt_gdef n d :: rest
  end.
