(* Model/ErrorsNilPanic.v — property C13, finding F-C13f: the recover handlers of
   taskManager.executor, parallelRunToolCall, the two toStream forwarders and parentStreamReader.peek
   before the repair.  recover() returns nil for a panic whose value is nil (unless the main module's
   go directive is 1.21 or later), so "if recovered != nil" took such a panic for a normal return.
   Definitions only; the repaired code is [of_call] / [fwd] of Model/Errors.v, Model/ErrorsFwd.v
   (a panic is a panic whatever its value: the payload of a nil panic is [nil_payload]). *)
From Eino Require Import Base.Util Model.Errors Model.ErrorsFwd.

Definition nil_payload : N := 999998.

(* the executor / a tool goroutine: the task ends "successfully" (nil output, nil error) *)
Definition of_call_v5 (wrap : err -> err) (c : cres) (ok : nres) : nres :=
  match c with
  | CPanic i => if N.eqb i nil_payload then ok else NErr [PanicErr i]
  | _ => of_call wrap c ok
  end.

(* a forwarder: the stream is closed without an error item *)
Fixpoint fwd_v5 (src : list selem) : list ritem :=
  match src with
  | [] => []
  | SVal v :: r => RVal v :: fwd_v5 r
  | SItem e :: r => RErr e :: fwd_v5 r
  | SSkip :: r => fwd_v5 r
  | SBoom i :: _ => if N.eqb i nil_payload then [] else [RErr (PanicErr i)]
  end.
