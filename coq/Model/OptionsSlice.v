(* Model/OptionsSlice.v — property C16, F-C16a: Option.DesignateNodeWithPath on the level of Go
   slices (Base/GoSlice.v: heap of arrays, slice headers, append with an arbitrary growth
   policy). Model/Options.v treats an Option as a value (designate = list append); this file
   models the code that has to make that true. Executable definitions only. *)
From Coq Require Import List Arith NArith Bool.
Import ListNotations.
From Eino Require Import Base.GoSlice.

(* Option.paths is a Go slice of *NodePath; a path pointer is an id here.
   Before the repair (ed95a2a):   o.paths = append(o.paths, path...); return o *)
Definition designate_v0 (pol : policy) (h : heap) (s : slice) (ps : list elem) : heap * slice :=
  append pol h s ps.

(* The repaired code:
     nPaths := make([]*NodePath, 0, len(o.paths)+len(path))
     nPaths = append(nPaths, o.paths...); nPaths = append(nPaths, path...); o.paths = nPaths *)
Definition designate_go (pol : policy) (h : heap) (s : slice) (ps : list elem) : heap * slice :=
  let m := make h 0 (len s + length ps) in
  let a1 := append pol (fst m) (snd m) (read h s) in
  append pol (fst a1) (snd a1) ps.

(* the old code, with Go's doubling growth: base option x = opt.Designate(a).Designate(b).Designate(c)
   has len 3, cap 4; o1 := x.Designate(d) and o2 := x.Designate(e) both write slot 3 of the same
   array: building o2 changes what o1 designates *)
Definition v0_script : heap * slice * slice :=
  let '(h0, s0) := make [] 0 0 in
  let '(h1, s1) := designate_v0 pol_double h0 s0 [1%N] in
  let '(h2, s2) := designate_v0 pol_double h1 s1 [2%N] in
  let '(h3, x)  := designate_v0 pol_double h2 s2 [3%N] in
  let '(h4, o1) := designate_v0 pol_double h3 x [4%N] in
  let '(h5, o2) := designate_v0 pol_double h4 x [5%N] in
  (h5, o1, o2).


(* ---- a whole script of option constructors on the level of slices ---------------------- *)
(* Model/Options.v builds the options of a call by a script [bop] over option VALUES
   ([build]); here the same script runs over a heap: every built Option is its items, its
   handlers and the slice header of its paths (a path pointer is an id).
     WithXxxOption / WithLambdaOption:  paths: make([]*NodePath, 0)
     WithCallbacks:                     paths: nil
     o.DesignateNodeWithPath(ps...):    designate_go on o's header *)
Inductive sop : Type :=
| SItems (its : list (N * N))
| SHandlers (hs : list N)
| SDesignate (parent : nat) (ps : list elem).

Record sopt : Type := mkSopt { s_items : list (N * N); s_handlers : list N; s_paths : slice }.

Definition build_go_one (pol : policy) (h : heap) (env : list sopt) (b : sop) : option (heap * sopt) :=
  match b with
  | SItems its => let m := make h 0 0 in Some (fst m, mkSopt its [] (snd m))
  | SHandlers hs => Some (h, mkSopt [] hs nil_slice)
  | SDesignate j ps =>
      match nth_error env j with
      | Some o => let r := designate_go pol h (s_paths o) ps in
                  Some (fst r, mkSopt (s_items o) (s_handlers o) (snd r))
      | None => None
      end
  end.

Fixpoint build_go (pol : policy) (h : heap) (script : list sop) (env : list sopt)
  : option (heap * list sopt) :=
  match script with
  | [] => Some (h, env)
  | b :: s' =>
      match build_go_one pol h env b with
      | Some (h', o) => build_go pol h' s' (env ++ [o])
      | None => None
      end
  end.
