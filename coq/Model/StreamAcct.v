(* Model/StreamAcct.v — property C19: accounting model of the stream handles that the
   graph runner creates for the output of a completed task.

   Every stream handle is a linear resource.  [copy_item h n] (compose/graph_run.go
   copyItem -> streamReaderPacker.copy -> schema.StreamReader.Copy) retires [h] and
   creates [n] fresh handles when n >= 2 and returns [h] itself otherwise.  A consumer
   retires exactly one handle: a branch evaluation (branch.collect reads or closes its
   input), a channel write (the handle becomes an input of the successor, which reads it
   to EOF or closes it), an explicit close.  [s_open] is the multiset of live handles.

   [resolve_task] follows runner.resolveCompletedTasks for ONE completed task line by
   line (current code, after the repair b7635b4); [resolve_task_v0] is the code before the
   repair (defect F-C19).  [update_values] follows channelManager.updateValues for the
   values written by that task.  Executable definitions only. *)
From Eino Require Import Base.Util.
Open Scope N_scope.

Definition key := N.       (* node keys; which number is START / END is immaterial here *)
Definition handle := N.

(* ------------------------------------------------------------------ handle store *)
(* the history of a store: every handle is created by HFresh (a producer's stream, an emptyStream),
   as a child of HCopy or as the result of HMerge, and is retired by HConsume (a consumer read it to
   EOF or closed it), by HCopy (it lives on in its children: closing / draining all of them releases
   it) or by HMerge (it lives on in the merged stream: closing / draining that one releases it) *)
Inductive hev :=
| HFresh (h : handle)
| HCopy (h : handle) (cs : list handle)
| HMerge (hs : list handle) (h : handle)
| HConsume (h : handle).

Record store := {
  s_next : N;              (* next fresh handle *)
  s_open : list handle;    (* live handles (a multiset; kept in creation order) *)
  s_log  : list Z;         (* sizes of the Copy(n) calls with n >= 2, oldest first — the hook observable *)
  s_hist : list hev;       (* newest first *)
}.

Fixpoint remove_one (h : handle) (l : list handle) : list handle :=
  match l with
  | [] => []
  | x :: l' => if N.eqb h x then l' else x :: remove_one h l'
  end.

Definition fresh_handles (from : N) (n : nat) : list handle :=
  map (fun i => from + N.of_nat i) (seq 0 n).

(* copyItem(item, n): n < 2 -> []any{item}; otherwise n copies, the original becomes unusable *)
Definition copy_item (h : handle) (n : Z) (s : store) : list handle * store :=
  if (n <? 2)%Z then ([h], s)
  else
    let hs := fresh_handles (s_next s) (Z.to_nat n) in
    (hs, {| s_next := s_next s + Z.to_N n;
            s_open := remove_one h (s_open s) ++ hs;
            s_log := s_log s ++ [n];
            s_hist := HCopy h hs :: s_hist s |}).

Definition init_store (h : handle) : store := {| s_next := h + 1; s_open := [h]; s_log := []; s_hist := [HFresh h] |}.

(* ------------------------------------------------------------------ the task *)
(* one branch of the completed node: declared end nodes, whether it was added without data
   flow (Workflow), and what its condition selected in this evaluation *)
Record branch := {
  b_nodata : bool;
  b_ends : list key;
  b_sel : list key;
}.

Record task := {
  t_node : key;
  t_write_to : list key;       (* chanCall.writeTo = data edges *)
  t_branches : list branch;    (* chanCall.writeToBranches with the outcome of each *)
}.

Definition memb (k : key) (l : list key) : bool := existsb (N.eqb k) l.

(* uniqueKeys: first occurrences, order kept *)
Fixpoint unique_from (seen : list key) (l : list key) : list key :=
  match l with
  | [] => []
  | k :: l' => if memb k seen then unique_from seen l' else k :: unique_from (k :: seen) l'
  end.
Definition unique_keys (l : list key) : list key := unique_from [] l.

(* map[string]any assignment m[k] = h : the earlier value is silently dropped *)
Fixpoint map_assign (k : key) (h : handle) (m : list (key * handle)) : list (key * handle) :=
  match m with
  | [] => [(k, h)]
  | (k', h') :: m' => if N.eqb k k' then (k, h) :: m' else (k', h') :: map_assign k h m'
  end.

(* for i, next := range nextNodeKeys { m[next] = vs[i] } ; vs[i] out of range is a Go panic *)
Fixpoint assign_all (next : list key) (vs : list handle) (m : list (key * handle)) : res (list (key * handle)) :=
  match next, vs with
  | [], _ => Ok m
  | k :: next', h :: vs' => assign_all next' vs' (map_assign k h m)
  | _ :: _, [] => Panic
  end.

(* what one pass of the loop body of resolveCompletedTasks did with the task's output *)
Record resolved := {
  r_branch_in : list handle;          (* consumed by the branch conditions, in branch order *)
  r_writes : list (key * handle);     (* writeChannelValues[target][node] for this node *)
  r_closed : list handle;             (* closed explicitly in resolveCompletedTasks *)
  r_store : store;
}.

Definition selected (t : task) : list key := flat_map b_sel (t_branches t).

Definition last_opt {A} (l : list A) : option A := nth_error l (List.length l - 1).

(* current code *)
Definition resolve_task (t : task) (out : handle) (s : store) : res resolved :=
  let w := List.length (t_write_to t) in
  let b := List.length (t_branches t) in
  (* vs := copyItem(t.output, len(writeTo)+len(writeToBranches)*2) *)
  let '(vs, s1) := copy_item out (Z.of_nat (w + 2 * b)) s in
  (* calculateBranch(..., vs[len(writeTo)+len(writeToBranches):], ...) : branch i consumes input[i] *)
  if Nat.ltb (List.length vs) (w + b) then Panic else
  let bin := skipn (w + b) vs in
  if Nat.ltb (List.length bin) b then Err 1 (* "calculate next input List.length is shorter than branches" *) else
  let bin := firstn b bin in
  (* nextNodeKeys = uniqueKeys(append(nextNodeKeys, writeTo...)) *)
  let next := unique_keys (selected t ++ t_write_to t) in
  (* vs = vs[:len(vs)-len(writeToBranches)] *)
  if Nat.ltb (List.length vs) b then Panic else
  let vs := firstn (List.length vs - b) vs in
  (* if toCopyNum := len(nextNodeKeys) - len(vs); toCopyNum > 0 { copy the last one } *)
  let to_copy := (Z.of_nat (List.length next) - Z.of_nat (List.length vs))%Z in
  do vs_s2 <-
     (if (0 <? to_copy)%Z then
        match last_opt vs with
        | None => Panic
        | Some l =>
            let '(nvs, s2) := copy_item l (to_copy + 1)%Z s1 in
            Ok (firstn (List.length vs - 1) vs ++ nvs, s2)
        end
      else Ok (vs, s1));
  let '(vs, s2) := vs_s2 in
  do writes <- assign_all next vs [];
  (* for _, v := range vs[len(nextNodeKeys):] { close } *)
  Ok {| r_branch_in := bin; r_writes := writes; r_closed := skipn (List.length next) vs; r_store := s2 |}.

(* the code before the repair (defect F-C19): no de-duplication, the second copy is made from
   vs[w+b-1] with toCopyNum+1 which may be <= 0, nothing is closed, and nothing at all happens
   to the copies when no successor was generated *)
Definition resolve_task_v0 (t : task) (out : handle) (s : store) : res resolved :=
  let w := List.length (t_write_to t) in
  let b := List.length (t_branches t) in
  let '(vs, s1) := copy_item out (Z.of_nat (w + 2 * b)) s in
  if Nat.ltb (List.length vs) (w + b) then Panic else
  let bin := skipn (w + b) vs in
  if Nat.ltb (List.length bin) b then Err 1 else
  let bin := firstn b bin in
  let next := selected t ++ t_write_to t in
  match next with
  | [] => Ok {| r_branch_in := bin; r_writes := []; r_closed := []; r_store := s1 |}
  | _ :: _ =>
      let to_copy := (Z.of_nat (List.length next) - Z.of_nat w - Z.of_nat b)%Z in
      if Nat.eqb (w + b) 0 then Panic (* vs[-1] *) else
      match nth_error vs (w + b - 1) with
      | None => Panic
      | Some l =>
          let '(nvs, s2) := copy_item l (to_copy + 1)%Z s1 in
          let vs := firstn (w + b - 1) vs ++ nvs in
          do writes <- assign_all next vs [];
          Ok {| r_branch_in := bin; r_writes := writes; r_closed := []; r_store := s2 |}
      end
  end.

(* ------------------------------------------------------------------ updateValues *)
(* dataPredecessors[target] contains the node iff target is a data edge of the node or an end
   node of one of its branches that carry data (graph.compile) *)
Definition is_data_pred (t : task) (target : key) : bool :=
  memb target (t_write_to t) ||
  existsb (fun br => negb (b_nodata br) && memb target (b_ends br)) (t_branches t).

Record updated := {
  u_chan : list (key * handle);    (* handed to the target channel (reportValues) *)
  u_closed : list handle;          (* target is not a data successor: sr.close() *)
}.

Definition update_values (t : task) (writes : list (key * handle)) : updated :=
  {| u_chan := filter (fun kh => is_data_pred t (fst kh)) writes;
     u_closed := map snd (filter (fun kh => negb (is_data_pred t (fst kh))) writes) |}.

(* ------------------------------------------------------------------ the count observables *)
Record account := {
  a_copies : list Z;        (* sizes of the Copy calls made for this task, in order *)
  a_handles : nat;          (* live handles derived from the task's output afterwards *)
  a_branch_evals : nat;
  a_chan_writes : nat;
  a_closes : nat;           (* explicit closes: resolveCompletedTasks + updateValues *)
  a_resolve_closes : nat;
  a_update_closes : nat;
}.

Definition account_of (t : task) (r : resolved) : account :=
  let u := update_values t (r_writes r) in
  {| a_copies := s_log (r_store r);
     a_handles := List.length (s_open (r_store r));
     a_branch_evals := List.length (r_branch_in r);
     a_chan_writes := List.length (u_chan u);
     a_closes := List.length (r_closed r) + List.length (u_closed u);
     a_resolve_closes := List.length (r_closed r);
     a_update_closes := List.length (u_closed u) |}.

Definition account_task (t : task) : res account :=
  res_map (account_of t) (resolve_task t 0 (init_store 0)).
Definition account_task_v0 (t : task) : res account :=
  res_map (account_of t) (resolve_task_v0 t 0 (init_store 0)).

(* every live handle has exactly one consumer, as a decidable count statement *)
Definition balanced (a : account) : bool :=
  Nat.eqb (a_handles a) (a_branch_evals a + a_chan_writes a + a_closes a).

(* ------------------------------------------------------------------ callback copies *)
(* internal/callbacks.OnWithStreamHandle (inject.go:104-122): without a handler the stream itself
   continues; otherwise inOuts := Copy(len(handlers)+1), handler i is handed inOuts[i] (it reads or
   closes it), the last copy continues.  Returns (the continuing stream, the copies handed to the
   handlers, the store). *)
Definition on_with_stream_handle (handlers : nat) (h : handle) (s : store) : handle * list handle * store :=
  match handlers with
  | O => (h, [], s)
  | S _ =>
      let '(cs, s') := copy_item h (Z.of_nat (handlers + 1)) s in
      (List.last cs h, List.removelast cs, s')
  end.

(* the Copy sizes logged by [n] streaming callback sites with [handlers] handlers each *)
Definition callback_copies (handlers : nat) (sites : nat) : list Z :=
  let '(_, _, s) := on_with_stream_handle handlers 0 (init_store 0) in
  List.concat (List.repeat (s_log s) sites).
