(* Model/StreamOps.v — property C04, part 2: the chunk universe of the harness graphs and
   the stream-level operations the graph engine applies between nodes, next to their
   value-level twins.

   Sources:
     internal/concat.go      ConcatItems on strings (concatStrings) and on map[string]any
                             (concatMaps: per key, values in arrival order; a value that is a
                             map again — map[string]any, map[string]string, ... — is
                             concatenated the same way, recursively; values of different
                             types under one key are an error)
     compose/utils.go 28-90  mergeMap (duplicated key = error) / mergeValues (streams: merge)
     compose/graph_run.go 813-833  copyItem
     compose/stream_reader.go withKey, compose/generic_helper.go defaultStreamMapFilter
     compose/runnable.go 477-538   input / output key wrappers, value and stream form
     schema/stream.go        MergeStreamReaders = some interleaving that keeps every
                             source's own order; StreamReaderWithConvert = item-wise map
                             that passes error items through and drops ErrNoValue

   Chunk universe: strings, and maps from strings to strings or to maps again, to any depth
   (a Go map[string]any whose values are strings, map[string]string or map[string]any).
   A map is represented by the list of its entries in flattened form: the key of an entry
   is the path of map keys that leads to it, ending in [KStr] (a string sits here: the
   entry's value) or in [KMap] (a map sits here — written for every nested map, empty or
   not; the entry's value is the empty string).  {x: {a: "1", b: "2"}, y: "3"} is
       [ (x,KMap) ""; (x,a,KStr) "1"; (x,b,KStr) "2"; (y,KStr) "3" ].
   Whether a Go map is a map[string]any or a map[string]string is not represented: the
   concatenation of chunks does not depend on it.
   Map keys are numbers < 676 here and two-letter strings in Go ([key_str]).  Maps are kept
   sorted by key by construction ([ins]); a key that occurs twice in a list read as chunk
   entries means "the values in that order" — exactly what concatMaps does with the same
   key (path) in several chunks. *)
From Eino Require Import Base.Util Model.Paradigm.

(* the rest of a path below a top-level key *)
Inductive key : Type :=
| KMap                      (* a map sits here *)
| KStr                      (* a string sits here *)
| KSub (k : N) (r : key).   (* further down, under key k *)

(* the key of an entry of a (top-level) map: the first map key and the rest of the path *)
Definition tkey : Type := (N * key)%type.

(* KMap < KStr < KSub; KSub by key number, then by the rest *)
Fixpoint kcmp (a b : key) : comparison :=
  match a, b with
  | KMap, KMap => Eq
  | KMap, _ => Lt
  | KStr, KMap => Gt
  | KStr, KStr => Eq
  | KStr, KSub _ _ => Lt
  | KSub _ _, KMap => Gt
  | KSub _ _, KStr => Gt
  | KSub k r, KSub k' r' => match N.compare k k' with Eq => kcmp r r' | c => c end
  end.

Definition tcmp (a b : tkey) : comparison :=
  match N.compare (fst a) (fst b) with Eq => kcmp (snd a) (snd b) | c => c end.

Definition tltb (a b : tkey) : bool := match tcmp a b with Lt => true | _ => false end.
Definition teqb (a b : tkey) : bool := match tcmp a b with Eq => true | _ => false end.

Definition amap : Type := list (tkey * string).

Inductive val : Type :=
| VS (s : string)
| VM (m : amap).

(* the key of the string stored under the top-level key k *)
Definition kstr (k : N) : tkey := (k, KStr).

(* insert (k, v) into a map: a new key goes to its sorted place, an existing key gets v
   appended to its value (string concatenation of chunks of that key) *)
Fixpoint ins (k : tkey) (v : string) (m : amap) : amap :=
  match m with
  | [] => [(k, v)]
  | (k', v') :: m' =>
      if tltb k k' then (k, v) :: m
      else if teqb k k' then (k', String.append v' v) :: m'
      else (k', v') :: ins k v m'
  end.

Definition ins_all (es : amap) (m : amap) : amap :=
  fold_left (fun acc e => ins (fst e) (snd e) acc) es m.

Fixpoint mhas (k : tkey) (m : amap) : bool :=
  match m with
  | [] => false
  | (k', _) :: m' => teqb k k' || mhas k m'
  end.

(* every value stored under k, in order *)
Fixpoint mgather (k : tkey) (m : amap) : string :=
  match m with
  | [] => EmptyString
  | (k', v) :: m' => if teqb k k' then String.append v (mgather k m') else mgather k m'
  end.

Definition mlookup (k : tkey) (m : amap) : option string :=
  if mhas k m then Some (mgather k m) else None.

Definition mkeys (m : amap) : list tkey := map fst m.

(* the top-level keys of the entries *)
Definition mheads (m : amap) : list N := map (fun e => fst (fst e)) m.

(* some entry sits under the top-level key k *)
Definition hd_has (k : N) (m : amap) : bool := existsb (fun e => N.eqb k (fst (fst e))) m.

(* ---------------------------------------------------------------- nesting *)
(* the entries of a map put under the key k of an enclosing map *)
Definition nestk (k : N) (e : tkey * string) : tkey * string :=
  ((k, KSub (fst (fst e)) (snd (fst e))), snd e).

Definition nest (k : N) (m : amap) : amap := ((k, KMap), EmptyString) :: map (nestk k) m.

(* the entries of the map that sits under the key k (without its own marker) *)
Definition sub_of (k : N) (e : tkey * string) : list (tkey * string) :=
  match fst e with
  | (k', KSub a r) => if N.eqb k k' then [((a, r), snd e)] else []
  | _ => []
  end.

Definition unnest (k : N) (m : amap) : amap := flat_map (sub_of k) m.

(* ---------------------------------------------------------------- type conflicts *)
(* two paths clash when one says "a string sits here" and the other "a map sits here" (or
   goes on below that place): the values under that key have different types, which
   concatMaps rejects ("unexpected slice element type") *)
Fixpoint clash (a b : key) : bool :=
  match a, b with
  | KStr, KMap | KMap, KStr => true
  | KStr, KSub _ _ | KSub _ _, KStr => true
  | KSub k r, KSub k' r' => N.eqb k k' && clash r r'
  | _, _ => false
  end.

Definition tclash (a b : tkey) : bool := N.eqb (fst a) (fst b) && clash (snd a) (snd b).

(* no two entries clash *)
Definition cons_keys (ks : list tkey) : bool :=
  forallb (fun a => forallb (fun b => negb (tclash a b)) ks) ks.

Definition mcons (m : amap) : bool := cons_keys (mkeys m).

(* all chunks strings / all chunks maps *)
Fixpoint all_str (xs : list val) : option (list string) :=
  match xs with
  | [] => Some []
  | VS s :: xs' => match all_str xs' with Some l => Some (s :: l) | None => None end
  | VM _ :: _ => None
  end.

Fixpoint all_map (xs : list val) : option (list amap) :=
  match xs with
  | [] => Some []
  | VM m :: xs' => match all_map xs' with Some l => Some (m :: l) | None => None end
  | VS _ :: _ => None
  end.

(* internal.ConcatItems at the two static chunk types of the harness.  A list mixing the
   two cannot exist in Go (static typing); the model answers with the distinguished e_type,
   as it does when the values under one key have different types. *)
Definition vconcat (xs : list val) : res val :=
  match xs with
  | [] => Err e_empty
  | VS _ :: _ =>
      match all_str xs with Some ss => Ok (VS (concat_strings ss)) | None => Err e_type end
  | VM _ :: _ =>
      match all_map xs with
      | Some ms => let m := ins_all (List.concat ms) [] in
                   if mcons m then Ok (VM m) else Err e_type
      | None => Err e_type
      end
  end.

(* concatStreamReader at these chunk types *)
Definition vsconcat (s : stream val) : res val := sconcat vconcat s.
Definition vsconcatR (r : res (stream val)) : res val := sconcatR vconcat r.

(* ---------------------------------------------------------------- value-level operations *)

(* outputKeyedComposableRunnable.i : map[string]any{key: out} *)
Definition v_withKey (k : N) (x : val) : res val :=
  match x with
  | VS s => Ok (VM [(kstr k, s)])
  | VM m => Ok (VM (nest k m))
  end.

(* what sits under the key k of a map: a string, a map, nothing *)
Definition m_get (k : N) (m : amap) : option val :=
  if mhas (kstr k) m then Some (VS (mgather (kstr k) m))
  else if hd_has k m then Some (VM (ins_all (unnest k m) []))
  else None.

(* inputKeyedComposableRunnable.i : input.(map[string]any)[key], error if absent *)
Definition v_getKey (k : N) (x : val) : res val :=
  match x with
  | VM m => match m_get k m with Some v => Ok v | None => Err e_nokey end
  | VS _ => Err e_type
  end.

Fixpoint disjoint_keys (seen : list N) (ms : list amap) : bool :=
  match ms with
  | [] => true
  | m :: ms' =>
      forallb (fun k => negb (existsb (N.eqb k) seen)) (mheads m)
      && disjoint_keys (mheads m ++ seen) ms'
  end.

(* channel get on fan-in: one value is passed on as it is, several are merged by
   mergeValues -> mergeMap (maps only; a top-level key present twice is an error) *)
Definition v_merge (xs : list val) : res val :=
  match xs with
  | [] => Err e_empty
  | [x] => Ok x
  | _ =>
      match all_map xs with
      | None => Err e_type
      | Some ms =>
          if disjoint_keys [] ms then Ok (VM (ins_all (List.concat ms) [])) else Err e_dupkey
      end
  end.

(* ---------------------------------------------------------------- stream-level operations *)

(* copyItem: every successor gets its own reader over the same items *)
Definition s_copy (n : nat) (s : stream val) : list (stream val) := repeat s n.

(* streamReader.withKey: item-wise map[string]any{key: chunk} *)
Definition s_withKey (k : N) (s : stream val) : stream val :=
  map (fun it => match it with
                 | Val (VS x) => Val (VM [(kstr k, x)])
                 | Val (VM m) => Val (VM (nest k m))
                 | Bad e => Bad e
                 end) s.

(* defaultStreamMapFilter: chunks that do not carry the key are dropped (ErrNoValue) *)
Definition s_keyFilter (k : N) (s : stream val) : stream val :=
  flat_map (fun it => match it with
                      | Val (VM m) => match m_get k m with Some x => [Val x] | None => [] end
                      | Val (VS _) => [Bad e_type]
                      | Bad e => [Bad e]
                      end) s.

(* ---------------------------------------------------------------- run-time type checks *)
(* an edge (or branch, or END) whose start node's output type is an interface (any) gets a
   run-time check of the end node's input type: defaultValueChecker (value form) /
   defaultStreamConverter (chunk-wise) of compose/generic_helper.go.  [want_map]: the
   expected type is map[string]any (false: string). *)
Definition is_map (x : val) : bool := match x with VM _ => true | VS _ => false end.

Definition v_check (want_map : bool) (x : val) : res val :=
  if Bool.eqb (is_map x) want_map then Ok x else Err e_type.

Definition s_check (want_map : bool) (s : stream val) : stream val :=
  map (fun it => match it with
                 | Val x => if Bool.eqb (is_map x) want_map then Val x else Bad e_type
                 | Bad e => Bad e
                 end) s.

(* before commit c44e450 (finding F-C04d, fixed): ConcatItems at an interface chunk type
   looked for a concat function of the interface type itself; two or more chunks (a non-nil
   interface value is never "zero") could not be concatenated.  [sconcat] only calls the
   concatenation with two or more items. *)
Definition vconcat_any_v0 (_ : list val) : res val := Err e_type.

(* ---------------------------------------------------------------- field mappings (Workflow) *)
(* compose/field_mapping.go: fieldMap (value form, a missing map key is an error) /
   streamFieldMap (chunk-wise with allowMapKeyNotFound: a chunk that lacks the key maps
   nothing), followed by the successor's input converter convertTo (an empty mapping result
   becomes the zero value of the input type: "" / empty map).
   [FTo es]: the successor's input is a map; every entry (from, to) puts the predecessor's
   whole output (from = None: ToField) or its field `from` (MapFields) under key `to` — a
   string, or a map (which then sits under `to` as a nested map).
   [FTake a as_map]: the successor's input is the predecessor's field a (FromField), a
   string or (as_map) a nested map. *)
Inductive fmap : Type :=
| FTo (es : list (option N * N))
| FTake (a : N) (as_map : bool).

(* what one mapping contributes for one map chunk (or for the whole map) *)
Definition contribM (m : amap) (e : option N * N) : amap :=
  match fst e with
  | None => nest (snd e) m
  | Some a =>
      if mhas (kstr a) m then [(kstr (snd e), mgather (kstr a) m)]
      else if hd_has a m then nest (snd e) (unnest a m)
      else []
  end.

(* ... for a chunk of any type ([strict]: the whole value, a missing field is an error) *)
Definition fm_one (strict : bool) (e : option N * N) (x : val) : res amap :=
  match fst e, x with
  | None, VS s => Ok [(kstr (snd e), s)]
  | Some _, VS _ => Err e_type
  | None, VM m => Ok (contribM m e)
  | Some a, VM m =>
      if strict && negb (mhas (kstr a) m || hd_has a m) then Err e_nokey else Ok (contribM m e)
  end.

Fixpoint fm_entries (strict : bool) (es : list (option N * N)) (x : val) : res amap :=
  match es with
  | [] => Ok []
  | e :: es' => do r1 <- fm_one strict e x; do r <- fm_entries strict es' x; Ok (r1 ++ r)
  end.

(* FromField: the string / the map under the key a *)
Definition v_getStr (a : N) (x : val) : res val :=
  match x with
  | VM m => match mlookup (kstr a) m with Some s => Ok (VS s) | None => Err e_nokey end
  | VS _ => Err e_type
  end.

Definition v_getMap (a : N) (x : val) : res val :=
  match x with
  | VM m => if mhas (kstr a) m then Err e_type
            else if hd_has a m then Ok (VM (ins_all (unnest a m) [])) else Err e_nokey
  | VS _ => Err e_type
  end.

Definition v_fmap (f : fmap) (x : val) : res val :=
  match f with
  | FTo es => do r <- fm_entries true es x; Ok (VM (ins_all r []))
  | FTake a false => v_getStr a x
  | FTake a true => v_getMap a x
  end.

Definition s_fmap (f : fmap) (s : stream val) : stream val :=
  map (fun it => match it with
                 | Bad e => Bad e
                 | Val x =>
                     match f with
                     | FTo es => match fm_entries false es x with
                                 | Ok r => Val (VM (ins_all r []))
                                 | _ => Bad e_type
                                 end
                     | FTake a false => match x with
                                        | VM m => Val (VS (mgather (kstr a) m))
                                        | VS _ => Bad e_type
                                        end
                     | FTake a true => match x with
                                       | VM m => if mhas (kstr a) m then Bad e_type
                                                 else Val (VM (ins_all (unnest a m) []))
                                       | VS _ => Bad e_type
                                       end
                     end
                 end) s.

(* the keys a mapping reads *)
Definition fmap_from (f : fmap) : list N :=
  match f with
  | FTo es => flat_map (fun e => match fst e with Some a => [a] | None => [] end) es
  | FTake a _ => [a]
  end.

(* every field the mapping reads is there (the other case is finding F-C04c), with the type
   the successor was declared with *)
Definition fmap_dom (f : fmap) (x : val) : bool :=
  match x with
  | VM m =>
      match f with
      | FTo _ => forallb (fun a => mhas (kstr a) m || hd_has a m) (fmap_from f)
      | FTake a false => mhas (kstr a) m
      | FTake a true => mhas (kstr a) m || hd_has a m
      end
  | VS _ => true
  end.

Fixpoint nodup_N (l : list N) : bool :=
  match l with
  | [] => true
  | a :: l' => negb (existsb (N.eqb a) l') && nodup_N l'
  end.

(* Workflow.Compile rejects two mappings into the same field; a mapping list is not empty *)
Definition fmap_wf (f : fmap) : bool :=
  match f with
  | FTo es => negb (match es with [] => true | _ => false end) && nodup_N (map snd es)
  | FTake _ _ => true
  end.

(* t is an interleaving of the sources ls: it can be consumed by repeatedly taking the
   head of one of the sources (MergeStreamReaders keeps each source's own order and
   delivers every item of every source, error items included). *)
Inductive Interleaving {X} : list (list X) -> list X -> Prop :=
| il_nil : forall ls, Forall (fun l => l = []) ls -> Interleaving ls []
| il_cons : forall pre x l post t,
    Interleaving (pre ++ l :: post) t ->
    Interleaving (pre ++ (x :: l) :: post) (x :: t).

(* executable check of the same (first-fit search with backtracking; used by Examples and
   by the correspondence to accept an observed merge order) *)
Section InterleaveCheck.
  Context {X : Type} (eqb : X -> X -> bool).
  Fixpoint take_head (x : X) (pre ls : list (list X)) : list (list (list X)) :=
    match ls with
    | [] => []
    | l :: post =>
        (match l with
         | y :: l' => if eqb x y then [rev_append pre (l' :: post)] else []
         | [] => []
         end) ++ take_head x (l :: pre) post
    end.
  Fixpoint is_interleaving (fuel : nat) (ls : list (list X)) (t : list X) : bool :=
    match t with
    | [] => forallb (fun l => match l with [] => true | _ => false end) ls
    | x :: t' =>
        match fuel with
        | O => false
        | S f => existsb (fun ls' => is_interleaving f ls' t') (take_head x [] ls)
        end
    end.
End InterleaveCheck.

(* one particular interleaving: the sources one after the other (what MergeStreamReaders
   yields for array-backed readers) *)
Definition merge_seq {X} (ls : list (list X)) : list X := List.concat ls.

(* fan-in of streams: one source is passed on, several are merged by [mrg] *)
Definition s_merge (mrg : list (stream val) -> stream val) (ss : list (stream val)) : stream val :=
  match ss with
  | [s] => s
  | _ => mrg ss
  end.

(* an error item somewhere in the stream *)
Definition has_bad {X} (s : stream X) : Prop := exists e, In (Bad e) s.

(* a stream either carries an error item or its chunks concatenate: what every stream of a
   graph run satisfies (a producer reports a failure by an error item, it does not emit
   chunks that cannot be put together) *)
Definition sound (s : stream val) : Prop := has_bad s \/ exists v, vsconcat s = Ok v.

(* two-letter rendering of a key, shared with the Go harness *)
Definition letter (n : N) : ascii := ascii_of_N (97 + n mod 26).
Definition key_str (k : N) : string := String (letter (k / 26)) (String (letter k) EmptyString).

(* rendering of a path: the keys joined by "." *)
Fixpoint rest_str (r : key) : string :=
  match r with
  | KSub a r' => String "."%char (String.append (key_str a) (rest_str r'))
  | _ => EmptyString
  end.
Definition tkey_str (k : tkey) : string := String.append (key_str (fst k)) (rest_str (snd k)).

(* is this the marker of a nested map *)
Fixpoint is_marker (r : key) : bool :=
  match r with
  | KMap => true
  | KStr => false
  | KSub _ r' => is_marker r'
  end.
