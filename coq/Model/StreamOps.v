(* Model/StreamOps.v — property C04, part 2: the chunk universe of the harness graphs and
   the stream-level operations the graph engine applies between nodes, next to their
   value-level twins.

   Sources:
     internal/concat.go      ConcatItems on strings (concatStrings) and on map[string]any
                             (concatMaps: per key, values in arrival order)
     compose/utils.go 28-90  mergeMap (duplicated key = error) / mergeValues (streams: merge)
     compose/graph_run.go 813-833  copyItem
     compose/stream_reader.go withKey, compose/generic_helper.go defaultStreamMapFilter
     compose/runnable.go 477-538   input / output key wrappers, value and stream form
     schema/stream.go        MergeStreamReaders = some interleaving that keeps every
                             source's own order; StreamReaderWithConvert = item-wise map
                             that passes error items through and drops ErrNoValue

   Chunk universe: strings and flat maps string -> string (a Go map[string]any whose values
   are strings).  Map keys are numbers < 676 here and two-letter strings in Go ([key_str]).
   Maps are association lists kept sorted by key by construction ([ins]); a key that occurs
   twice in a list read as chunk entries means "the values in that order" — exactly what
   concatMaps does with the same key in several chunks. *)
From Eino Require Import Base.Util Model.Paradigm.

Definition amap : Type := list (N * string).

Inductive val : Type :=
| VS (s : string)
| VM (m : amap).

(* insert (k, v) into a map: a new key goes to its sorted place, an existing key gets v
   appended to its value (string concatenation of chunks of that key) *)
Fixpoint ins (k : N) (v : string) (m : amap) : amap :=
  match m with
  | [] => [(k, v)]
  | (k', v') :: m' =>
      if N.ltb k k' then (k, v) :: m
      else if N.eqb k k' then (k', String.append v' v) :: m'
      else (k', v') :: ins k v m'
  end.

Definition ins_all (es : amap) (m : amap) : amap :=
  fold_left (fun acc e => ins (fst e) (snd e) acc) es m.

Fixpoint mhas (k : N) (m : amap) : bool :=
  match m with
  | [] => false
  | (k', _) :: m' => N.eqb k k' || mhas k m'
  end.

(* every value stored under k, in order *)
Fixpoint mgather (k : N) (m : amap) : string :=
  match m with
  | [] => EmptyString
  | (k', v) :: m' => if N.eqb k k' then String.append v (mgather k m') else mgather k m'
  end.

Definition mlookup (k : N) (m : amap) : option string :=
  if mhas k m then Some (mgather k m) else None.

Definition mkeys (m : amap) : list N := map fst m.

(* all chunks strings / all chunks maps *)
Fixpoint all_str (xs : list val) : option (list string) :=
  match xs with
  | [] => Some []
  | VS s :: xs' => match all_str xs' with Some l => Some (s :: l) | None => None end
  | VM _ :: _ => None
  end.

Fixpoint all_map (xs : list val) : option (list amap) :=
  match xs with
  | [] => Some []
  | VM m :: xs' => match all_map xs' with Some l => Some (m :: l) | None => None end
  | VS _ :: _ => None
  end.

(* internal.ConcatItems at the two static chunk types of the harness.  A list mixing the
   two cannot exist in Go (static typing); the model answers with the distinguished e_type. *)
Definition vconcat (xs : list val) : res val :=
  match xs with
  | [] => Err e_empty
  | VS _ :: _ =>
      match all_str xs with Some ss => Ok (VS (concat_strings ss)) | None => Err e_type end
  | VM _ :: _ =>
      match all_map xs with Some ms => Ok (VM (ins_all (List.concat ms) [])) | None => Err e_type end
  end.

(* concatStreamReader at these chunk types *)
Definition vsconcat (s : stream val) : res val := sconcat vconcat s.
Definition vsconcatR (r : res (stream val)) : res val := sconcatR vconcat r.

(* ---------------------------------------------------------------- value-level operations *)

(* outputKeyedComposableRunnable.i : map[string]any{key: out} *)
Definition v_withKey (k : N) (x : val) : res val :=
  match x with
  | VS s => Ok (VM [(k, s)])
  | VM _ => Err e_type            (* nested maps are outside the modelled universe *)
  end.

(* inputKeyedComposableRunnable.i : input.(map[string]any)[key], error if absent *)
Definition v_getKey (k : N) (x : val) : res val :=
  match x with
  | VM m => match mlookup k m with Some s => Ok (VS s) | None => Err e_nokey end
  | VS _ => Err e_type
  end.

Fixpoint disjoint_keys (seen : list N) (ms : list amap) : bool :=
  match ms with
  | [] => true
  | m :: ms' =>
      forallb (fun k => negb (existsb (N.eqb k) seen)) (mkeys m)
      && disjoint_keys (mkeys m ++ seen) ms'
  end.

(* channel get on fan-in: one value is passed on as it is, several are merged by
   mergeValues -> mergeMap (maps only; a key present twice is an error) *)
Definition v_merge (xs : list val) : res val :=
  match xs with
  | [] => Err e_empty
  | [x] => Ok x
  | _ =>
      match all_map xs with
      | None => Err e_type
      | Some ms =>
          if disjoint_keys [] ms then Ok (VM (ins_all (List.concat ms) [])) else Err e_dupkey
      end
  end.

(* ---------------------------------------------------------------- stream-level operations *)

(* copyItem: every successor gets its own reader over the same items *)
Definition s_copy (n : nat) (s : stream val) : list (stream val) := repeat s n.

(* streamReader.withKey: item-wise map[string]any{key: chunk} *)
Definition s_withKey (k : N) (s : stream val) : stream val :=
  map (fun it => match it with
                 | Val (VS x) => Val (VM [(k, x)])
                 | Val (VM _) => Bad e_type
                 | Bad e => Bad e
                 end) s.

(* defaultStreamMapFilter: chunks that do not carry the key are dropped (ErrNoValue) *)
Definition s_keyFilter (k : N) (s : stream val) : stream val :=
  flat_map (fun it => match it with
                      | Val (VM m) => match mlookup k m with Some x => [Val (VS x)] | None => [] end
                      | Val (VS _) => [Bad e_type]
                      | Bad e => [Bad e]
                      end) s.

(* ---------------------------------------------------------------- run-time type checks *)
(* an edge (or branch, or END) whose start node's output type is an interface (any) gets a
   run-time check of the end node's input type: defaultValueChecker (value form) /
   defaultStreamConverter (chunk-wise) of compose/generic_helper.go.  [want_map]: the
   expected type is map[string]any (false: string). *)
Definition is_map (x : val) : bool := match x with VM _ => true | VS _ => false end.

Definition v_check (want_map : bool) (x : val) : res val :=
  if Bool.eqb (is_map x) want_map then Ok x else Err e_type.

Definition s_check (want_map : bool) (s : stream val) : stream val :=
  map (fun it => match it with
                 | Val x => if Bool.eqb (is_map x) want_map then Val x else Bad e_type
                 | Bad e => Bad e
                 end) s.

(* before commit c44e450 (finding F-C04d, fixed): ConcatItems at an interface chunk type
   looked for a concat function of the interface type itself; two or more chunks (a non-nil
   interface value is never "zero") could not be concatenated.  [sconcat] only calls the
   concatenation with two or more items. *)
Definition vconcat_any_v0 (_ : list val) : res val := Err e_type.

(* ---------------------------------------------------------------- field mappings (Workflow) *)
(* compose/field_mapping.go: fieldMap (value form, a missing map key is an error) /
   streamFieldMap (chunk-wise with allowMapKeyNotFound: a chunk that lacks the key maps
   nothing), followed by the successor's input converter convertTo (an empty mapping result
   becomes the zero value of the input type: "" / empty map).
   [FTo es]: the successor's input is a map; every entry (from, to) puts the predecessor's
   whole output (from = None: ToField) or its field `from` (MapFields) under key `to`.
   [FTake a]: the successor's input is the predecessor's field a (FromField). *)
Inductive fmap : Type :=
| FTo (es : list (option N * N))
| FTake (a : N).

(* raw entries one chunk (or the whole value, [strict]) contributes; None = a value of the
   wrong type for this mapping *)
Fixpoint fm_entries (strict : bool) (es : list (option N * N)) (x : val) : res amap :=
  match es with
  | [] => Ok []
  | (from, to) :: es' =>
      do e <- match from, x with
              | None, VS s => Ok [(to, s)]
              | Some a, VM m =>
                  if mhas a m then Ok [(to, mgather a m)]
                  else if strict then Err e_nokey else Ok []
              | _, _ => Err e_type
              end;
      do r <- fm_entries strict es' x;
      Ok (e ++ r)
  end.

Definition v_fmap (f : fmap) (x : val) : res val :=
  match f with
  | FTo es => do r <- fm_entries true es x; Ok (VM (ins_all r []))
  | FTake a => v_getKey a x
  end.

Definition s_fmap (f : fmap) (s : stream val) : stream val :=
  map (fun it => match it with
                 | Bad e => Bad e
                 | Val x =>
                     match f with
                     | FTo es => match fm_entries false es x with
                                 | Ok r => Val (VM (ins_all r []))
                                 | _ => Bad e_type
                                 end
                     | FTake a => match x with
                                  | VM m => Val (VS (mgather a m))
                                  | VS _ => Bad e_type
                                  end
                     end
                 end) s.

(* the keys a mapping reads *)
Definition fmap_from (f : fmap) : list N :=
  match f with
  | FTo es => flat_map (fun e => match fst e with Some a => [a] | None => [] end) es
  | FTake a => [a]
  end.

(* every key the mapping reads is there (the other case is finding F-C04c) *)
Definition fmap_dom (f : fmap) (x : val) : bool :=
  match x with
  | VM m => forallb (fun a => mhas a m) (fmap_from f)
  | VS _ => true
  end.

Fixpoint nodup_N (l : list N) : bool :=
  match l with
  | [] => true
  | a :: l' => negb (existsb (N.eqb a) l') && nodup_N l'
  end.

(* Workflow.Compile rejects two mappings into the same field; a mapping list is not empty *)
Definition fmap_wf (f : fmap) : bool :=
  match f with
  | FTo es => negb (match es with [] => true | _ => false end) && nodup_N (map snd es)
  | FTake _ => true
  end.

(* t is an interleaving of the sources ls: it can be consumed by repeatedly taking the
   head of one of the sources (MergeStreamReaders keeps each source's own order and
   delivers every item of every source, error items included). *)
Inductive Interleaving {X} : list (list X) -> list X -> Prop :=
| il_nil : forall ls, Forall (fun l => l = []) ls -> Interleaving ls []
| il_cons : forall pre x l post t,
    Interleaving (pre ++ l :: post) t ->
    Interleaving (pre ++ (x :: l) :: post) (x :: t).

(* executable check of the same (first-fit search with backtracking; used by Examples and
   by the correspondence to accept an observed merge order) *)
Section InterleaveCheck.
  Context {X : Type} (eqb : X -> X -> bool).
  Fixpoint take_head (x : X) (pre ls : list (list X)) : list (list (list X)) :=
    match ls with
    | [] => []
    | l :: post =>
        (match l with
         | y :: l' => if eqb x y then [rev_append pre (l' :: post)] else []
         | [] => []
         end) ++ take_head x (l :: pre) post
    end.
  Fixpoint is_interleaving (fuel : nat) (ls : list (list X)) (t : list X) : bool :=
    match t with
    | [] => forallb (fun l => match l with [] => true | _ => false end) ls
    | x :: t' =>
        match fuel with
        | O => false
        | S f => existsb (fun ls' => is_interleaving f ls' t') (take_head x [] ls)
        end
    end.
End InterleaveCheck.

(* one particular interleaving: the sources one after the other (what MergeStreamReaders
   yields for array-backed readers) *)
Definition merge_seq {X} (ls : list (list X)) : list X := List.concat ls.

(* fan-in of streams: one source is passed on, several are merged by [mrg] *)
Definition s_merge (mrg : list (stream val) -> stream val) (ss : list (stream val)) : stream val :=
  match ss with
  | [s] => s
  | _ => mrg ss
  end.

(* two-letter rendering of a key, shared with the Go harness *)
Definition letter (n : N) : ascii := ascii_of_N (97 + n mod 26).
Definition key_str (k : N) : string := String (letter (k / 26)) (String (letter k) EmptyString).
