(* Model/ChainGenLib.v — property C01: the vocabulary of the statement-by-statement translation of the chain
   lowering code of compose/chain.go (tools/go2v, extractor "chainlower" -> Gen/ChainLower.v).
     Chain[I,O]{err, gg, nodeIdx, preNodeKeys, hasEnd}   the record [chain_st G] (G = the graph under construction)
     error values                                        option N (None = nil)
     map[string]string (key2NodeKey)                     association list in insertion order; gmap.Values = the values
                                                         in that order (Go's order is arbitrary)
     map[string]pair (ChainBranch.key2BranchNode)        association list; ranged over by key, read by index
     fmt.Sprintf(format, args…)                          an uninterpreted key made of the format and the arguments
   Definitions only. *)
From Eino Require Import Base.Util Model.Graph Model.ImpGenLib.

Record chain_st (G : Type) := {
  ch_err : option N;          (* Chain.err *)
  ch_g : G;                   (* Chain.gg *)
  ch_idx : nat;               (* Chain.nodeIdx *)
  ch_prev : list key;         (* Chain.preNodeKeys *)
  ch_has_end : bool;          (* Chain.hasEnd *)
}.
Arguments ch_err {G}. Arguments ch_g {G}. Arguments ch_idx {G}. Arguments ch_prev {G}. Arguments ch_has_end {G}.

Section Setters.
  Context {G : Type}.
  Definition ch_set_err (c : chain_st G) (e : option N) : chain_st G :=
    {| ch_err := e; ch_g := ch_g c; ch_idx := ch_idx c; ch_prev := ch_prev c; ch_has_end := ch_has_end c |}.
  Definition ch_set_g (c : chain_st G) (g : G) : chain_st G :=
    {| ch_err := ch_err c; ch_g := g; ch_idx := ch_idx c; ch_prev := ch_prev c; ch_has_end := ch_has_end c |}.
  Definition ch_set_idx (c : chain_st G) (i : nat) : chain_st G :=
    {| ch_err := ch_err c; ch_g := ch_g c; ch_idx := i; ch_prev := ch_prev c; ch_has_end := ch_has_end c |}.
  Definition ch_set_prev (c : chain_st G) (p : list key) : chain_st G :=
    {| ch_err := ch_err c; ch_g := ch_g c; ch_idx := ch_idx c; ch_prev := p; ch_has_end := ch_has_end c |}.
  Definition ch_set_has_end (c : chain_st G) (b : bool) : chain_st G :=
    {| ch_err := ch_err c; ch_g := ch_g c; ch_idx := ch_idx c; ch_prev := ch_prev c; ch_has_end := b |}.
End Setters.

Definition is_some {A} (o : option A) : bool := match o with Some _ => true | None => false end.
Definition is_none {A} (o : option A) : bool := match o with Some _ => false | None => true end.

Inductive fmt_arg := fa_key (k : key) | fa_nat (n : nat).

(* map[string]string *)
Definition km_empty : list (key * key) := [].
Fixpoint km_set (k v : key) (m : list (key * key)) : list (key * key) :=
  match m with
  | [] => [(k, v)]
  | (k', v') :: m' => if N.eqb k k' then (k, v) :: m' else (k', v') :: km_set k v m'
  end.
Definition km_values (m : list (key * key)) : list key := map snd m.

(* map[string]pair *)
Definition bn_keys {PR} (m : list (key * PR)) : list key := map fst m.
Definition bn_get {PR} (d : PR) (m : list (key * PR)) (k : key) : PR :=
  match alookup k m with Some p => p | None => d end.
