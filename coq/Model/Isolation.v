(* Model/Isolation.v — property C09: runs of one compiled runnable are isolated.

   What is modelled (compose/graph_run.go `runner.run`, graph.go:790 `runCtx`,
   utils.go `extractOption`, internal/callbacks/inject.go, flow/agent/react/react.go):

   * a *compiled record* (the `runner`: chanSubscribeTo, successors, predecessors,
     handler managers, compile options; the agent's closures) that is built once and
     is only READ by a run;
   * a *per-run state* allocated at the top of every `run` call: the channel manager
     (`initChannelManager`), the task manager (`initTaskManager`), the option map
     (`extractOption`), the local state (`runCtx` = one call of the state generator),
     the callback manager carried by the context, the step counter.

   The generic part is a labelled transition system with interleaving semantics:
   a store [Sh] shared by all runs (it contains the compiled record: [view s]) and a
   list of per-run states [R]; a global step picks a run index and performs one step of
   that run.  A step may, in general, WRITE the shared store: that is the shape of
   defect F-C09 (react.go:257, a closure that assigns a variable of the constructor),
   and it lets Props/C09.v show that the hypothesis "no run writes what runs read" is
   necessary.  Definitions only; the theorems are in Proofs/Isolation.v. *)
From Eino Require Import Base.Util.

Set Implicit Arguments.

Section Product.
  Variables Sh R : Type.
  (* one step of one run: reads the shared store and its own state, returns the
     new store and its new state.  None = no step enabled (the run has returned). *)
  Variable stepw : Sh -> R -> option (Sh * R).

  Definition gstate : Type := (Sh * list R)%type.

  Fixpoint upd (i : nat) (r : R) (l : list R) : list R :=
    match l, i with
    | [], _ => []
    | _ :: l', O => r :: l'
    | a :: l', S i' => a :: upd i' r l'
    end.

  (* global step: run [i] moves.  Not enabled (None) when [i] is not a run or run [i]
     has terminated: a schedule is a list of indices of ENABLED steps. *)
  Definition gstep (i : nat) (g : gstate) : option gstate :=
    match nth_error (snd g) i with
    | None => None
    | Some r =>
        match stepw (fst g) r with
        | None => None
        | Some (s', r') => Some (s', upd i r' (snd g))
        end
    end.

  Fixpoint grun (sched : list nat) (g : gstate) : option gstate :=
    match sched with
    | [] => Some g
    | i :: sc => match gstep i g with None => None | Some g' => grun sc g' end
    end.

  (* the successive states of run [i] along a global run (stutter steps removed) *)
  Fixpoint gproj (i : nat) (sched : list nat) (g : gstate) : list R :=
    match sched with
    | [] => []
    | j :: sc =>
        match gstep j g with
        | None => []
        | Some g' =>
            (if Nat.eqb j i then match nth_error (snd g') i with Some r => [r] | None => [] end else [])
              ++ gproj i sc g'
        end
    end.

  Fixpoint count (i : nat) (sched : list nat) : nat :=
    match sched with
    | [] => O
    | j :: sc => (if Nat.eqb j i then 1 else 0) + count i sc
    end.

  (* a run alone: the same step function, nobody else moves *)
  Fixpoint solo (n : nat) (s : Sh) (r : R) : option (Sh * R) :=
    match n with
    | O => Some (s, r)
    | S n' => match stepw s r with None => None | Some (s', r') => solo n' s' r' end
    end.

  Fixpoint solo_trace (n : nat) (s : Sh) (r : R) : list R :=
    match n with
    | O => []
    | S n' => match stepw s r with None => [] | Some (s', r') => r' :: solo_trace n' s' r' end
    end.

  (* run alone to completion; None = out of fuel (a distinguished outcome, never a value) *)
  Fixpoint solo_run (fuel : nat) (s : Sh) (r : R) : option (Sh * R) :=
    match stepw s r with
    | None => Some (s, r)
    | Some (s', r') => match fuel with O => None | S f => solo_run f s' r' end
    end.

  Definition final (s : Sh) (r : R) : bool :=
    match stepw s r with None => true | Some _ => false end.

  Definition all_final (g : gstate) : bool := forallb (final (fst g)) (snd g).

  (* driving the product by an OBSERVED interleaving (used by the correspondence check): an
     entry whose run has no step enabled is skipped; the steps actually taken are returned,
     they form a schedule in the sense of [grun] (Proofs/Isolation.v gdrive_is_grun) *)
  Fixpoint gdrive (sched : list nat) (g : gstate) : gstate * list nat :=
    match sched with
    | [] => (g, [])
    | i :: sc =>
        match gstep i g with
        | None => gdrive sc g
        | Some g' => let (gf, tk) := gdrive sc g' in (gf, i :: tk)
        end
    end.

  (* run [i] until it has no step left, at most [fuel] steps *)
  Fixpoint gfinish1 (fuel : nat) (i : nat) (g : gstate) : gstate * list nat :=
    match fuel with
    | O => (g, [])
    | S f =>
        match gstep i g with
        | None => (g, [])
        | Some g' => let (gf, tk) := gfinish1 f i g' in (gf, i :: tk)
        end
    end.

  Fixpoint gfinish (fuel : nat) (runs : list nat) (g : gstate) : gstate * list nat :=
    match runs with
    | [] => (g, [])
    | i :: runs' =>
        let (g1, t1) := gfinish1 fuel i g in
        let (g2, t2) := gfinish fuel runs' g1 in (g2, t1 ++ t2)
    end.

  (* the sequential schedule: run 0 to completion, then run 1, ... (used for non-vacuity) *)
  Fixpoint seq_sched (i : nat) (lens : list nat) : list nat :=
    match lens with
    | [] => []
    | n :: ls => repeat i n ++ seq_sched (S i) ls
    end.
End Product.

(* ------------------------------------------------------------------------------------ *)
(* The system the property is about: the compiled record is a PARAMETER of the step
   function, i.e. immutable by construction. *)
Section Pure.
  Variables C R : Type.
  Variable step : C -> R -> option R.

  Definition lift (c : C) (r : R) : option (C * R) :=
    match step c r with None => None | Some r' => Some (c, r') end.

  Fixpoint iter (c : C) (n : nat) (r : R) : option R :=
    match n with
    | O => Some r
    | S n' => match step c r with None => None | Some r' => iter c n' r' end
    end.

  (* run alone to completion, None = out of fuel *)
  Fixpoint run_alone (c : C) (fuel : nat) (r : R) : option R :=
    match step c r with
    | None => Some r
    | Some r' => match fuel with O => None | S f => run_alone c f r' end
    end.
End Pure.

(* ------------------------------------------------------------------------------------ *)
(* Instance 1 — a small any-predecessor engine, shaped like runner.run:
   compiled record = node table + successor lists + step limit + state generator seed;
   per-run state   = channels (per node: pending values), local state, per-run options,
                     step counter, result.  Everything a run mutates lives in [rrec]. *)
Record crec : Type := {
  c_nodes : list (N * N);          (* node key -> function code: output = code * input + key *)
  c_succ : list (N * list N);      (* successors; key 0 = START; the key [c_end] = END       *)
  c_end : N;
  c_max : nat;                     (* step limit (WithMaxRunSteps / default len+10)          *)
  c_state0 : N                     (* what the state generator returns                       *)
}.

Record rrec : Type := {
  r_chan : list (N * list N);      (* node -> values written in the previous superstep      *)
  r_state : N;                     (* local state: every node execution adds its input      *)
  r_opt : N;                       (* a per-call option read by every node                   *)
  r_steps : nat;
  r_result : option (res N)
}.

(* mirrors the top of runner.run: fresh channel manager, options of THIS call, state from the generator *)
Definition rinit (c : crec) (input opt : N) : rrec :=
  {| r_chan := map (fun k => (k, [input])) (match nlist_get 0%N (c_succ c) with Some l => l | None => [] end);
     r_state := c_state0 c; r_opt := opt; r_steps := O; r_result := None |}.

Definition sumN (l : list N) : N := fold_right N.add 0%N l.

Fixpoint chan_add (k : N) (v : N) (ch : list (N * list N)) : list (N * list N) :=
  match ch with
  | [] => [(k, [v])]
  | (k', vs) :: ch' =>
      if N.ltb k k' then (k, [v]) :: ch
      else if N.eqb k k' then (k', vs ++ [v]) :: ch'
      else (k', vs) :: chan_add k v ch'
  end.

(* one superstep: every node with a non-empty channel runs on the merge (sum) of its
   pending values; outputs go to the successors' channels of the NEXT superstep *)
Definition superstep (c : crec) (r : rrec) : option rrec :=
  match r_result r with
  | Some _ => None                                       (* returned: nothing enabled *)
  | None =>
      match nlist_get (c_end c) (r_chan r) with
      | Some vs => Some {| r_chan := []; r_state := r_state r; r_opt := r_opt r;
                           r_steps := r_steps r; r_result := Some (Ok (sumN vs)) |}
      | None =>
          if Nat.leb (c_max c) (r_steps r)
          then Some {| r_chan := []; r_state := r_state r; r_opt := r_opt r;
                       r_steps := r_steps r; r_result := Some (Err 1%N) |}   (* ErrExceedMaxSteps *)
          else
            match r_chan r with
            | [] => Some {| r_chan := []; r_state := r_state r; r_opt := r_opt r;
                            r_steps := r_steps r; r_result := Some (Err 2%N) |} (* no tasks to execute *)
            | _ =>
                let execs := map (fun kv => let inp := sumN (snd kv) in
                                            (fst kv, inp,
                                             match nlist_get (fst kv) (c_nodes c) with
                                             | Some code => (code * inp + fst kv + r_opt r)%N
                                             | None => inp end)) (r_chan r) in
                let writes := flat_map (fun e => match e with (k, _, out) =>
                                  map (fun t => (t, out))
                                      (match nlist_get k (c_succ c) with Some l => l | None => [] end) end) execs in
                Some {| r_chan := fold_left (fun ch w => chan_add (fst w) (snd w) ch) writes [];
                        r_state := (r_state r + sumN (map (fun e => snd (fst e)) execs))%N;
                        r_opt := r_opt r;
                        r_steps := S (r_steps r);
                        r_result := None |}
            end
      end
  end.

(* ------------------------------------------------------------------------------------ *)
(* Instance 2 — the shape of defect F-C09 (flow/agent/react/react.go:253-273 before the
   repair): `buildReturnDirectly(graph) (err error)`; the converter closure executed by
   every run does
        err = compose.ProcessState(...)      -- pc 0: WRITE the constructor's variable
        if err != nil { return nil, err }    -- pc 1: READ it back
   The shared store is that one cell; [w_mine] is what ProcessState returned in this run. *)
Record wrun : Type := { w_pc : N; w_mine : option N; w_ret : option (option N) }.

Definition wstep_shared (cell : option N) (r : wrun) : option (option N * wrun) :=
  if N.eqb (w_pc r) 0 then Some (w_mine r, {| w_pc := 1; w_mine := w_mine r; w_ret := None |})
  else if N.eqb (w_pc r) 1 then Some (cell, {| w_pc := 2; w_mine := w_mine r; w_ret := Some cell |})
  else None.

(* the repaired closure: the error is a local of the closure, i.e. part of the run state *)
Definition wstep_local (cell : option N) (r : wrun) : option (option N * wrun) :=
  if N.eqb (w_pc r) 0 then Some (cell, {| w_pc := 1; w_mine := w_mine r; w_ret := None |})
  else if N.eqb (w_pc r) 1 then Some (cell, {| w_pc := 2; w_mine := w_mine r; w_ret := Some (w_mine r) |})
  else None.

(* ------------------------------------------------------------------------------------ *)
(* Instance 3 — the replay machine used by the correspondence check (Corr/C09.v) for the
   kinds of compiled objects that Model/IsolationEngine.v does not predict: the compiled
   record is the table of solo observations (per call spec: the canonical event list and the
   rendered result, recorded by running the implementation alone); a run emits its spec's
   events one per step. *)
Record tspec : Type := { t_events : list string; t_result : string }.
Record trun : Type := { tr_spec : nat; tr_pos : nat; tr_emitted : list string (* reversed *) }.

Definition tstep (tab : list tspec) (r : trun) : option trun :=
  match nth_error tab (tr_spec r) with
  | None => None
  | Some sp =>
      match nth_error (t_events sp) (tr_pos r) with
      | None => None
      | Some e => Some {| tr_spec := tr_spec r; tr_pos := S (tr_pos r); tr_emitted := e :: tr_emitted r |}
      end
  end.

Definition tinit (spec : nat) : trun := {| tr_spec := spec; tr_pos := O; tr_emitted := [] |}.

(* observable of a run: Some (result, events) once it has emitted its whole trace *)
Definition tobs (tab : list tspec) (r : trun) : option (string * list string) :=
  match nth_error tab (tr_spec r) with
  | None => None
  | Some sp => if Nat.eqb (tr_pos r) (List.length (t_events sp)) then Some (t_result sp, rev (tr_emitted r)) else None
  end.

(* ------------------------------------------------------------------------------------ *)
(* Instance 4 — shapes of shared mutable state that a refactoring of a compiled object can
   introduce (the self mutation tests of notes/C09.md): each is a system in which a run WRITES
   the shared store; Props/C09.v shows by a witness that a run then returns something it does
   not return alone. *)

(* (a) a buffer kept in the compiled object and reused by every run ("avoid an allocation"):
   pc 0: clear the buffer and append the options of THIS call; pc 1: hand the buffer to the node *)
Record brun : Type := { b_pc : N; b_opts : list N; b_seen : option (list N) }.

Definition bstep_shared (buf : list N) (r : brun) : option (list N * brun) :=
  if N.eqb (b_pc r) 0 then Some (b_opts r, {| b_pc := 1; b_opts := b_opts r; b_seen := None |})
  else if N.eqb (b_pc r) 1 then Some (buf, {| b_pc := 2; b_opts := b_opts r; b_seen := Some buf |})
  else None.

(* (b) a per-call setting written into the compiled object (WithRuntimeMaxSteps stored in the
   runner's options): a run with an override writes the limit, every run reads it.  This one
   is wrong even without overlap: a LATER run inherits the limit of an earlier one. *)
Record lrun : Type := { l_pc : N; l_override : option N; l_used : option N }.

Definition lstep_sticky (limit : N) (r : lrun) : option (N * lrun) :=
  if N.eqb (l_pc r) 0 then
    Some (match l_override r with Some m => m | None => limit end,
          {| l_pc := 1; l_override := l_override r; l_used := None |})
  else if N.eqb (l_pc r) 1 then Some (limit, {| l_pc := 2; l_override := l_override r; l_used := Some limit |})
  else None.

(* the code as it is: the limit of the call is a local of the run *)
Definition lstep_local (limit : N) (r : lrun) : option (N * lrun) :=
  if N.eqb (l_pc r) 0 then Some (limit, {| l_pc := 1; l_override := l_override r; l_used := None |})
  else if N.eqb (l_pc r) 1 then
    Some (limit, {| l_pc := 2; l_override := l_override r;
                    l_used := Some (match l_override r with Some m => m | None => limit end) |})
  else None.

(* (c) the successor list of a completed node put together by appending the run's branch
   selection ONTO the compiled edge slice (compose/graph_run.go resolveCompletedTasks written as
   uniqueKeys(append(t.call.writeTo, nextNodeKeys...)); seeded change
   C09-successors-appended-onto-shared-edge-slice).  The edge slice was built by repeated append
   at graph-construction time, so with 3 or 5-7 edges it has spare capacity and the append
   writes the slot after its length in the SHARED backing array.  The store is that backing
   array up to its capacity: the compiled edges and the spare slot (0 = the zero value).
   pc 0: write the selection of THIS run into the spare slot; pc 1: read the slice back (the
   successors the run goes on with). *)
Record aslice : Type := { as_edges : list N; as_spare : N }.
Record arun : Type := { a_pc : N; a_sel : N; a_used : option (list N) }.

Definition astep_shared (s : aslice) (r : arun) : option (aslice * arun) :=
  if N.eqb (a_pc r) 0 then
    Some ({| as_edges := as_edges s; as_spare := a_sel r |}, {| a_pc := 1; a_sel := a_sel r; a_used := None |})
  else if N.eqb (a_pc r) 1 then
    Some (s, {| a_pc := 2; a_sel := a_sel r; a_used := Some (as_edges s ++ [as_spare s]) |})
  else None.

(* the code as it is: the selections come first and the compiled edges are appended to THEM
   (append(nextNodeKeys, t.call.writeTo...)): the list is the run's own, the record is only read *)
Definition astep_local (s : aslice) (r : arun) : option (aslice * arun) :=
  if N.eqb (a_pc r) 0 then Some (s, {| a_pc := 1; a_sel := a_sel r; a_used := None |})
  else if N.eqb (a_pc r) 1 then
    Some (s, {| a_pc := 2; a_sel := a_sel r; a_used := Some (as_edges s ++ [a_sel r]) |})
  else None.

(* (d) a user function of a run handed the context of the CONSTRUCTOR instead of the context of
   the run (defect F-C09b, flow/agent/react/react.go:224 before 69dbab3: the branch condition
   after the chat model closed over NewAgent's ctx and passed it to the StreamToolCallChecker).
   The store is that one context, reduced to its cancelled flag; its owner — whoever called the
   constructor — may cancel it once the constructor has returned (run kind [c_owner]: one step
   that cancels).  A checking run ([c_owner = false]) has its own context [c_own_cancelled];
   pc 0: the checker looks at the context it was handed; verdict = that context is still live. *)
Record crun : Type := { c_owner : bool; c_pc : N; c_own_cancelled : bool; c_verdict : option bool }.

Definition cstep_ctor (ctor_cancelled : bool) (r : crun) : option (bool * crun) :=
  if N.eqb (c_pc r) 0 then
    if c_owner r then Some (true, {| c_owner := true; c_pc := 1; c_own_cancelled := c_own_cancelled r; c_verdict := None |})
    else Some (ctor_cancelled, {| c_owner := false; c_pc := 1; c_own_cancelled := c_own_cancelled r;
                                  c_verdict := Some (negb ctor_cancelled) |})
  else None.

(* the repaired condition hands on the context it is called with: the run's own *)
Definition cstep_own (ctor_cancelled : bool) (r : crun) : option (bool * crun) :=
  if N.eqb (c_pc r) 0 then
    if c_owner r then Some (true, {| c_owner := true; c_pc := 1; c_own_cancelled := c_own_cancelled r; c_verdict := None |})
    else Some (ctor_cancelled, {| c_owner := false; c_pc := 1; c_own_cancelled := c_own_cancelled r;
                                  c_verdict := Some (negb (c_own_cancelled r)) |})
  else None.
