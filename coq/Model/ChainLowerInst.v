(* Model/ChainLowerInst.v — property C01: the chain lowering code of compose/chain.go (Model/ChainLowerSpec.v =
   Gen/ChainLower.v) run on the model's data: the graph under construction is the node list of Model/Chain.v.
   What the untranslated code does is stated here as definitions (the hypotheses of the tie):
     graph.addNode        appends the node; fails when the key is END or already present (compose/graph.go)
     graph.AddEdge        add_edge of Model/Chain.v (data + control edge); does not fail for nodes that exist
     graph.AddBranch      add_branch of Model/Chain.v
     Parallel.err         set when a node has no output key or two nodes share one (compose/chain_parallel.go)
     the GraphBranch      ends = the node keys of the branch nodes; the condition's choices translated from branch
                          keys to node keys by key2NodeKey (the two closures of AppendBranch)
     WithNodeKey          every stage node carries an explicit key (the model's chains have explicit keys)
   Definitions only. *)
From Eino Require Import Base.Util Model.Graph Model.Chain Model.ChainSpec Model.ChainCompile Model.ImpGenLib Model.ChainGenLib Model.ChainLowerSpec.
Open Scope N_scope.

Definition li_GN : Type := (nkind * option N)%type.
Definition li_PR : Type := (li_GN * key)%type.
Definition li_CB : Type := (list (key * li_PR) * list (list key))%type.

Definition li_mk_node (k : key) (gn : li_GN) : node :=
  {| n_key := k; n_kind := fst gn; n_outkey := snd gn; n_dsucc := []; n_csucc := []; n_dmap := []; n_branches := [] |}.

Definition li_err : N := 1.

Definition li_add_node (ns : list node) (k : key) (gn : li_GN) (_ : key) : list node * option N :=
  if memb k (kEND :: map n_key ns) then (ns, Some li_err) else (ns ++ [li_mk_node k gn], None).
Definition li_add_edge (ns : list node) (a b : key) : list node * option N := (add_edge a b ns, None).
Definition li_add_branch (ns : list node) (a : key) (b : branch) : list node * option N := (add_branch a b ns, None).

Definition li_par_err (p : list li_PR) : option N :=
  match par_outkeys (map (fun pr => {| sn_key := snd pr; sn_kind := fst (fst pr); sn_outkey := snd (fst pr) |}) p) with
  | Some ks => if nodupb ks then None else Some li_err
  | None => Some li_err
  end.

Definition km_apply (m : list (key * key)) (k : key) : key := match alookup k m with Some v => v | None => k end.
Definition li_mk_branch (b : li_CB) (k2n : list (key * key)) : branch :=
  {| b_ends := km_values k2n; b_nodata := false; b_table := map (map (km_apply k2n)) (snd b) |}.

Definition li_pair (s : snode) : li_PR := ((sn_kind s, sn_outkey s), sn_key s).

Section Inst.
  Variable auto_key : string -> list fmt_arg -> key.
  Variable k_empty : key.

  Definition li_zero : li_PR := ((KLambda, None), k_empty).

  Definition li_addNode (c : chain_st (list node)) (s : snode) : chain_st (list node) :=
    chain_addNode (list node) li_GN key (fun _ => li_err) li_err auto_key k_empty (fun _ => false) li_add_node li_add_edge
      (fun _ => false) (fun k => k) c (fst (li_pair s)) (snd (li_pair s)).

  Definition li_AppendParallel (c : chain_st (list node)) (ss : list snode) : chain_st (list node) :=
    chain_AppendParallel (list node) li_GN key li_PR (list li_PR) (fun _ => li_err) auto_key k_empty li_add_node li_add_edge
      (fun k => k) (fun _ => true) (fun _ => true) fst snd (fun _ => false) li_par_err (fun p => p) c (map li_pair ss).

  Definition li_AppendBranch (c : chain_st (list node)) (ss : list snode) (table : list (list key)) : chain_st (list node) :=
    chain_AppendBranch (list node) li_GN key li_PR li_CB branch (fun _ => li_err) auto_key k_empty li_zero li_add_node li_add_branch
      (fun k => k) (fun _ => true) (fun _ => true) fst snd (fun _ => false) (fun _ => None) fst li_mk_branch
      c (map (fun s => (sn_key s, li_pair s)) ss, table).

  Definition li_stage (c : chain_st (list node)) (st : stage) : chain_st (list node) :=
    match st with
    | SNode s => li_addNode c s
    | SPar ss => li_AppendParallel c ss
    | SBranch ss table => li_AppendBranch c ss table
    end.

  Definition li_init : chain_st (list node) :=
    {| ch_err := None; ch_g := [Model.Chain.start_node]; ch_idx := 0%nat; ch_prev := []; ch_has_end := false |}.

  (* NewChain, the Append* calls of the stages, Compile (addEndIfNeeded; graph.compile sets the mode and the limit) *)
  Definition li_compile (sts : list stage) (max : nat) : option graph :=
    let c := fold_left li_stage sts li_init in
    let '(e, c') := chain_addEndIfNeeded (list node) (fun _ => li_err) li_add_edge c in
    match e with
    | Some _ => None
    | None => Some {| g_nodes := ch_g c'; g_mode := Pregel; g_eager := false; g_max := max |}
    end.
End Inst.
