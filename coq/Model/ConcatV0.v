(* Model/ConcatV0.v — concatMaps as it was before the repair of finding F-C14 (/repo commit
   8acc627): the values found under a key went to toSliceValue unfiltered, which takes
   reflect.TypeOf(vs[0]) and panics in reflect.SliceOf when that first value is a nil
   interface (a later nil value only fails the element type comparison).  Kept for the
   [concat_panics_refuted] witness in Props/C14.v.  Definitions only. *)
From Eino Require Import Base.Util Model.ConcatTable Model.Concat.

Section User.
Context {U : UserFn}.

Definition concat_key_v0 (f : list (list (string * cval)) -> res (list (string * cval))) (vs : list cval) : res cval :=
  match vs with
  | [] => Ok CNil
  | v0 :: rest =>
    match dyn_ty v0 with
    | None => Panic                                           (* reflect.SliceOf(nil) *)
    | Some t => if same_types t rest then concat_typed f t vs else Err E_TYPE
    end
  end.

Fixpoint concat_maps_v0 (fuel : nat) (ms : list (list (string * cval))) : res (list (string * cval)) :=
  match fuel with
  | O => Err 0%N
  | S f => res_mapM (fun k => res_map (fun v => (k, v)) (concat_key_v0 (concat_maps_v0 f) (vals_at k ms))) (keys_of ms)
  end.

Definition concat_maps_top_v0 (ms : list (list (string * cval))) : res (list (string * cval)) :=
  concat_maps_v0 (S (dmaps ms)) ms.

(* Finding F-C14b (/repo commit 509de21): ConcatItems[T] ended in cv.Interface().(T) also when cv was
   the nil value of an INTERFACE chunk type T handed back by the concat function registered for T
   (rendered: payload 0 of T's tag), and that type assertion panics.  [concat_stream_iface_v0] is
   concatStreamReader[T] for such a T before the repair (a single chunk is returned unasserted). *)
Definition concat_stream_iface_v0 (vs : list cval) : res cval :=
  match vs with
  | _ :: _ :: _ =>
      match concat_stream vs with
      | Ok (COther tag p) => if N.eqb p 0 then Panic else Ok (COther tag p)
      | r => r
      end
  | _ => concat_stream vs
  end.

End User.
