(* Model/ConcatV0.v — concatMaps as it was before the repair of finding F-C14 (/repo commit
   8acc627): the values found under a key went to toSliceValue unfiltered, which takes
   reflect.TypeOf(vs[0]) and panics in reflect.SliceOf when that first value is a nil
   interface (a later nil value only fails the element type comparison).  Kept for the
   [concat_panics_refuted] witness in Props/C14.v.  Definitions only. *)
From Eino Require Import Base.Util Model.ConcatTable Model.Concat.

Section User.
Context {U : UserFn}.

Definition concat_key_v0 (f : list (list (string * cval)) -> res (list (string * cval))) (vs : list cval) : res cval :=
  match vs with
  | [] => Ok CNil
  | v0 :: rest =>
    match dyn_ty v0 with
    | None => Panic                                           (* reflect.SliceOf(nil) *)
    | Some t => if same_types t rest then concat_typed f t vs else Err E_TYPE
    end
  end.

Fixpoint concat_maps_v0 (fuel : nat) (ms : list (list (string * cval))) : res (list (string * cval)) :=
  match fuel with
  | O => Err 0%N
  | S f => res_mapM (fun k => res_map (fun v => (k, v)) (concat_key_v0 (concat_maps_v0 f) (vals_at k ms))) (keys_of ms)
  end.

Definition concat_maps_top_v0 (ms : list (list (string * cval))) : res (list (string * cval)) :=
  concat_maps_v0 (S (dmaps ms)) ms.

End User.
