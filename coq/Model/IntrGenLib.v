(* Model/IntrGenLib.v — property C06: the vocabulary of the statement-by-statement translation of
   the interrupt code of compose/graph_run.go (tools/go2v, extractors "intrhit", "intrresolve",
   "intrloop" -> Gen/IntrHit.v, Gen/IntrResolve.v, Gen/IntrLoop.v): what the Go constructs used
   there mean on the data of Model/RunLoop.v.

   Go data                                   here
   ---------------------------------------   ------------------------------------------------------
   []*task just created (nextTasks)          list (N * V)            (node key, input)
   []*task collected (completedTasks)        list (N * texec)        (node key, what the body yielded)
   task.err                                  option texec            (None = nil: the body completed)
   []string                                  list N
   map[string]*subGraphInterruptError        list (N * (SCP * SINFO)) in insertion order; an insertion
                                             appends, a lookup takes the LAST entry of the key (a
                                             log-structured map: same lookups and same len() > 0 as the
                                             Go map)
   for … range / for i := 0; i < len(l); i++ [for_range] over the list, body in the control type [ctl]
                                             (next iteration / break / return)
   Definitions only. *)
From Eino Require Import Base.Util Model.RunLoop.
Open Scope N_scope.

(* ---------- control: what a loop body does ---------- *)
Inductive ctl (S R : Type) : Type :=
| CNext (s : S)         (* end of the body, or `continue` *)
| CBreak (s : S)        (* `break` *)
| CRet (r : R).         (* `return r` *)
Arguments CNext {S R} s. Arguments CBreak {S R} s. Arguments CRet {S R} r.

(* the loop: [inl s] = the loop ran to its end (or was left by break) in state s; [inr r] = returned *)
Fixpoint for_range {A S R : Type} (body : A -> S -> ctl S R) (l : list A) (s : S) : S + R :=
  match l with
  | [] => inl s
  | x :: l' =>
    match body x s with
    | CNext s' => for_range body l' s'
    | CBreak s' => inl s'
    | CRet r => inr r
    end
  end.

Section Vocab.
  Context {V SCP SINFO : Type}.
  Notation tex := (@texec V SCP SINFO).

  (* task.err: nil when the body completed *)
  Definition task_err (t : N * tex) : option tex :=
    match snd t with TDone _ => None | e => Some e end.

  Definition err_non_nil (e : option tex) : bool := match e with Some _ => true | None => false end.

  (* isSubGraphInterrupt(err): errors.As(err, *subGraphInterruptError) *)
  Definition is_sub_graph_interrupt (e : option tex) : option (SCP * SINFO) :=
    match e with Some (TSub c i) => Some (c, i) | _ => None end.

  (* errors.Is(err, InterruptAndRerun) *)
  Definition errors_is_rerun (e : option tex) : bool :=
    match e with Some TRerun => true | _ => false end.

  (* wrapGraphNodeError(key, err): the class of the error survives the wrapping (property C13) *)
  Definition wrap_graph_node_error (k : N) (e : option tex) : N :=
    match e with Some (TFail c) => c | _ => eChan end.

  (* m[k] = v on a log-structured map *)
  Definition map_put {A} (k : N) (a : A) (m : list (N * A)) : list (N * A) := m ++ [(k, a)].
  (* v, ok := m[k] *)
  Definition map_get {A} (k : N) (m : list (N * A)) : option A := nlist_get k (rev m).

  (* the (key, nested checkpoint / information) entries of the tasks interrupted inside, in task order *)
  Definition subpairs (rs : list (N * tex)) : list (N * (SCP * SINFO)) :=
    flat_map (fun r => match snd r with TSub c i => [(fst r, (c, i))] | _ => [] end) rs.

  (* the collected tasks before the first one that failed *)
  Fixpoint ok_prefix (rs : list (N * tex)) : list (N * tex) :=
    match rs with
    | [] => []
    | r :: rs' => match snd r with TFail _ => [] | _ => r :: ok_prefix rs' end
    end.

  (* resolveInterruptCompletedTasks in the model's terms: the error of the first task that failed (if any), and
     the accumulators extended by what the tasks before it contribute (all of them, when none failed) *)
  Definition resolve_model (after : list N) (s0 : list (N * (SCP * SINFO))) (r0 a0 : list N) (rs : list (N * tex))
    : res unit * (list (N * (SCP * SINFO)) * list N * list N) :=
    let pre := ok_prefix rs in
    (match first_fail rs with Some e => Err e | None => Ok tt end,
     (s0 ++ subpairs pre, r0 ++ reruns pre, a0 ++ afters after pre)).
End Vocab.

(* ---------- the loop of runner.run ---------- *)
Section LoopVocab.
  Context {V CS GS SCP SINFO : Type}.
  Notation tex := (@texec V SCP SINFO).
  Variable zero : V.
  Variable fold : CS -> list (N * V) -> res CS.
  Variable getr : CS -> res (CS * list (N * V)).

  (* what one pass through the body of `for step := 0; ; step++` ends with *)
  Inductive gres :=
  | GContinue (cs : CS) (next : list (N * V)) (running : list (N * tex)) (sched : list N)
                                                      (* falls off the end of the body / `continue` *)
  | GReturn (r : @sres V CS GS SCP SINFO).                  (* `return …`: Done / Interrupted / Failed    *)

  (* the task manager between submit and the next submit: the results not yet collected and the
     collection order still to come (Model/RunLoop.v: es_running, sched) *)
  Definition tmstate := (list (N * tex) * list N)%type.

  (* taskManager.waitOne(): (task, true), or (_, false) when nothing is running *)
  Definition tm_wait_one (tm : tmstate) : option (N * tex) * tmstate :=
    match pick (fst tm) (snd tm) with
    | Some (c, rest, sched') => (Some c, (rest, sched'))
    | None => (None, tm)
    end.

  (* taskManager.waitAll(): everything that is running, the collected task(s) first *)
  Definition tm_wait_all (tm : tmstate) : list (N * tex) * tmstate := (fst tm, ([], snd tm)).

  (* r.calculateNextTasks(ctx, completed, …, cm, …): resolveCompletedTasks ; updateAndGet; the value
     of END when it is among the ready nodes ("result != nil"), the created tasks otherwise *)
  Definition calculate_next_tasks (cs : CS) (completed : list (N * tex))
    : res (CS * list (N * V) * option V) :=
    match calc fold getr cs (outs completed) with
    | Ok (cs', ready) =>
      match nlist_get kEnd ready with
      | Some v => Ok (cs', [], Some v)
      | None => Ok (cs', ready, None)
      end
    | Err e => Err e
    | Panic => Panic
    end.

  (* the same when reaching END is reported separately from the value (isEnd; a nil result is then a legal
     value of an interface-typed output): (channels, created tasks, result, isEnd) *)
  Definition calculate_next_tasks_end (cs : CS) (completed : list (N * tex))
    : res (CS * list (N * V) * option V * bool) :=
    match calculate_next_tasks cs completed with
    | Ok (cs', next, result) => Ok (cs', next, result, match result with Some _ => true | None => false end)
    | Err e => Err e
    | Panic => Panic
    end.

  (* `return result, nil` behind `if isEnd`: the run is done with the value of END *)
  Definition done_of (result : option V) : @sres V CS GS SCP SINFO :=
    match result with Some v => Done v | None => Failed eChan end.

  (* r.handleInterrupt(ctx, before, after, nextTasks, cm.channels, …) *)
  Definition handle_interrupt (cs : CS) (gs : GS) (hb ha : list N) (next : list (N * V)) : @sres V CS GS SCP SINFO :=
    plain_interrupt cs gs next hb ha.

  (* r.handleInterruptWithSubGraphAndRerunNodes(ctx, rerunNodes, subGraphInterrupts, afterNodes,
     completeTasks, beforeNodes, pendingTasks, …, cm, …): the completed tasks are classified by LOOKUP
     (in the map of the nested interrupts, then in the list of the rerun nodes), the others are folded
     into the channels; the nested checkpoints / informations are taken from the map *)
  Definition in_sub {A} (m : list (N * A)) (t : N * tex) : bool :=
    match map_get (fst t) m with Some _ => true | None => false end.
  Definition handle_sub_rerun (cs : CS) (gs : GS) (rr : list N) (subs : list (N * (SCP * SINFO))) (ha : list N)
             (complete : list (N * tex)) (hb : list N) (pending : list (N * V)) : @sres V CS GS SCP SINFO :=
    let subT := filter (in_sub subs) complete in
    let rerunT := filter (fun t => negb (in_sub subs t) && memN (fst t) rr) complete in
    let otherT := filter (fun t => negb (in_sub subs t) && negb (memN (fst t) rr)) complete in
    match fold cs (outs otherT) with
    | Ok cs1 =>
      Interrupted
        {| ii_gs := gs; ii_before := hb; ii_after := ha; ii_rerun := rr;
           ii_subs := flat_map (fun t => match map_get (fst t) subs with Some ci => [(fst t, snd ci)] | None => [] end) subT |}
        {| cp_cs := cs1;
           cp_inputs := pending ++ map (fun t => (fst t, zero)) subT ++ map (fun t => (fst t, zero)) rerunT;
           cp_gs := gs; cp_skip := map fst subT;
           cp_subs := flat_map (fun t => match map_get (fst t) subs with Some ci => [(fst t, fst ci)] | None => [] end) subT |}
    | r => Failed (chan_err r)
    end.

  (* an error the loop returns without a node's name: fmt.Errorf(msg…) under newGraphRunError *)
  Definition graph_run_error (msg : string) : N :=
    if String.eqb msg "no tasks to execute"%string then eNoTasks else eChan.
End LoopVocab.

Arguments GContinue {V CS GS SCP SINFO}. Arguments GReturn {V CS GS SCP SINFO}.

(* ---------- Go error values, as far as compose/interrupt.go looks at them (extractor "intrerr") ----------
   An error is a chain: a leaf, wrapped any number of times by errors that have an Unwrap() error method
   (fmt.Errorf("…%w", e), the internalError of compose/error.go, …).  errors.As(err, &target) walks the chain
   and stops at the first error of the target's type; errors.Is(err, sentinel) at the first error identical
   to the sentinel; a type assertion err.(T) looks at the head only. *)
Section ErrChain.
  Context {INFO CP : Type}.

  Inductive gerr :=
  | EInterrupt (i : INFO)              (* &interruptError{Info: i}                        *)
  | ESubInterrupt (i : INFO) (c : CP)  (* &subGraphInterruptError{Info: i, CheckPoint: c} *)
  | ERerunSentinel                     (* the value InterruptAndRerun                     *)
  | EOther (c : N)                     (* any other error without Unwrap                  *)
  | EWrap (e : gerr).                  (* an error whose Unwrap() returns e               *)

  Fixpoint wrap_n (n : nat) (e : gerr) : gerr := match n with O => e | S n' => EWrap (wrap_n n' e) end.

  Definition go_err_nil (e : option gerr) : bool := match e with None => true | Some _ => false end.

  Fixpoint chain_interrupt (e : gerr) : option INFO :=
    match e with EInterrupt i => Some i | EWrap e' => chain_interrupt e' | _ => None end.
  Fixpoint chain_sub (e : gerr) : option (INFO * CP) :=
    match e with ESubInterrupt i c => Some (i, c) | EWrap e' => chain_sub e' | _ => None end.
  Fixpoint chain_sentinel (e : gerr) : bool :=
    match e with ERerunSentinel => true | EWrap e' => chain_sentinel e' | _ => false end.

  (* errors.As(err, &iE) for `var iE *interruptError` / `var iE *subGraphInterruptError` (err non-nil;
     on a nil error errors.As answers false) *)
  Definition errors_as_interruptError (e : option gerr) : option INFO :=
    match e with Some e => chain_interrupt e | None => None end.
  Definition errors_as_subGraphInterruptError (e : option gerr) : option (INFO * CP) :=
    match e with Some e => chain_sub e | None => None end.
  (* a type assertion to interruptError / subGraphInterruptError: the head of the chain only *)
  Definition type_assert_interruptError (e : option gerr) : option INFO :=
    match e with Some (EInterrupt i) => Some i | _ => None end.
  Definition type_assert_subGraphInterruptError (e : option gerr) : option (INFO * CP) :=
    match e with Some (ESubInterrupt i c) => Some (i, c) | _ => None end.
  (* errors.Is(err, InterruptAndRerun) ; err == InterruptAndRerun *)
  Definition errors_is_InterruptAndRerun (e : option gerr) : bool :=
    match e with Some e => chain_sentinel e | None => false end.
  Definition identical_InterruptAndRerun (e : option gerr) : bool :=
    match e with Some ERerunSentinel => true | _ => false end.

  (* fields *)
  Definition interruptError_Info (x : INFO) : INFO := x.
  Definition subGraphInterruptError_Info (x : INFO * CP) : INFO := fst x.
  Definition subGraphInterruptError_CheckPoint (x : INFO * CP) : CP := snd x.

  (* what a task's error is for the run loop (Model/RunLoop.v: texec), V = the output type *)
  Definition texec_of_err {V} (e : gerr) : @texec V CP INFO :=
    match chain_sub e with
    | Some (i, c) => TSub c i
    | None => if chain_sentinel e then TRerun
              else TFail (match e with EOther c => c | _ => eChan end)
    end.
End ErrChain.
Arguments gerr : clear implicits.

(* ---------- the compile options, as far as the interrupt lists are concerned (extractor "intrcfg") ---------- *)
Record copts := { opt_before : list N; opt_after : list N }.
Definition set_opt_before (l : list N) (o : copts) : copts := {| opt_before := l; opt_after := opt_after o |}.
Definition set_opt_after (l : list N) (o : copts) : copts := {| opt_before := opt_before o; opt_after := l |}.

(* ---------- what handleInterrupt / handleInterruptWithSubGraphAndRerunNodes return (extractor "intrhandle") ---------- *)
Section HandleVocab.
  Context {V CS GS SCP SINFO : Type}.

  Inductive hexit :=
  | HToParent (i : @iinfo GS SINFO) (c : @checkpoint V CS GS SCP)
        (* &subGraphInterruptError{Info, CheckPoint}: a nested graph hands both to its parent, no store *)
  | HInterrupt (i : @iinfo GS SINFO) (c : @checkpoint V CS GS SCP) (written : bool)
        (* &interruptError{Info}; [written]: checkPointer.set(ctx, *checkPointID, cp) was called with [c] *)
  | HFail (e : N).

  (* the exit of both handlers in the model's terms: a nested graph returns (information, checkpoint) to its
     parent (Model/Interrupt.v: TSub); a top-level run writes the checkpoint iff an id was given
     (Model/RunLoop.v: call, co_written) *)
  Definition exit_of (isSubGraph hasId : bool) (r : @sres V CS GS SCP SINFO) : hexit :=
    match r with
    | Interrupted i c => if isSubGraph then HToParent i c else HInterrupt i c hasId
    | Failed e => HFail e
    | _ => HFail eChan
    end.

  (* the state a handler saves: the state object found in the context, for a graph that declares state
     (r.runCtx != nil); nothing otherwise *)
  Definition state_view (has_state : bool) (ctx_state : option GS) (gs_nil : GS) : GS :=
    if has_state then match ctx_state with Some s => s | None => gs_nil end else gs_nil.

  (* m[k] = m2[k].F: a missing key of m2 is a nil dereference in Go; the translated code only looks up keys of
     tasks it selected by a successful lookup in the same map *)
  Definition map_put_opt {A} (k : N) (o : option A) (m : list (N * A)) : list (N * A) :=
    match o with Some a => map_put k a m | None => m end.
  Definition sub_interrupt_CheckPoint (x : SCP * SINFO) : SCP := fst x.
  Definition sub_interrupt_Info (x : SCP * SINFO) : SINFO := snd x.
  (* SkipPreHandler map[string]bool -> the keys set to true *)
  Definition skip_keys (m : list (N * bool)) : list N := map fst (filter snd m).
End HandleVocab.
Arguments hexit : clear implicits.
