(* Model/ConcatMsgTable.v — what Model/ConcatMsg.v assumes about the message types of
   package schema and about the way ConcatMessages / concatToolCalls treat each field.
   The same three tables are regenerated from schema/message.go on every run
   (tools/go2v, extractor "concatmsg" -> Gen/ConcatMsgTable.v) and Proofs/GenAgreeConcat.v
   proves the two copies equal by reflexivity: a new field (it would be reported as
   MDropped, or change [message_fields]), a field that is merged differently (e.g. usage
   by minimum, arguments picked instead of joined, descending index order) is a different
   table, and the agreement proof stops compiling.

   Field of the model record (Model/ConcatMsg.v)  <->  Go field path
     m_role / m_name / m_tcid / m_content / m_multi      Role / Name / ToolCallID / Content / MultiContent (one text per part)
     m_tcs : tc_idx tc_id tc_type tc_name tc_args tc_extra  ToolCalls[i].Index ID Type Function.Name Function.Arguments Extra
     m_meta : rm_finish rm_usage(u_prompt u_compl u_total) rm_logprobs   ResponseMeta.FinishReason Usage.{Prompt,Completion,Total}Tokens LogProbs.Content
     m_extra                                             Extra *)
From Eino Require Import Base.Util.

Inductive mh : Type :=
| MError          (* answered by an ordinary error *)
| MPick           (* first non-empty value; a later different non-empty value is an error  (pick) *)
| MJoin           (* non-empty values joined in arrival order                               (concat_strings) *)
| MLastNonEmpty   (* the last non-empty value                                               (concat_multi, rm_finish) *)
| MToolCalls      (* all fragments, in arrival order, given to concatToolCalls              (concat_toolcalls) *)
| MConcatMaps     (* the non-empty maps, in arrival order, given to internal.ConcatItems    (concat_maps_top) *)
| MMax            (* maximum of the values and of 0                                         (umax from zero_usage) *)
| MMin            (* not used by the code today; recognised so that such a change is a different table *)
| MAppend         (* lists appended in arrival order into a fresh list                      (rm_logprobs) *)
| MDropped        (* field never read: not used by the code today *)
| MKeepInOrder    (* calls without index: kept unmerged, in arrival order                   (filter is_nil_idx) *)
| MGroupKey       (* fragments are grouped by this value                                    (has_idx) *)
| MFirst          (* taken from the first fragment of the group                             (tc_idx, tc_extra) *)
| MAscending      (* groups ordered by ascending index                                      (idxs_of) *)
| MDescending     (* not used by the code today *)
| MNilFirst       (* calls without index come before the groups *)
| MNilNotFirst.   (* not used by the code today *)

(* struct name -> field names in declaration order *)
Definition message_fields : list (string * list string) :=
  [ ("FunctionCall"%string, ["Name"%string; "Arguments"%string]);
    ("LogProbs"%string, ["Content"%string]);
    ("Message"%string, ["Role"%string; "Content"%string; "MultiContent"%string; "Name"%string; "ToolCalls"%string; "ToolCallID"%string; "ResponseMeta"%string; "Extra"%string]);
    ("ResponseMeta"%string, ["FinishReason"%string; "Usage"%string; "LogProbs"%string]);
    ("TokenUsage"%string, ["PromptTokens"%string; "CompletionTokens"%string; "TotalTokens"%string]);
    ("ToolCall"%string, ["Index"%string; "ID"%string; "Type"%string; "Function"%string; "Extra"%string]) ].

(* ConcatMessages: field path of Message -> treatment, sorted by path *)
Definition message_handling : list (string * mh) :=
  [ ("<nil chunk>"%string, MError);
    ("Content"%string, MJoin);
    ("Extra"%string, MConcatMaps);
    ("MultiContent"%string, MLastNonEmpty);
    ("Name"%string, MPick);
    ("ResponseMeta.FinishReason"%string, MLastNonEmpty);
    ("ResponseMeta.LogProbs.Content"%string, MAppend);
    ("ResponseMeta.Usage.CompletionTokens"%string, MMax);
    ("ResponseMeta.Usage.PromptTokens"%string, MMax);
    ("ResponseMeta.Usage.TotalTokens"%string, MMax);
    ("Role"%string, MPick);
    ("ToolCallID"%string, MPick);
    ("ToolCalls"%string, MToolCalls) ].

(* concatToolCalls: field path of ToolCall -> treatment, sorted by path *)
Definition toolcall_handling : list (string * mh) :=
  [ ("<index>"%string, MGroupKey);
    ("<nil index order>"%string, MNilFirst);
    ("<nil index>"%string, MKeepInOrder);
    ("<order>"%string, MAscending);
    ("<other fields>"%string, MFirst);
    ("Function.Arguments"%string, MJoin);
    ("Function.Name"%string, MPick);
    ("ID"%string, MPick);
    ("Type"%string, MPick) ].
