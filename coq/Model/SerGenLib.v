(* Model/SerGenLib.v — property C12: the vocabulary of the statement-by-statement translation of
   internal/serialization/serialization.go (tools/go2v, extractor "sercode" -> Gen/SerCode.v):
   what the Go constructs used by internalMarshal, definedContainerKey, GenericRegister, resolvePointerNum,
   containerType and (second half of the file) internalUnmarshal mean on the model's data (Base/Universe.v, Model/Ser.v).

   * [gis] is the Go record internalStruct, field by field (a string field is "" when unset,
     a counter 0, JSONValue absent); [to_gis] embeds the model's sum type [istruct] into it.
     A Go string that is a key of MapValues is a field name ([MKName]) in a struct record and
     the JSON text of a map key ([MKJson]) in a map record; the translator chooses by the
     origin of the string (reflect.StructField.Name / sonic.MarshalString).
   * a reflect.Value is a [val] (its reflect.Type is [ty_of]), a reflect.Type a [ty], an [any]
     argument a [val] that may be an interface box ([any_is_nil] / [reflect_ValueOf] open it).
   * loops are the three combinators [loop_ptr] (for t.Kind() == reflect.Ptr { …; t = t.Elem() }),
     [loop_range] (for i := 0; i < n; i++) and [loop_list] (for iter.Next() / range); a body yields
     [LRet r] (return r) or [LCont s] (next iteration with the assigned variables s).
   * m[k] = v on a Go map is modelled as appending the entry: the keys written by one call of the
     translated functions are pairwise different (field names of one struct type; JSON texts of
     the pairwise different keys of one Go map) — the same abstraction Model/Ser.v makes.
   * reflect operations applied to a value of the wrong kind panic in Go; here they return their
     argument / an empty list.  The agreement theorems (Proofs/GenAgreeSer.v) are equalities with
     the model for every well-typed value, so such a default is never what makes them true.
   * uint32 counters are [nat] (no wrap-around: pointer depths are small).
   Definitions only. *)
From Coq Require Import List Bool Arith NArith String.
From Eino Require Import Base.Util Base.Universe Model.Ser.
Import ListNotations.
Local Open Scope bool_scope.

(* ------------------------------------------------------------------ control flow *)
Inductive lres (R S : Type) : Type := LRet (r : R) | LCont (s : S).
Arguments LRet {R S} r.
Arguments LCont {R S} s.

Fixpoint loop_ptr {R S} (body : ty -> S -> lres R S) (t : ty) (s : S) : lres R (ty * S) :=
  match t with
  | TPtr e => match body t s with LRet r => LRet r | LCont s' => loop_ptr body e s' end
  | _ => LCont (t, s)
  end.
Fixpoint loop_list {A R S} (body : A -> S -> lres R S) (l : list A) (s : S) : lres R S :=
  match l with
  | [] => LCont s
  | a :: r => match body a s with LRet x => LRet x | LCont s' => loop_list body r s' end
  end.
Definition loop_range {R S} (body : nat -> S -> lres R S) (n : nat) (s : S) : lres R S :=
  loop_list body (seq 0 n) s.

(* error classes of fmt.Errorf messages (by the constant prefix of the format string) *)
Definition E_OTHER : N := 98.

(* ------------------------------------------------------------------ reflect.Kind *)
Inductive kind : Type :=
| KInvalid | KPtr | KStruct | KMap | KSlice | KArray | KInterface | KBasic (b : base).
Definition kind_eqb (a b : kind) : bool :=
  match a, b with
  | KInvalid, KInvalid | KPtr, KPtr | KStruct, KStruct | KMap, KMap
  | KSlice, KSlice | KArray, KArray | KInterface, KInterface => true
  | KBasic x, KBasic y => base_eqb x y
  | _, _ => false
  end.

(* ------------------------------------------------------------------ reflect.Type *)
Fixpoint rt_Kind (t : ty) : kind :=
  match t with
  | TBase b | TNamed _ b => KBasic b
  | TStruct _ => KStruct
  | TPtr _ => KPtr
  | TSlice _ => KSlice
  | TMap _ _ => KMap
  | TIface _ | TAny => KInterface
  | TArray _ _ => KArray
  | TDef _ u => rt_Kind u
  end.
Definition rt_Elem1 (t : ty) : ty :=
  match t with TPtr e | TSlice e | TArray _ e | TMap _ e => e | _ => t end.
Definition rt_Elem (t : ty) : ty :=
  match t with TDef _ u => rt_Elem1 u | _ => rt_Elem1 t end.
Definition rt_Key (t : ty) : ty :=
  match t with TMap k _ | TDef _ (TMap k _) => k | _ => t end.
(* t.Name() != "": defined types (the reflect.StructOf types of the harness are unnamed, but
   the translated code asks only for map / slice / array kinds) *)
Definition rt_named (t : ty) : bool :=
  match t with TNamed _ _ | TStruct _ | TIface _ | TDef _ _ => true | _ => false end.
(* hasOwnJSON(t): a struct type with a JSON form of its own is presented to the model as a
   named type of basic kind (notes/C12.md), so no struct type of the universe has one *)
Definition rt_hasOwnJSON (t : ty) : bool := false.

(* t.AssignableTo(c) between a container type built from the element types and a registered type:
   identical, or c is a defined type whose underlying type is t (the model's [assignable_to]) *)
Definition rt_AssignableTo (t c : ty) : bool := assignable_to t c.

Definition sfield : Type := (string * ty)%type.
Definition rt_fields (env : senv) (t : ty) : list sfield :=
  match t with
  | TStruct n => match struct_fields env n with Some ds => ds | None => [] end
  | _ => []
  end.
Definition rt_NumField (env : senv) (t : ty) : nat := List.length (rt_fields env t).
Definition rt_Field (env : senv) (t : ty) (i : nat) : sfield :=
  nth i (rt_fields env t) (EmptyString, t).
Definition sf_Name (f : sfield) : string := fst f.
Definition sf_Type (f : sfield) : ty := snd f.
(* StructField.PkgPath: "" for an exported field; the universe has exported fields only *)
Definition sf_PkgPath (f : sfield) : string := EmptyString.

(* ------------------------------------------------------------------ reflect.Value / any *)
Definition any_is_nil (v : val) : bool := match v with VIface _ None => true | _ => false end.
Definition reflect_ValueOf (v : val) : val := match v with VIface _ (Some w) => w | _ => v end.
Definition rv_Type (v : val) : ty := ty_of v.
Definition rv_Interface (v : val) : val := v.
Definition under_def (v : val) : val := match v with VDef _ w => w | _ => v end.
Definition rv_IsNil (v : val) : bool :=
  match under_def v with
  | VNilPtr _ | VSlice _ None | VMap _ _ None | VIface _ None => true
  | _ => false
  end.
Definition rv_Elem (v : val) : val :=
  match v with VPtr w => w | VIface _ (Some w) => w | _ => v end.
Definition rv_fields (v : val) : list (string * val) :=
  match v with VStruct _ fs => fs | _ => [] end.
Definition rv_Field (v : val) (i : nat) : val := snd (nth i (rv_fields v) (EmptyString, v)).
Definition rv_MapRange (v : val) : list (val * val) :=
  match under_def v with VMap _ _ (Some kvs) => kvs | _ => [] end.
Definition iter_Key (e : val * val) : val := fst e.
Definition iter_Value (e : val * val) : val := snd e.
Definition rv_elems (v : val) : list val :=
  match under_def v with VSlice _ (Some es) | VArray _ es => es | _ => [] end.
Definition rv_Len (v : val) : nat :=
  match under_def v with
  | VBase _ (LStr s) | VNamed _ _ (LStr s) => String.length s
  | VMap _ _ (Some kvs) => List.length kvs
  | _ => List.length (rv_elems v)
  end.
Definition rv_Index (v : val) (i : nat) : val := nth i (rv_elems v) v.

(* make([]T, n) and s[i] = x *)
Definition slice_make {A} (n : nat) : list (option A) := repeat None n.
Fixpoint slice_set {A} (l : list A) (i : nat) (x : A) : list A :=
  match l, i with
  | [], _ => []
  | _ :: r, O => x :: r
  | a :: r, S i' => a :: slice_set r i' x
  end.

Section G.
  Variables J JK : Type.
  Variable jenc : base -> lit -> res J.
  Variable kenc : base -> lit -> res JK.
  Variable reg : registry.

  (* json.RawMessage *)
  Inductive jraw : Type := JNull | JText (j : J).
  Inductive mkey : Type := MKName (s : string) | MKJson (k : kjson JK).

  Inductive gis : Type := MkGis {
    PointerNum : nat;
    NonNilPointerNum : nat;
    Type_ : string;
    JSONValue : option jraw;
    StructType : string;
    MapKeyPointerNum : nat;
    MapKeyType : string;
    MapValuePointerNum : nat;
    MapValueType : string;
    MapValues : list (mkey * option gis);
    SliceValuePointerNum : nat;
    SliceValueType : string;
    SliceValues : list (option gis);
    IsArray : bool;
    ContainerType : string }.

  Definition gis_empty : gis :=
    MkGis 0 0 EmptyString None EmptyString 0 EmptyString 0 EmptyString [] 0 EmptyString [] false EmptyString.

  Definition set_PointerNum (r : gis) (x : nat) : gis :=
    let (_, a2, a3, a4, a5, a6, a7, a8, a9, a10, a11, a12, a13, a14, a15) := r in
    MkGis x a2 a3 a4 a5 a6 a7 a8 a9 a10 a11 a12 a13 a14 a15.
  Definition set_NonNilPointerNum (r : gis) (x : nat) : gis :=
    let (a1, _, a3, a4, a5, a6, a7, a8, a9, a10, a11, a12, a13, a14, a15) := r in
    MkGis a1 x a3 a4 a5 a6 a7 a8 a9 a10 a11 a12 a13 a14 a15.
  Definition set_Type_ (r : gis) (x : string) : gis :=
    let (a1, a2, _, a4, a5, a6, a7, a8, a9, a10, a11, a12, a13, a14, a15) := r in
    MkGis a1 a2 x a4 a5 a6 a7 a8 a9 a10 a11 a12 a13 a14 a15.
  Definition set_JSONValue (r : gis) (x : option jraw) : gis :=
    let (a1, a2, a3, _, a5, a6, a7, a8, a9, a10, a11, a12, a13, a14, a15) := r in
    MkGis a1 a2 a3 x a5 a6 a7 a8 a9 a10 a11 a12 a13 a14 a15.
  Definition set_StructType (r : gis) (x : string) : gis :=
    let (a1, a2, a3, a4, _, a6, a7, a8, a9, a10, a11, a12, a13, a14, a15) := r in
    MkGis a1 a2 a3 a4 x a6 a7 a8 a9 a10 a11 a12 a13 a14 a15.
  Definition set_MapKeyPointerNum (r : gis) (x : nat) : gis :=
    let (a1, a2, a3, a4, a5, _, a7, a8, a9, a10, a11, a12, a13, a14, a15) := r in
    MkGis a1 a2 a3 a4 a5 x a7 a8 a9 a10 a11 a12 a13 a14 a15.
  Definition set_MapKeyType (r : gis) (x : string) : gis :=
    let (a1, a2, a3, a4, a5, a6, _, a8, a9, a10, a11, a12, a13, a14, a15) := r in
    MkGis a1 a2 a3 a4 a5 a6 x a8 a9 a10 a11 a12 a13 a14 a15.
  Definition set_MapValuePointerNum (r : gis) (x : nat) : gis :=
    let (a1, a2, a3, a4, a5, a6, a7, _, a9, a10, a11, a12, a13, a14, a15) := r in
    MkGis a1 a2 a3 a4 a5 a6 a7 x a9 a10 a11 a12 a13 a14 a15.
  Definition set_MapValueType (r : gis) (x : string) : gis :=
    let (a1, a2, a3, a4, a5, a6, a7, a8, _, a10, a11, a12, a13, a14, a15) := r in
    MkGis a1 a2 a3 a4 a5 a6 a7 a8 x a10 a11 a12 a13 a14 a15.
  Definition set_MapValues (r : gis) (x : list (mkey * option gis)) : gis :=
    let (a1, a2, a3, a4, a5, a6, a7, a8, a9, _, a11, a12, a13, a14, a15) := r in
    MkGis a1 a2 a3 a4 a5 a6 a7 a8 a9 x a11 a12 a13 a14 a15.
  Definition set_SliceValuePointerNum (r : gis) (x : nat) : gis :=
    let (a1, a2, a3, a4, a5, a6, a7, a8, a9, a10, _, a12, a13, a14, a15) := r in
    MkGis a1 a2 a3 a4 a5 a6 a7 a8 a9 a10 x a12 a13 a14 a15.
  Definition set_SliceValueType (r : gis) (x : string) : gis :=
    let (a1, a2, a3, a4, a5, a6, a7, a8, a9, a10, a11, _, a13, a14, a15) := r in
    MkGis a1 a2 a3 a4 a5 a6 a7 a8 a9 a10 a11 x a13 a14 a15.
  Definition set_SliceValues (r : gis) (x : list (option gis)) : gis :=
    let (a1, a2, a3, a4, a5, a6, a7, a8, a9, a10, a11, a12, _, a14, a15) := r in
    MkGis a1 a2 a3 a4 a5 a6 a7 a8 a9 a10 a11 a12 x a14 a15.
  Definition set_IsArray (r : gis) (x : bool) : gis :=
    let (a1, a2, a3, a4, a5, a6, a7, a8, a9, a10, a11, a12, a13, _, a15) := r in
    MkGis a1 a2 a3 a4 a5 a6 a7 a8 a9 a10 a11 a12 a13 x a15.
  Definition set_ContainerType (r : gis) (x : string) : gis :=
    let (a1, a2, a3, a4, a5, a6, a7, a8, a9, a10, a11, a12, a13, a14, _) := r in
    MkGis a1 a2 a3 a4 a5 a6 a7 a8 a9 a10 a11 a12 a13 a14 x.

  (* m[k] = v (see the header) *)
  Definition mv_put (m : list (mkey * option gis)) (k : mkey) (v : option gis) : list (mkey * option gis) :=
    (m ++ [(k, v)])%list.

  (* the registry maps of serialization.go: rm[t] with and without the ok result *)
  Definition rm_get (t : ty) : string :=
    match rm_lookup reg t with Some k => k | None => EmptyString end.

  (* json.Marshal(rv.Interface()) in the default branch: the JSON layer of a value of basic
     kind; anything else that reaches it is outside the modelled fragment *)
  Definition json_Marshal (v : val) : res J :=
    match v with
    | VBase b l | VNamed _ b l => jenc b l
    | _ => Err E_UNMODELLED
    end.
  (* sonic.MarshalString(k.Interface()): the plain JSON of a map key *)
  Definition sonic_MarshalString (k : val) : res (kjson JK) := enc_key JK kenc k.

  (* the model's tree as the Go record *)
  Definition ct_str (ct : option string) : string :=
    match ct with Some k => k | None => EmptyString end.
  Fixpoint to_gis (i : istruct J JK) : gis :=
    match i with
    | INull pn nn key =>
        MkGis pn nn key (Some JNull) EmptyString 0 EmptyString 0 EmptyString [] 0 EmptyString [] false EmptyString
    | IBasic pn key j =>
        MkGis pn 0 key (Some (JText j)) EmptyString 0 EmptyString 0 EmptyString [] 0 EmptyString [] false EmptyString
    | IStruct pn key fields =>
        MkGis pn 0 EmptyString None key 0 EmptyString 0 EmptyString
              (map (fun fo => (MKName (fst fo), option_map to_gis (snd fo))) fields)
              0 EmptyString [] false EmptyString
    | IMap pn kpn kname vpn vname entries ct =>
        MkGis pn 0 EmptyString None EmptyString kpn kname vpn vname
              (map (fun e => (MKJson (fst e), option_map to_gis (snd e))) entries)
              0 EmptyString [] false (ct_str ct)
    | ISlice pn epn ename elems arr ct =>
        MkGis pn 0 EmptyString None EmptyString 0 EmptyString 0 EmptyString []
              epn ename (map (option_map to_gis) elems) arr (ct_str ct)
    end.
  Definition to_gis_res (r : res (option (istruct J JK))) : res (option gis) :=
    res_map (option_map to_gis) r.
End G.

Arguments JNull {J}.
Arguments JText {J} j.
Arguments MKName {JK} s.
Arguments MKJson {JK} k.
Arguments PointerNum {J JK} g.
Arguments NonNilPointerNum {J JK} g.
Arguments Type_ {J JK} g.
Arguments JSONValue {J JK} g.
Arguments StructType {J JK} g.
Arguments MapKeyPointerNum {J JK} g.
Arguments MapKeyType {J JK} g.
Arguments MapValuePointerNum {J JK} g.
Arguments MapValueType {J JK} g.
Arguments MapValues {J JK} g.
Arguments SliceValuePointerNum {J JK} g.
Arguments SliceValueType {J JK} g.
Arguments SliceValues {J JK} g.
Arguments IsArray {J JK} g.
Arguments ContainerType {J JK} g.
Arguments set_PointerNum {J JK} r x.
Arguments set_NonNilPointerNum {J JK} r x.
Arguments set_Type_ {J JK} r x.
Arguments set_JSONValue {J JK} r x.
Arguments set_StructType {J JK} r x.
Arguments set_MapKeyPointerNum {J JK} r x.
Arguments set_MapKeyType {J JK} r x.
Arguments set_MapValuePointerNum {J JK} r x.
Arguments set_MapValueType {J JK} r x.
Arguments set_MapValues {J JK} r x.
Arguments set_SliceValuePointerNum {J JK} r x.
Arguments set_SliceValueType {J JK} r x.
Arguments set_SliceValues {J JK} r x.
Arguments set_IsArray {J JK} r x.
Arguments set_ContainerType {J JK} r x.
Arguments mv_put {J JK} m k v.
Arguments json_Marshal {J} jenc v.
Arguments to_gis {J JK} i.
Arguments to_gis_res {J JK} r.

(* ------------------------------------------------------------------ GenericRegister: the two
   package-level maps m (name -> type) and rm (type -> name) as association lists; an entry is
   added only after the lookup found none, so m[k] = v is again an append *)
Definition gm_lookup (m : list (string * ty)) (k : string) : option ty := m_lookup m k.
Definition gm_put (m : list (string * ty)) (k : string) (t : ty) : list (string * ty) := (m ++ [(k, t)])%list.
Fixpoint grm_lookup (rm : list (ty * string)) (t : ty) : option string :=
  match rm with
  | [] => None
  | (t', k) :: r => if ty_eqb t t' then Some k else grm_lookup r t
  end.
Definition grm_put (rm : list (ty * string)) (t : ty) (k : string) : list (ty * string) := (rm ++ [(t, k)])%list.
(* the model keeps one list for both maps *)
Definition rm_of (reg : registry) : list (ty * string) := map (fun e => (snd e, fst e)) reg.

(* ====================================================================== the decoder
   Vocabulary of the translation of internalUnmarshal.  The decoder builds values through
   reflect.New / Set / SetMapIndex / Append on reflect.Values that alias each other; the translation
   reads the three idioms it uses functionally:
   * [pcur]: the pointer reflect.New(T) returns and the settable positions reached from it by Elem()
     ([pResult] and [target] of the based-type branch are two views of one [pcur]; the key holder
     [prkv] of the map branch is a fresh one per entry).  [pc_ty] is T, [pc_depth] the number of
     non-nil pointers created below it so far, [pc_alloc] whether the position the cursor stands on
     was just given a new pointer, [pc_leaf] what the JSON decoder wrote at the cursor.  A JSON
     decoder is only given meaning on a position nothing was written to yet (a holder that is used
     again is outside the vocabulary: E_UNMODELLED).
   * createValueFromType(T) yields the value built so far below the pointers of T ([cvft], the Go
     variable dResult: the zero value of the pointer-free type, a map made non-nil) and the pointers
     around it ([cvft_result] at the return); the updates through dResult ([rv_SetField],
     [rv_SetMapIndex], [rv_Append], [rv_SetIndex]) go through [assign] of Model/Ser.v (reflect's
     assignability) and panic where reflect panics.
   * the entries of MapValues / SliceValues are ranged over in list order (Go ranges over a map in
     random order: the entries of one record are independent of each other). *)
Section D.
  Variables J JK : Type.
  Variable jdec : base -> J -> res lit.
  Variable kdec : base -> JK -> res lit.
  Variable env : senv.

  Definition zero_v (t : ty) : res val := zero (zero_fuel env) env t.   (* reflect.New(t).Elem() *)

  Record pcur : Type := MkPcur { pc_ty : ty; pc_depth : nat; pc_alloc : bool; pc_leaf : option val; pc_ok : bool }.
  Definition pc_new (T : ty) : pcur := MkPcur T 0 false None true.
  Fixpoint deref_ty (n : nat) (t : ty) : ty :=
    match n with
    | O => t
    | S n' => match t with TPtr e => deref_ty n' e | _ => t end
    end.
  (* x.Type().Elem() of the position the cursor stands on *)
  Definition pc_cur_ty (c : pcur) : ty := deref_ty (pc_depth c) (pc_ty c).
  (* x.Elem().Set(reflect.New(x.Type().Elem().Elem())) *)
  Definition pc_set_new (c : pcur) : pcur :=
    MkPcur (pc_ty c) (pc_depth c) true (pc_leaf c) (pc_ok c && is_ptr (pc_cur_ty c) && negb (opt_some (pc_leaf c))).
  (* x = x.Elem() *)
  Definition pc_down (c : pcur) : pcur :=
    MkPcur (pc_ty c) (S (pc_depth c)) false (pc_leaf c) (pc_ok c && pc_alloc c).
  (* sonic.Unmarshal(raw, x.Interface()): null leaves the position as it is; the text of a value of
     basic kind below k pointers creates them *)
  Definition raw_is_null (raw : option (jraw J)) : bool :=
    match raw with Some JNull => true | _ => false end.
  Definition pc_unmarshal (c : pcur) (raw : option (jraw J)) : res pcur :=
    if negb (pc_ok c) then Panic
    else if pc_alloc c || opt_some (pc_leaf c) then Err E_UNMODELLED
    else match raw with
         | None => Err E_JSON
         | Some JNull => Ok c
         | Some (JText j) =>
             let kb := strip_ptr (pc_cur_ty c) in
             match snd kb with
             | TBase b => do l <- jdec b j; Ok (MkPcur (pc_ty c) (pc_depth c) false (Some (wrap_ptr (fst kb) (VBase b l))) true)
             | TNamed n b => do l <- jdec b j; Ok (MkPcur (pc_ty c) (pc_depth c) false (Some (wrap_ptr (fst kb) (VNamed n b l))) true)
             | _ => Err E_UNMODELLED
             end
         end.
  (* sonic.UnmarshalString(key, x.Interface()) into a fresh holder *)
  Definition pc_unmarshal_key (c : pcur) (k : mkey JK) : res pcur :=
    if negb (pc_ok c) then Panic
    else if pc_alloc c || opt_some (pc_leaf c) || negb (Nat.eqb (pc_depth c) 0) then Err E_UNMODELLED
    else match k with
         | MKJson kj => do kv <- dec_key JK kdec env (pc_ty c) kj;
                        Ok (MkPcur (pc_ty c) 0 false (Some kv) true)
         | MKName _ => Err E_UNMODELLED
         end.
  (* the value at the cursor / below the root: x.Elem() read as a value *)
  Definition pc_here (c : pcur) : res val :=
    if negb (pc_ok c) then Panic
    else match pc_leaf c with
         | Some x => Ok x
         | None => if pc_alloc c
                   then do z <- zero_v (rt_Elem1 (pc_cur_ty c)); Ok (VPtr z)
                   else zero_v (pc_cur_ty c)
         end.
  (* pResult.Elem().Interface() *)
  Definition pc_root_value (c : pcur) : res val :=
    do x <- pc_here c; Ok (wrap_ptr (pc_depth c) x).

  (* createValueFromType *)
  Definition make_map (v : val) : val :=
    match v with
    | VMap k t None => VMap k t (Some [])
    | VDef d (VMap k t None) => VDef d (VMap k t (Some []))
    | _ => v
    end.
  Definition cvft (T : ty) : res val := do z <- zero_v (snd (strip_ptr T)); Ok (make_map z).
  Definition cvft_result (T : ty) (d : val) : val := wrap_ptr (fst (strip_ptr T)) d.

  (* struct fields by name *)
  Definition mkey_name (k : mkey JK) : option string := match k with MKName s => Some s | MKJson _ => None end.
  Definition rt_FieldByName (t : ty) (k : mkey JK) : option sfield :=
    match mkey_name k with
    | Some s => match alist_get s (rt_fields env t) with Some ft => Some (s, ft) | None => None end
    | None => None
    end.
  (* d.FieldByName(k).CanSet() *)
  Definition rv_HasField (d : val) (k : mkey JK) : res bool :=
    match d with
    | VStruct _ _ => Ok (opt_some (rt_FieldByName (ty_of d) k))
    | _ => Panic                                   (* FieldByName on a value that is not a struct *)
    end.
  Fixpoint fields_set (s : string) (x : val) (fs : list (string * val)) : list (string * val) :=
    match fs with
    | [] => []
    | (g, w) :: r => if String.eqb s g then (g, x) :: r else (g, w) :: fields_set s x r
    end.
  (* d.FieldByName(k).Set(x) *)
  Definition rv_SetField (d : val) (k : mkey JK) (x : val) : res val :=
    match d, rt_FieldByName (ty_of d) k with
    | VStruct n fs, Some (s, ft) => do x' <- assign ft x; Ok (VStruct n (fields_set s x' fs))
    | _, _ => Panic
    end.
  (* d.SetMapIndex(k, x) *)
  Definition rv_SetMapIndex (d k x : val) : res val :=
    match d with
    | VMap kt vt (Some kvs) => do x' <- assign vt x; Ok (VMap kt vt (Some (kvs ++ [(k, x')])))
    | VDef dn (VMap kt vt (Some kvs)) => do x' <- assign vt x; Ok (VDef dn (VMap kt vt (Some (kvs ++ [(k, x')]))))
    | _ => Panic
    end.
  (* reflect.Append(d, x) stored back with d.Set *)
  Definition rv_Append (d x : val) : res val :=
    match d with
    | VSlice et o => do x' <- assign et x; Ok (VSlice et (Some (opt_list o ++ [x'])))
    | VDef dn (VSlice et o) => do x' <- assign et x; Ok (VDef dn (VSlice et (Some (opt_list o ++ [x']))))
    | _ => Panic
    end.
  (* d.Index(i).Set(x) *)
  Definition rv_SetIndex (d : val) (i : nat) (x : val) : res val :=
    match d with
    | VArray et es => if Nat.ltb i (List.length es) then do x' <- assign et x; Ok (VArray et (slice_set es i x')) else Panic
    | VDef dn (VArray et es) =>
        if Nat.ltb i (List.length es) then do x' <- assign et x; Ok (VDef dn (VArray et (slice_set es i x'))) else Panic
    | _ => Panic
    end.
End D.
Arguments raw_is_null {J} raw.
Arguments pc_unmarshal {J} jdec c raw.
Arguments pc_unmarshal_key {JK} kdec env c k.
Arguments mkey_name {JK} k.
Arguments rt_FieldByName {JK} env t k.
Arguments rv_HasField {JK} env d k.
Arguments rv_SetField {JK} env d k x.

(* for i := 0; i < n && cond; i++ *)
Fixpoint loop_while_list {R S} (cond : S -> bool) (body : nat -> S -> lres R S) (l : list nat) (s : S) : lres R S :=
  match l with
  | [] => LCont s
  | i :: r => if cond s
              then match body i s with LRet x => LRet x | LCont s' => loop_while_list cond body r s' end
              else LCont s
  end.
Definition loop_range_while {R S} (cond : S -> bool) (body : nat -> S -> lres R S) (n : nat) (s : S) : lres R S :=
  loop_while_list cond body (seq 0 n) s.
(* for i, x := range l *)
Definition indexed {A} (l : list A) : list (nat * A) := combine (seq 0 (List.length l)) l.
