(* Model/FieldMap.v — executable model of eino's Workflow field mappings
   (compose/field_mapping.go, compose/workflow.go:checkAndAddMappedPath,
   compose/graph.go:updateToValidateMap / compile), as repaired by the fix: commits of
   property C15 (F-C15a..i).  Definitions only.

   compile side : [tinsert]/[overlap_check] (trie of mapped target paths),
                  [extract_ty] (checkAndExtractFieldType), [validate] (validateFieldMapping),
                  [compile] (per AddInput: overlap check, then static check).
   run side     : [take_one]/[take_path]/[field_map] (source extraction, edge handler),
                  [run_checks] (the run-time checker installed by validate),
                  [merge_maps] (fan-in of the per-predecessor maps),
                  [assign]/[assign_one]/[convert_to] (target assignment, pre-node handler),
                  [run_invoke], [run_stream] (item-wise, missing map keys skipped). *)
From Eino Require Import Base.Util Base.FMUniverse.

Definition path : Type := list N.

(* error classes (never compared by message) *)
Definition EKey   : N := 1.   (* map key not found on the source path *)
Definition ECheck : N := 2.   (* run-time type check of a mapped value failed *)
Definition ESrc   : N := 3.   (* source path cannot be walked in the value found at request time *)
Definition EMerge : N := 4.   (* fan-in: duplicated key *)

(* ================================================================ overlap check *)

Fixpoint prefix (p q : path) : bool :=
  match p, q with
  | [], _ => true
  | _ :: _, [] => false
  | x :: p', y :: q' => N.eqb x y && prefix p' q'
  end.

(* two target paths overlap: one equals or is a prefix of the other *)
Definition conflict (p q : path) : bool := prefix p q || prefix q p.

Inductive trie : Type :=
| Term                                   (* struct{}{} : a mapped (terminal) path ends here *)
| Node (cs : list (N * trie)).           (* map[string]any *)

(* checkAndAddMappedPath, one target path.  The root is [Node []] before the first
   AddInput and [Term] once the whole input has been mapped. *)
Fixpoint tinsert_sub (p : path) (cs : list (N * trie)) : option (list (N * trie)) :=
  match p with
  | [] => None  (* not reached: callers peel the last element *)
  | f :: rest =>
      match aget f cs, rest with
      | Some Term, _ => None                               (* existing path equals / is a prefix *)
      | Some (Node _), [] => None                           (* new path is a prefix of an existing one *)
      | Some (Node cs'), _ :: _ =>
          match tinsert_sub rest cs' with
          | Some cs'' => Some (ains f (Node cs'') cs)
          | None => None
          end
      | None, [] => Some (ains f Term cs)
      | None, _ :: _ =>
          match tinsert_sub rest [] with
          | Some cs'' => Some (ains f (Node cs'') cs)
          | None => None
          end
      end
  end.

Definition tinsert (p : path) (t : trie) : option trie :=
  match t with
  | Term => None                                            (* entire output has already been mapped *)
  | Node cs =>
      match p with
      | [] => match cs with [] => Some Term | _ => None end (* whole input after / beside field mappings *)
      | _ => option_map Node (tinsert_sub p cs)
      end
  end.

Fixpoint tinsert_all (ps : list path) (t : trie) : option trie :=
  match ps with
  | [] => Some t
  | p :: ps' => match tinsert p t with Some t' => tinsert_all ps' t' | None => None end
  end.

Definition overlap_check (ps : list path) : bool :=
  match tinsert_all ps (Node []) with Some _ => true | None => false end.

(* --- the code before fix F-C15a (kept as machine-checked documentation) --- *)
Fixpoint tinsert_sub_v0 (p : path) (cs : list (N * trie)) : option (list (N * trie)) :=
  match p with
  | [] => Some cs                              (* empty target path: the loop body never runs *)
  | f :: rest =>
      match aget f cs with
      | Some Term => None
      | _ =>
          match rest with
          | [] => Some (ains f Term cs)                         (* overwrites an existing sub-trie *)
          | _ :: _ =>
              match tinsert_sub_v0 rest [] with                 (* a FRESH map replaces the sub-trie *)
              | Some cs'' => Some (ains f (Node cs'') cs)
              | None => None
              end
          end
      end
  end.

(* state of mappedFieldPath[""] : None = absent *)
Definition check_add_v0 (st : option trie) (ps : list path) : option (option trie) :=
  match st with
  | Some Term => None
  | _ =>
      let start := match st with
                   | None => match ps with [] => None | _ => Some [] end
                   | Some (Node cs) => Some cs
                   | Some Term => None
                   end in
      match start with
      | None => Some (Some Term)               (* first AddInput without mappings: whole input *)
      | Some cs =>
          (fix go (l : list path) (cs : list (N * trie)) : option (option trie) :=
             match l with
             | [] => Some (Some (Node cs))
             | p :: l' => match tinsert_sub_v0 p cs with Some cs' => go l' cs' | None => None end
             end) ps cs
      end
  end.

Fixpoint check_add_all_v0 (st : option trie) (decls : list (list path)) : bool :=
  match decls with
  | [] => true
  | ps :: ds => match check_add_v0 st ps with Some st' => check_add_all_v0 st' ds | None => false end
  end.

(* ================================================================ static validation *)

Inductive sres : Type :=
| SOk (t : ty) (inter : bool)     (* extracted type, "intermediate interface" flag *)
| SErr.

Definition deref1 (t : ty) : ty := match t with TPtr u => u | _ => t end.

(* checkAndExtractFieldType (after F-C15e: one pointer level, no step below a leaf; after
   F-C15i: no step below a pointer to an interface) *)
Fixpoint extract_ty (env : senv) (t : ty) (p : path) : sres :=
  match p with
  | [] => SOk t false
  | f :: rest =>
      match t with
      | TMap ks e => if ks then extract_ty env e rest else SErr
      | TAny => match rest with [] => SOk TAny false | _ :: _ => SOk TAny true end
      | _ =>
          match deref1 t with
          | TStruct n =>
              match lookup_field env n f with
              | Some (true, ft) => extract_ty env ft rest
              | _ => SErr
              end
          | _ => SErr
          end
      end
  end.

(* --- the code before fix F-C15i: a path below *any was accepted --- *)
Fixpoint extract_ty_v0 (env : senv) (t : ty) (p : path) : sres :=
  match p with
  | [] => SOk t false
  | f :: rest =>
      match t with
      | TMap ks e => if ks then extract_ty_v0 env e rest else SErr
      | _ =>
          match deref1 t with
          | TStruct n =>
              match lookup_field env n f with
              | Some (true, ft) => extract_ty_v0 env ft rest
              | _ => SErr
              end
          | TAny => match rest with [] => SOk TAny false | _ :: _ => SOk TAny true end
          | _ => SErr
          end
      end
  end.

Inductive assn : Type := MustNot | Must | May.
Definition check_assignable (input arg : ty) : assn :=
  if ty_eqb arg input then Must
  else match arg with
       | TAny => Must
       | _ => match input with TAny => May | _ => MustNot end
       end.

Definition struct_or_map (t : ty) : bool :=
  match t with
  | TMap _ _ => true
  | TPtr _ => true          (* sic: the Ptr case falls through without looking at the element *)
  | TStruct _ => true
  | _ => false
  end.

Definition mapping : Type := (path * path)%type.     (* (from, to); [] = the whole value *)
Definition is_nil_path (p : path) : bool := match p with [] => true | _ => false end.
Definition from_all (ms : list mapping) : bool := existsb (fun m => is_nil_path (fst m)) ms.
Definition to_all (ms : list mapping) : bool := existsb (fun m => is_nil_path (snd m)) ms.

(* the run-time checks installed by validateFieldMapping: target path -> successor field type *)
Definition checks : Type := list (path * ty).

Fixpoint validate_each (env : senv) (P T : ty) (ms : list mapping) : option checks :=
  match ms with
  | [] => Some []
  | (from, to) :: ms' =>
      match extract_ty env P from, extract_ty env T to with
      | SOk pt pinter, SOk st sinter =>
          let rest := validate_each env P T ms' in
          if sinter then
            (match st with TAny => rest | _ => None end)
          else if pinter then option_map (cons (to, st)) rest
          else match check_assignable pt st with
               | MustNot => None
               | May => option_map (cons (to, st)) rest
               | Must => rest
               end
      | _, _ => None
      end
  end.

Definition validate (env : senv) (P T : ty) (ms : list mapping) : option checks :=
  if from_all ms && to_all ms then None
  else if negb (to_all ms) && negb (struct_or_map T) && negb (ty_eqb T TAny) then None
  else if negb (from_all ms) && negb (struct_or_map P) then None
  else validate_each env P T ms.

(* one AddInput: predecessor type, its mappings ([] = plain edge) *)
Record decl : Type := { d_ty : ty; d_maps : list mapping }.

Definition decl_paths (d : decl) : list path :=
  match d_maps d with [] => [[]] | ms => map snd ms end.

Inductive cres : Type :=
| CAccept (cks : list checks)       (* one checker list per declaration *)
| CErrOverlap
| CErrStatic.

Fixpoint compile_from (env : senv) (T : ty) (t : trie) (ds : list decl) : cres :=
  match ds with
  | [] => CAccept []
  | d :: ds' =>
      match tinsert_all (decl_paths d) t with
      | None => CErrOverlap
      | Some t' =>
          let ck := match d_maps d with
                    | [] => match check_assignable (d_ty d) T with MustNot => None | _ => Some [] end
                    | ms => validate env (d_ty d) T ms
                    end in
          match ck with
          | None => CErrStatic
          | Some c =>
              match compile_from env T t' ds' with
              | CAccept cs => CAccept (c :: cs)
              | e => e
              end
          end
      end
  end.

Definition compile (env : senv) (T : ty) (ds : list decl) : cres := compile_from env T (Node []) ds.

(* ================================================================ source extraction *)

Definition take_field (env : senv) (n : N) (fs : list (N * val)) (f : N) : res val :=
  match lookup_field env n f with
  | Some (true, ft) => Ok (match aget f fs with Some x => x | None => zero ft end)
  | _ => Err ESrc
  end.

Definition is_any (t : ty) : bool := match t with TAny => true | _ => false end.

(* takeOne on reflect.ValueOf(v) *)
Definition take_one (env : senv) (v : val) (f : N) : res val :=
  match v with
  | VNil => Err ESrc
  | VMap ks _ o =>
      if ks then
        match o with
        | Some es => match aget f es with Some x => Ok x | None => Err EKey end
        | None => Err EKey
        end
      else Err ESrc
  | VPtr u (Some (VStruct n fs)) =>
      (* a pointer to an interface ( *any ) is not followed: its Elem() is an interface value *)
      if is_any u then Err ESrc else take_field env n fs f
  | VPtr _ _ => Err ESrc
  | VStruct n fs => take_field env n fs f
  | VInt _ | VStr _ => Err ESrc
  end.

Fixpoint take_path (env : senv) (v : val) (p : path) : res val :=
  match p with
  | [] => Ok v
  | f :: rest => do x <- take_one env v f; take_path env x rest
  end.

(* the map[string]any handed from an edge to the successor: target path -> value;
   kept as an association list in mapping order, later entries for the same key win *)
Definition fmap : Type := list (path * val).

Fixpoint path_eqb (a b : path) : bool :=
  match a, b with
  | [], [] => true
  | x :: a', y :: b' => N.eqb x y && path_eqb a' b'
  | _, _ => false
  end.

Fixpoint fm_get (k : path) (m : fmap) : option val :=
  match m with
  | [] => None
  | (k', v) :: m' => if path_eqb k k' then Some v else fm_get k m'
  end.
Fixpoint fm_set (k : path) (v : val) (m : fmap) : fmap :=
  match m with
  | [] => [(k, v)]
  | (k', v') :: m' => if path_eqb k k' then (k, v) :: m' else (k', v') :: fm_set k v m'
  end.

(* fieldMap(mappings, allowMapKeyNotFound) *)
Fixpoint field_map (env : senv) (ms : list mapping) (allow_missing : bool) (input : val) (acc : fmap) : res fmap :=
  match ms with
  | [] => Ok acc
  | (from, to) :: ms' =>
      match take_path env input from with
      | Ok x => field_map env ms' allow_missing input (fm_set to x acc)
      | Err e =>
          if N.eqb e EKey && allow_missing then field_map env ms' allow_missing input acc
          else Err e
      | Panic => Panic
      end
  end.

(* the checker of validateFieldMapping: every checked key present in the map *)
Definition check_value (st : ty) (x : val) : bool :=
  match dyn x with
  | None => nilable st
  | Some d => assignable d st
  end.

Fixpoint run_checks (cks : checks) (m : fmap) : res fmap :=
  match cks with
  | [] => Ok m
  | (k, st) :: cks' =>
      match fm_get k m with
      | Some x => if check_value st x then run_checks cks' m else Err ECheck
      | None => run_checks cks' m
      end
  end.

(* mergeMap over the predecessors' maps *)
Fixpoint merge_into (m acc : fmap) : res fmap :=
  match m with
  | [] => Ok acc
  | (k, v) :: m' =>
      match fm_get k acc with
      | Some _ => Err EMerge
      | None => merge_into m' (acc ++ [(k, v)])
      end
  end.
Fixpoint merge_maps (ms : list fmap) (acc : fmap) : res fmap :=
  match ms with
  | [] => Ok acc
  | m :: ms' => do acc' <- merge_into m acc; merge_maps ms' acc'
  end.

(* ================================================================ target assignment *)

(* newInstanceByType *)
Fixpoint new_instance (t : ty) : val :=
  match t with
  | TMap ks e => VMap ks e (Some [])
  | TPtr u => VPtr u (Some (new_instance u))
  | _ => zero t
  end.

(* instantiateIfNeeded *)
Definition instantiate (v : val) : val :=
  match v with
  | VPtr u None => VPtr u (Some (zero u))
  | VMap ks e None => VMap ks e (Some [])
  | _ => v
  end.

(* what is stored for the taken value x in a slot of type t: None = the assignment is an
   error (which makes convertTo panic) *)
Definition store_map (e : ty) (x : val) : option val :=
  match dyn x with
  | None => if nilable e then Some (zero e) else None
  | Some d => if assignable d e then Some x else None
  end.
(* struct field: a nil interface value is skipped (the field keeps what it has) *)
Definition store_field (ft : ty) (old x : val) : option val :=
  match dyn x with
  | None => if nilable ft then Some old else None
  | Some d => if assignable d ft then Some x else None
  end.

(* a slot of type `any` is (re)used as / replaced by a map[string]any *)
Definition any_enter (t : ty) (v : val) : val :=
  match t with
  | TAny => match v with
            | VMap true TAny _ => v
            | _ => VMap true TAny (Some [])
            end
  | _ => v
  end.

(* one pointer level in front of a struct; at the terminal step (last = true) a nil
   pointer is instantiated first, at an intermediate step it is an error *)
Definition unwrap (v : val) (last : bool) : option (bool * ty * val) :=
  match v with
  | VPtr u (Some w) => Some (true, u, w)
  | VPtr u None => if last then Some (true, u, zero u) else None
  | _ => Some (false, TInt, v)
  end.
Definition rewrap (isptr : bool) (u : ty) (w : val) : val :=
  if isptr then VPtr u (Some w) else w.

Definition entry_of (e : ty) (o : option val) : val :=
  match o with Some w => w | None => new_instance e end.
Definition field_of (ft : ty) (o : option val) : val :=
  match o with Some w => w | None => zero ft end.

(* assignOne below the top: [t] is the static type of the slot holding [v].
   The result is the new content of the slot. *)
Fixpoint assign (env : senv) (t : ty) (v : val) (p : path) (x : val) {struct p} : option val :=
  match p with
  | [] => None  (* not reached *)
  | f :: rest =>
      match any_enter t v with
      | VMap ks e o =>
          if negb ks then None else
          match o with
          | None => None                                   (* assignment to entry in nil map *)
          | Some es =>
              option_map (fun a => VMap ks e (Some (ains f a es)))
                (match rest with
                 | [] => store_map e x
                 | _ :: _ => assign env e (entry_of e (aget f es)) rest x
                 end)
          end
      | v1 =>
          match unwrap v1 (is_nil_path rest) with
          | Some (isptr, u, VStruct n fs) =>
              if isptr && is_any u then None else   (* *any: what it points to is an interface value *)
              match lookup_field env n f with
              | Some (true, ft) =>
                  let old := field_of ft (aget f fs) in
                  option_map (fun a => rewrap isptr u (VStruct n (ains f a fs)))
                    (match rest with
                     | [] => store_field ft old x
                     | _ :: _ => assign env ft (instantiate old) rest x
                     end)
              | _ => None
              end
          | _ => None
          end
      end
  end.

(* assignOne *)
Definition assign_one (env : senv) (T : ty) (dest : val) (to : path) (x : val) : option val :=
  match to with
  | [] =>
      match dyn x with
      | None => if nilable T then Some (zero T) else None
      | Some d => if assignable d T then Some x else None
      end
  | _ => assign env T dest to x
  end.

(* convertTo: the iteration order over the Go map is a parameter (the list order) *)
Fixpoint assign_all (env : senv) (T : ty) (dest : val) (m : fmap) : option val :=
  match m with
  | [] => Some dest
  | (to, x) :: m' =>
      match assign_one env T dest to x with
      | Some d' => assign_all env T d' m'
      | None => None
      end
  end.

Definition convert_to (env : senv) (T : ty) (m : fmap) : res val :=
  match assign_all env T (new_instance T) m with
  | Some v => Ok v
  | None => Panic          (* "convertTo failed when must succeed" *)
  end.

(* ================================================================ whole runs *)

(* run-time part of a declaration: the value its predecessor produced *)
Definition edge_out (env : senv) (ms : list mapping) (cks : checks) (allow_missing : bool) (src : val) : res fmap :=
  do m <- field_map env ms allow_missing src []; run_checks cks m.

Fixpoint edges_out (env : senv) (ds : list decl) (ckss : list checks) (srcs : list val) : res (list fmap) :=
  match ds, ckss, srcs with
  | d :: ds', c :: cs', s :: ss' =>
      do m <- edge_out env (d_maps d) c false s;
      do r <- edges_out env ds' cs' ss';
      Ok (m :: r)
  | _, _, _ => Ok []
  end.

Definition has_plain (ds : list decl) : bool :=
  existsb (fun d => match d_maps d with [] => true | _ => false end) ds.

(* a value that a Go variable of static type [t] can hold (shallow part): the type assertion v.(t) *)
Definition slot_ok (t : ty) (v : val) : bool :=
  match dyn v with
  | None => ty_eqb t TAny
  | Some d => assignable d t
  end.

(* AddInput without mappings (graph.go updateToValidateMap, "common node check"): the successor gets
   the predecessor's value itself; when the predecessor's type is an interface and the successor's is
   not (assignableTypeMay) the edge carries the run-time type check of the successor's input
   (defaultValueChecker / defaultStreamConverter: v.(T), chunk by chunk in Stream) *)
Definition plain_out (T P : ty) (s : val) : res val :=
  match check_assignable P T with
  | May => if slot_ok T s then Ok s else Err ECheck
  | _ => Ok s
  end.

Fixpoint plain_stream (T P : ty) (cs : list val) : res (list val) :=
  match cs with
  | [] => Ok []
  | c :: cs' => do x <- plain_out T P c; do r <- plain_stream T P cs'; Ok (x :: r)
  end.

(* Invoke: every predecessor delivers one value *)
Definition run_invoke (env : senv) (T : ty) (ds : list decl) (ckss : list checks) (srcs : list val) : res val :=
  if has_plain ds then
    match ds, srcs with                     (* an accepted plain edge is the only declaration *)
    | d :: _, s :: _ => plain_out T (d_ty d) s
    | _, _ => Err ESrc
    end
  else
    do ms <- edges_out env ds ckss srcs;
    do m <- merge_maps ms [];
    convert_to env T m.

(* Stream: every predecessor delivers a list of chunks; every chunk is mapped (missing
   map keys skipped), checked and converted on its own; the fan-in merge only
   interleaves. The result is the list of converted chunks, predecessor by predecessor. *)
Fixpoint stream_chunks (env : senv) (T : ty) (ms : list mapping) (cks : checks) (chunks : list val) : res (list val) :=
  match chunks with
  | [] => Ok []
  | c :: cs =>
      do m <- edge_out env ms cks true c;
      do v <- convert_to env T m;
      do r <- stream_chunks env T ms cks cs;
      Ok (v :: r)
  end.

Fixpoint run_stream_from (env : senv) (T : ty) (ds : list decl) (ckss : list checks) (srcs : list (list val)) : res (list val) :=
  match ds, ckss, srcs with
  | d :: ds', c :: cs', s :: ss' =>
      do a <- stream_chunks env T (d_maps d) c s;
      do r <- run_stream_from env T ds' cs' ss';
      Ok (a ++ r)
  | _, _, _ => Ok []
  end.

Definition run_stream (env : senv) (T : ty) (ds : list decl) (ckss : list checks) (srcs : list (list val)) : res (list val) :=
  if has_plain ds then
    match ds, srcs with
    | d :: _, cs :: _ => plain_stream T (d_ty d) cs
    | _, _ => Err ESrc
    end
  else run_stream_from env T ds ckss srcs.

(* ================================================================ static values *)

(* WorkflowNode.SetStaticValue: constants put at target paths of the successor's input.
   Compile (workflow.go) records their paths in the same trie after all AddInputs
   (checkAndAddMappedPath: the order of the Go map is arbitrary, the check is order
   independent) and, since fix F-C15j, validates every value against the input type
   (validateStaticValues).  At request time the map of static values is merged into the
   fan-in map before convertTo (Invoke) resp. arrives as one more chunk (Stream). *)
Definition statics : Type := list (path * val).

Fixpoint validate_statics (env : senv) (T : ty) (ss : statics) : bool :=
  match ss with
  | [] => true
  | (to, v) :: ss' =>
      match extract_ty env T to with
      | SOk st sb =>
          (if sb then match st with TAny => true | _ => false end else check_value st v)
          && validate_statics env T ss'
      | SErr => false
      end
  end.

Definition all_targets (ds : list decl) : list path := List.concat (map decl_paths ds).

Definition compile_s (env : senv) (T : ty) (ds : list decl) (ss : statics) : cres :=
  match compile env T ds with
  | CAccept cks =>
      match ss with
      | [] => CAccept cks
      | _ =>
          if overlap_check (all_targets ds ++ map fst ss)
          then (if validate_statics env T ss then CAccept cks else CErrStatic)
          else CErrOverlap
      end
  | e => e
  end.

Definition run_invoke_s (env : senv) (T : ty) (ds : list decl) (ss : statics) (ckss : list checks) (srcs : list val) : res val :=
  match ss with
  | [] => run_invoke env T ds ckss srcs
  | _ =>
      do ms <- edges_out env ds ckss srcs;
      do m <- merge_maps (ms ++ [ss]) [];
      convert_to env T m
  end.

Definition run_stream_s (env : senv) (T : ty) (ds : list decl) (ss : statics) (ckss : list checks) (srcs : list (list val)) : res (list val) :=
  match ss with
  | [] => run_stream env T ds ckss srcs
  | _ =>
      do vs <- run_stream_from env T ds ckss srcs;
      do v <- convert_to env T ss;
      Ok (vs ++ [v])
  end.

(* ================================================================ vocabulary of the theorems *)

(* what a slot of static type [st] holds after the value [x] has been put into it: the nil
   interface value becomes the nil (zero) value of the slot's type *)
Definition conv (st : ty) (x : val) : val :=
  match dyn x with None => zero st | Some _ => x end.

(* a value that a Go variable of static type [t] can hold: [slot_ok] (shallow part, above) and
   whose components are such values again (deep part) *)
Fixpoint wfv (env : senv) (v : val) : bool :=
  match v with
  | VStruct n fs =>
      forallb (fun kv => match lookup_field env n (fst kv) with
                         | Some (_, ft) => slot_ok ft (snd kv) && wfv env (snd kv)
                         | None => false
                         end) fs
  | VPtr u (Some w) => slot_ok u w && wfv env w
  | VMap _ e (Some es) => forallb (fun kv => slot_ok e (snd kv) && wfv env (snd kv)) es
  | _ => true
  end.

Definition has_type (env : senv) (t : ty) (v : val) : bool := slot_ok t v && wfv env v.
