(* Model/ChanCloseGenLib.v — property C19: vocabulary and specification for the translation of
   compose/dag.go dagChannel.reportValues / reportSkip by tools/go2v (extractor "c19_chanclose",
   coq/Gen/ChanCloseCode.v).  A Go map is an association list with distinct keys, in any order (the
   translated loops do not depend on the iteration order, see Proofs/GenAgreeChanClose.v).
   Executable definitions only. *)
From Eino Require Import Base.Util Model.StreamAcct Model.AcctGenLib Model.StreamRun.
Open Scope N_scope.

Definition dstate_eqb (a b : dstate) : bool :=
  match a, b with
  | DWait, DWait | DReady, DReady | DSkip, DSkip => true
  | _, _ => false
  end.

(* _, ok := m[k] *)
Definition g_map_has {A} (k : key) (m : list (key * A)) : bool := existsb (fun ka => N.eqb k (fst ka)) m.
(* m[k] = a *)
Fixpoint g_map_set {A} (k : key) (a : A) (m : list (key * A)) : list (key * A) :=
  match m with
  | [] => [(k, a)]
  | (k', a') :: m' => if N.eqb k k' then (k, a) :: m' else (k', a') :: g_map_set k a m'
  end.
(* flag := init ; for _, x := range m { if p x { flag = v; break } } *)
Definition g_flag_break {A} (m : list (key * A)) (init : bool) (p : A -> bool) (v : bool) : bool :=
  if existsb (fun ka => p (snd ka)) m then v else init.

(* ---- what the model says the two methods do with streams *)
(* reportValues(ins) on a channel with flag [skipped] and data predecessors [dps]: a skipped channel
   closes everything it is handed; otherwise the values of data predecessors are stored, the others
   are left alone (channelManager.updateValues has closed those) *)
Definition spec_report_values (skipped : bool) (dps : list key) (ins : list (key * handle)) : upd_acc :=
  if skipped then {| ua_kept := []; ua_closed := map snd ins |}
  else {| ua_kept := filter (fun kv => memb (fst kv) dps) ins; ua_closed := [] |}.

(* reportSkip(keys): the control predecessors among [keys] become skipped; the channel is skipped when
   all of them are; then every stored stream is closed (and forgotten) *)
Definition spec_report_skip (cps : list (key * dstate)) (keys : list key) (values : list (key * handle))
  : list (key * dstate) * bool * list handle :=
  let cps' := map (fun ka => (fst ka, if memb (fst ka) keys then DSkip else snd ka)) cps in
  let all := forallb (fun ka => is_dskip (snd ka)) cps' in
  (cps', all, if all then map snd values else []).

(* ---- the maps of a dagChannel of the run model (Model/StreamRun.v keeps them as total functions plus the
   graph): ControlPredecessors, DataPredecessors (its key set) and Values of channel x *)
Definition ctrl_map (g : graph) (x : key) (c : chan) : list (key * dstate) :=
  map (fun p => (p, ch_ctrl c p)) (filter (fun p => is_ctrl_pred g p x) (all_keys g)).
Definition data_preds (g : graph) (x : key) : list key :=
  filter (fun p => is_data_pred_g g p x) (all_keys g).
Definition vals_map (g : graph) (c : chan) : list (key * handle) :=
  flat_map (fun p => match ch_vals c p with Some h => [(p, h)] | None => [] end) (all_keys g).
