(* Model/Builder.v — property C20.
   Executable model of the construction-time state machines of eino's three builder
   front-ends (compose/graph.go, chain.go, chain_parallel.go, chain_branch.go,
   workflow.go) over sequences of public API calls:

     * graph level (type [gstate]):  addNode / addEdgeWithMappings / addBranch / compile,
       with the sticky [buildError], the [compiled] flag, the validation order of every
       check, the pending list of un-inferable pass-through edges ([toValidateMap]),
       [startNodes]/[endNodes], field-mapping records (duplicate targets), the three
       handler maps the compiled runner keeps referring to, [validateDAG] (counter
       algorithm), trigger-mode / step-limit option rules;
     * Chain   (type [cstate]): deferred error [c.err], [preNodeKeys], [hasEnd],
       generated node keys "node_<i>", "node_<i>_parallel_<j>", "node_<i>_branch_<k>";
     * Workflow (type [wstate]): swallowed Add* errors, deferred inputs per node
       ([addInputs]), deferred branches, the mapped-path check (single-segment targets),
       and [Workflow.compile] whose iteration over the node map is a *parameter*
       ([WCompile o ord]): the theorems hold for every order.

   Typing is abstracted to "every concrete node has the same type" (typing is property
   C07): a node's input/output type is either known or not (pass-through before
   inference), which is all that the rejection rules of C20 depend on.

   [compile] returns a [runner]: the parts the Go runner copies are fields of the value,
   the parts it shares by reference with the builder (the handler maps and the branch
   objects) are read through [runner_view] from the *current* builder state.

   [ver] selects the code version: [fixed] is the tree after the two C20 repairs,
   [v0] the original behaviour (kept for the [_refuted] witnesses):
     F-C20a  Workflow.compile dereferenced a missing WorkflowNode (panic),
     F-C20b  graph.compile appended the field-mapping converter to the shared
             [handlerPreNode] map on every compile,
     F-C20c  graph.compile dereferenced the nil generic helper of a pass-through node
             that no data edge or branch had given a type (panic),
     F-C20d  Chain.addEndIfNeeded returned early once the END edges existed, before
             looking at the deferred error [c.err],
     F-C20e  Workflow.compile applied the static values of a node at every Compile, also
             the ones set after a successful Compile (which changed the next runnable).

   Definitions only. *)
From Eino Require Import Base.Util.
From Coq Require Import DecimalString.
Local Open Scope string_scope.
Local Open Scope list_scope.
Infix "+++" := String.append (at level 60, right associativity).

Definition START : string := "start".
Definition END_ : string := "end".

Definition nat_str (n : N) : string := NilEmpty.string_of_uint (N.to_uint n).

(* ------------------------------------------------------------------ error classes *)
(* class of an error = family of its text; never the message itself *)
Inductive ecls : Type :=
| EReserved            (* node 'start'/'end' is reserved *)
| EDupNode             (* node already present *)
| ENeedState           (* node needs state but graph state is not enabled *)
| ENodeKeyOpt          (* only chain support node key option *)
| ENoCtrlNoData        (* edge cannot be both noDirectDependency and noDataFlow (not reachable publicly) *)
| EEndAsStart          (* END cannot be a start node *)
| EStartAsEnd          (* START cannot be an end node *)
| EEdgeStartUnknown    (* edge start node needs to be added to graph first *)
| EEdgeEndUnknown      (* edge end node needs to be added to graph first *)
| EDupCtrlEdge         (* control edge have been added yet *)
| EDupDataEdge         (* data edge have been added yet *)
| EBranchStartUnknown  (* branch start node needs to be added to graph first *)
| EBranchOne           (* number of branches is 1 *)
| EBranchEndUnknown    (* branch end node needs to be added to graph first *)
| ECompiled            (* graph has been compiled, cannot be modified *)
| ETriggerUnsupported  (* chain doesn't support node trigger mode option *)
| ENoStart             (* start node not set *)
| ENoEnd               (* end node not set *)
| EUninferred          (* some node's input or output types cannot be inferred *)
| EDupMapTarget        (* duplicate mapping target field *)
| EDagLoop             (* DAG invalid, node has loop *)
| EMaxStepsDag         (* cannot set max run steps in dag mode *)
| EChainCompiled       (* chain has been compiled, cannot be modified *)
| EChainEmpty          (* pre node keys not set *)
| EParDupKey           (* parallel add node err, duplicate output key *)
| EParTooFew           (* append parallel invalid, not enough nodes *)
| EParMultiPrev        (* append parallel invalid, multiple previous nodes *)
| EBrDupKey            (* chain branch add node, duplicate branch node key *)
| EBrEmpty             (* append branch invalid, nodeList is empty *)
| EBrOne               (* append branch invalid, nodeList length = 1 *)
| EBrMultiPrev         (* append branch invalid, multiple previous nodes *)
| EMapped              (* entire output has already been mapped / fields have already been mapped *)
| EMapConflict         (* two terminal field paths conflict *)
| EOther.              (* anything the harness could not classify: always a mismatch *)

Scheme Equality for ecls.

(* what one public call returned *)
Inductive nkind : Type := NLambda | NPass | NSubOk | NSubBad.
Definition nkind_eqb (a b : nkind) : bool :=
  match a, b with
  | NLambda, NLambda | NPass, NPass | NSubOk, NSubOk | NSubBad, NSubBad => true
  | _, _ => false
  end.

(* ------------------------------------------------------------------ small list helpers *)
Fixpoint smem (k : string) (l : list string) : bool :=
  match l with [] => false | x :: r => String.eqb k x || smem k r end.

Fixpoint pmem (a b : string) (l : list (string * string)) : bool :=
  match l with [] => false | (x, y) :: r => (String.eqb a x && String.eqb b y) || pmem a b r end.

Fixpoint has_dup (l : list string) : bool :=
  match l with [] => false | x :: r => smem x r || has_dup r end.

Definition is_nil {A} (l : list A) : bool := match l with [] => true | _ => false end.
Definition is_some {A} (o : option A) : bool := match o with Some _ => true | None => false end.

(* ------------------------------------------------------------------ code version *)
Record ver : Type := mkVer { v_branch_check : bool; v_prenode_copy : bool; v_untyped_check : bool; v_chain_err_first : bool;
                             v_static_once : bool }.
Definition fixed : ver := mkVer true true true true true.
Definition v0 : ver := mkVer false false false false false.

(* ------------------------------------------------------------------ graph level *)
Inductive cmp : Type := CGraph | CChain | CWorkflow.

(* n_in / n_out: is the input / output type known (a pass-through node starts unknown;
   a node with an output key always has output type map[string]any) *)
(* n_state: the node was added with a state pre/post handler *)
Record node : Type := mkNode { n_kind : nkind; n_in : bool; n_out : bool; n_state : bool }.

(* a data edge waiting in toValidateMap: (start, end, mapping target fields) *)
Definition pend : Type := (string * string * list string)%type.

Record gstate := mkG {
  g_cmp : cmp;
  g_state : bool;                                   (* WithGenLocalState given *)
  g_nodes : list (string * node);                   (* insertion order *)
  g_ctrl : list (string * string);
  g_data : list (string * string);
  g_branches : list (string * (list string * bool)); (* start, end nodes, noDataFlow *)
  g_starts : list string;
  g_ends : list string;
  g_pending : list pend;
  g_fm : list (string * list string);               (* fieldMappingRecords: node -> target fields *)
  g_h_edges : list (string * string);               (* handlerOnEdges: one entry per handler *)
  g_h_prenode : list string;                        (* handlerPreNode: one entry per handler *)
  g_h_prebranch : list string;                      (* handlerPreBranch: one entry per branch *)
  g_err : option ecls;                              (* buildError *)
  g_compiled : bool
}.

Definition set_nodes (x : list (string * node)) (g : gstate) : gstate :=
  mkG (g_cmp g) (g_state g) x (g_ctrl g) (g_data g) (g_branches g) (g_starts g) (g_ends g) (g_pending g) (g_fm g) (g_h_edges g) (g_h_prenode g) (g_h_prebranch g) (g_err g) (g_compiled g).
Definition set_ctrl (x : list (string * string)) (g : gstate) : gstate :=
  mkG (g_cmp g) (g_state g) (g_nodes g) x (g_data g) (g_branches g) (g_starts g) (g_ends g) (g_pending g) (g_fm g) (g_h_edges g) (g_h_prenode g) (g_h_prebranch g) (g_err g) (g_compiled g).
Definition set_data (x : list (string * string)) (g : gstate) : gstate :=
  mkG (g_cmp g) (g_state g) (g_nodes g) (g_ctrl g) x (g_branches g) (g_starts g) (g_ends g) (g_pending g) (g_fm g) (g_h_edges g) (g_h_prenode g) (g_h_prebranch g) (g_err g) (g_compiled g).
Definition set_branches (x : list (string * (list string * bool))) (g : gstate) : gstate :=
  mkG (g_cmp g) (g_state g) (g_nodes g) (g_ctrl g) (g_data g) x (g_starts g) (g_ends g) (g_pending g) (g_fm g) (g_h_edges g) (g_h_prenode g) (g_h_prebranch g) (g_err g) (g_compiled g).
Definition set_starts (x : list string) (g : gstate) : gstate :=
  mkG (g_cmp g) (g_state g) (g_nodes g) (g_ctrl g) (g_data g) (g_branches g) x (g_ends g) (g_pending g) (g_fm g) (g_h_edges g) (g_h_prenode g) (g_h_prebranch g) (g_err g) (g_compiled g).
Definition set_ends (x : list string) (g : gstate) : gstate :=
  mkG (g_cmp g) (g_state g) (g_nodes g) (g_ctrl g) (g_data g) (g_branches g) (g_starts g) x (g_pending g) (g_fm g) (g_h_edges g) (g_h_prenode g) (g_h_prebranch g) (g_err g) (g_compiled g).
Definition set_pending (x : list pend) (g : gstate) : gstate :=
  mkG (g_cmp g) (g_state g) (g_nodes g) (g_ctrl g) (g_data g) (g_branches g) (g_starts g) (g_ends g) x (g_fm g) (g_h_edges g) (g_h_prenode g) (g_h_prebranch g) (g_err g) (g_compiled g).
Definition set_fm (x : list (string * list string)) (g : gstate) : gstate :=
  mkG (g_cmp g) (g_state g) (g_nodes g) (g_ctrl g) (g_data g) (g_branches g) (g_starts g) (g_ends g) (g_pending g) x (g_h_edges g) (g_h_prenode g) (g_h_prebranch g) (g_err g) (g_compiled g).
Definition set_h_edges (x : list (string * string)) (g : gstate) : gstate :=
  mkG (g_cmp g) (g_state g) (g_nodes g) (g_ctrl g) (g_data g) (g_branches g) (g_starts g) (g_ends g) (g_pending g) (g_fm g) x (g_h_prenode g) (g_h_prebranch g) (g_err g) (g_compiled g).
Definition set_h_prenode (x : list string) (g : gstate) : gstate :=
  mkG (g_cmp g) (g_state g) (g_nodes g) (g_ctrl g) (g_data g) (g_branches g) (g_starts g) (g_ends g) (g_pending g) (g_fm g) (g_h_edges g) x (g_h_prebranch g) (g_err g) (g_compiled g).
Definition set_h_prebranch (x : list string) (g : gstate) : gstate :=
  mkG (g_cmp g) (g_state g) (g_nodes g) (g_ctrl g) (g_data g) (g_branches g) (g_starts g) (g_ends g) (g_pending g) (g_fm g) (g_h_edges g) (g_h_prenode g) x (g_err g) (g_compiled g).
Definition set_err (x : option ecls) (g : gstate) : gstate :=
  mkG (g_cmp g) (g_state g) (g_nodes g) (g_ctrl g) (g_data g) (g_branches g) (g_starts g) (g_ends g) (g_pending g) (g_fm g) (g_h_edges g) (g_h_prenode g) (g_h_prebranch g) x (g_compiled g).
Definition set_compiled (x : bool) (g : gstate) : gstate :=
  mkG (g_cmp g) (g_state g) (g_nodes g) (g_ctrl g) (g_data g) (g_branches g) (g_starts g) (g_ends g) (g_pending g) (g_fm g) (g_h_edges g) (g_h_prenode g) (g_h_prebranch g) (g_err g) x.

Definition g_init (c : cmp) (has_state : bool) : gstate :=
  mkG c has_state [] [] [] [] [] [] [] [] [] [] [] None false.

(* the compiled product.  Copied by graph.compile: node table, edge lists (slice headers),
   the slices of branch pointers, mode flags, the step limit and — since the F-C20b
   repair — the pre-node handler map ([r_prenode = Some copy]; [None] = the runner
   holds the builder's own map, version v0). *)
Record runner : Type := mkR {
  r_nodes : list (string * nkind);
  r_ctrl : list (string * string);
  r_data : list (string * string);
  r_branches : list (string * (list string * bool));
  r_dag : bool;
  r_eager : bool;
  r_max_steps : Z;
  r_prenode : option (list string)
}.

Inductive outcome : Type :=
| OOk
| OErr (e : ecls)
| OPanic
| OCompiled (r : runner).

(* what the runner computes with: its own fields plus what it reads through the
   references it shares with the builder [g] it came from *)
Record rview : Type := mkView {
  rv_runner : runner;
  rv_prenode : list string;
  rv_h_edges : list (string * string);
  rv_h_prebranch : list string;
  rv_branch_objs : list (string * (list string * bool))
}.
Definition runner_view (g : gstate) (r : runner) : rview :=
  mkView r (match r_prenode r with Some h => h | None => g_h_prenode g end)
         (g_h_edges g) (g_h_prebranch g) (g_branches g).

Definition is_se (k : string) : bool := String.eqb k START || String.eqb k END_.

Definition has_node (g : gstate) (k : string) : bool := is_some (alist_get k (g_nodes g)).

Definition in_typed (g : gstate) (k : string) : bool :=
  if is_se k then true else match alist_get k (g_nodes g) with Some n => n_in n | None => false end.
Definition out_typed (g : gstate) (k : string) : bool :=
  if is_se k then true else match alist_get k (g_nodes g) with Some n => n_out n | None => false end.

(* type inference of a pass-through node: cr.inputType and cr.outputType are both set *)
Definition set_typed (k : string) (g : gstate) : gstate :=
  set_nodes (map (fun kn => if String.eqb (fst kn) k then (fst kn, mkNode (n_kind (snd kn)) true true (n_state (snd kn))) else kn)
                 (g_nodes g)) g.

Definition fail (g : gstate) (e : ecls) : gstate * outcome := (set_err (Some e) g, OErr e).

Definition init_node (nk : nkind) (out_key need_state : bool) : node :=
  match nk with
  | NPass => mkNode nk false out_key need_state
  | _ => mkNode nk true true need_state
  end.

(* graph.addNode; [nodekey_opt]: WithNodeKey given; [out_key]: WithOutputKey given *)
Definition g_add_node (g : gstate) (k : string) (nk : nkind) (need_state nodekey_opt out_key : bool)
  : gstate * outcome :=
  match g_err g with
  | Some e => (g, OErr e)
  | None =>
    if g_compiled g then (g, OErr ECompiled)
    else if is_se k then fail g EReserved
    else if has_node g k then fail g EDupNode
    else if need_state && negb (g_state g) then fail g ENeedState
    else if nodekey_opt && negb (match g_cmp g with CChain => true | _ => false end) then fail g ENodeKeyOpt
    else (set_nodes (g_nodes g ++ [(k, init_node nk out_key need_state)]) g, OOk)
  end.

(* updateToValidateMap: one pass over the pending list, then iterated to the fixpoint.
   With a single concrete type no assignability check can fail, so a pass only infers
   pass-through types and installs the field-mapping handler / record of resolved edges. *)
Fixpoint resolve_pass (g : gstate) (todo : list pend) : gstate * list pend :=
  match todo with
  | [] => (g, [])
  | (s, e, fs) :: rest =>
    let so := out_typed g s in
    let ei := in_typed g e in
    if negb so && negb ei then
      let '(g', kept) := resolve_pass g rest in (g', (s, e, fs) :: kept)
    else
      let g1 := if so && negb ei then set_typed e g
                else if negb so then set_typed s g
                else g in
      let g2 := match fs with
                | [] => g1
                | _ => set_fm (match alist_get e (g_fm g1) with
                               | Some old => alist_set e (old ++ fs) (g_fm g1)
                               | None => g_fm g1 ++ [(e, fs)]
                               end)
                         (set_h_edges (g_h_edges g1 ++ [(s, e)]) g1)
                end in
      resolve_pass g2 rest
  end.

Definition resolve_once (g : gstate) : gstate :=
  let '(g', kept) := resolve_pass (set_pending [] g) (g_pending g) in set_pending kept g'.

Definition update_pending (g : gstate) : gstate :=
  Nat.iter (S (List.length (g_pending g))) resolve_once g.

(* graph.addEdgeWithMappings *)
Definition g_add_edge (g : gstate) (s e : string) (no_ctrl no_data : bool) (fs : list string)
  : gstate * outcome :=
  match g_err g with
  | Some er => (g, OErr er)
  | None =>
    if g_compiled g then (g, OErr ECompiled)
    else if no_ctrl && no_data then (g, OErr ENoCtrlNoData)
    else if String.eqb s END_ then fail g EEndAsStart
    else if String.eqb e START then fail g EStartAsEnd
    else if negb (has_node g s) && negb (String.eqb s START) then fail g EEdgeStartUnknown
    else if negb (has_node g e) && negb (String.eqb e END_) then fail g EEdgeEndUnknown
    else if negb no_ctrl && pmem s e (g_ctrl g) then fail g EDupCtrlEdge
    else
      let g1 := if no_ctrl then g
                else
                  let ga := set_ctrl (g_ctrl g ++ [(s, e)]) g in
                  let gb := if String.eqb s START then set_starts (g_starts ga ++ [e]) ga else ga in
                  if String.eqb e END_ then set_ends (g_ends gb ++ [s]) gb else gb in
      if no_data then (g1, OOk)
      else if pmem s e (g_data g1) then fail g EDupDataEdge
      else
        let g2 := update_pending (set_pending (g_pending g1 ++ [(s, e, fs)]) g1) in
        (set_data (g_data g2 ++ [(s, e)]) g2, OOk)
  end.

(* the per-end-node part of addBranch (skipData = false) *)
Fixpoint branch_ends (g : gstate) (s : string) (ends : list string) : gstate * option ecls :=
  match ends with
  | [] => (g, None)
  | e :: rest =>
    if negb (has_node g e) && negb (String.eqb e END_) then (g, Some EBranchEndUnknown)
    else
      let g1 := update_pending (set_pending (g_pending g ++ [(s, e, [])]) g) in
      let g2 := if String.eqb s START then set_starts (g_starts g1 ++ [e]) g1 else g1 in
      let g3 := if String.eqb e END_ then set_ends (g_ends g2 ++ [s]) g2 else g2 in
      branch_ends g3 s rest
  end.

(* graph.addBranch; [ends] is the key set of branch.endNodes (sorted, no duplicates) *)
Definition g_add_branch (g : gstate) (s : string) (ends : list string) (skip_data : bool)
  : gstate * outcome :=
  match g_err g with
  | Some er => (g, OErr er)
  | None =>
    if g_compiled g then (g, OErr ECompiled)
    else if String.eqb s END_ then fail g EEndAsStart
    else if negb (has_node g s) && negb (String.eqb s START) then fail g EBranchStartUnknown
    else if Nat.eqb (List.length ends) 1 then fail g EBranchOne
    else
      (* a pass-through start node whose type is still unknown takes the condition's type,
         which is passed along the edges waiting for it at once (d47d56e) *)
      let g1 := match alist_get s (g_nodes g) with
                | Some n => if nkind_eqb (n_kind n) NPass && negb (n_out n) then update_pending (set_typed s g) else g
                | None => g
                end in
      let g2 := set_h_prebranch (g_h_prebranch g1 ++ [s]) g1 in
      if skip_data then (set_branches (g_branches g2 ++ [(s, (ends, true))]) g2, OOk)
      else
        match branch_ends g2 s ends with
        | (_, Some er) => fail g er
        | (g3, None) => (set_branches (g_branches g3 ++ [(s, (ends, false))]) g3, OOk)
        end
  end.

(* ---- validateDAG: the counter algorithm of the code ---- *)
Definition ctrl_pairs (g : gstate) : list (string * string) :=
  g_ctrl g ++ flat_map (fun b => map (fun e => (fst b, e)) (fst (snd b))) (g_branches g).

Definition zget (k : string) (m : list (string * Z)) : Z :=
  match alist_get k m with Some z => z | None => 0%Z end.

Definition dec1 (s : string) (m : list (string * Z)) : list (string * Z) :=
  map (fun kv => if String.eqb (fst kv) s then (fst kv, (snd kv - 1)%Z) else kv) m.

Definition zset (s : string) (z : Z) (m : list (string * Z)) : list (string * Z) :=
  map (fun kv => if String.eqb (fst kv) s then (fst kv, z) else kv) m.

Definition succs (ps : list (string * string)) (n : string) : list string :=
  filter (fun e => negb (String.eqb e END_)) (map snd (filter (fun p => String.eqb (fst p) n) ps)).

Definition init_count (ps : list (string * string)) (n : string) : Z :=
  Z.of_nat (List.length (filter (fun p => String.eqb (snd p) n && negb (String.eqb (fst p) START)) ps)).

Definition dag_process1 (ps : list (string * string)) (m : list (string * Z)) (k : string) : list (string * Z) :=
  if Z.eqb (zget k m) 0 then zset k (-1)%Z (fold_left (fun m' s => dec1 s m') (succs ps k) m) else m.

Definition dag_sweep (ps : list (string * string)) (keys : list string) (m : list (string * Z)) : list (string * Z) :=
  fold_left (dag_process1 ps) keys m.

Definition dag_final (ps : list (string * string)) (keys : list string) : list (string * Z) :=
  Nat.iter (S (List.length keys)) (dag_sweep ps keys) (map (fun k => (k, init_count ps k)) keys).

Definition validate_dag (g : gstate) : bool :=
  forallb (fun kv => Z.leb (snd kv) 0) (dag_final (ctrl_pairs g) (map fst (g_nodes g))).

(* ---- compile options (the ones that can make Compile fail) ---- *)
(* o_trigger: None = option not given, Some false = AnyPredecessor, Some true = AllPredecessor *)
Record copt : Type := mkOpt { o_trigger : option bool; o_max_steps : Z }.
Definition opt_default : copt := mkOpt None 0%Z.

(* a node whose input or output type is still unknown: a pass-through node that no data
   edge or branch has reached *)
Definition has_untyped (g : gstate) : bool :=
  existsb (fun kn => negb (n_in (snd kn)) || negb (n_out (snd kn))) (g_nodes g).

(* graph.compile *)
Definition g_compile (v : ver) (g : gstate) (o : copt) : gstate * outcome :=
  match g_err g with
  | Some e => (g, OErr e)
  | None =>
    let wf := match g_cmp g with CWorkflow => true | _ => false end in
    let chain_or_wf := match g_cmp g with CGraph => false | _ => true end in
    if chain_or_wf && is_some (o_trigger o) then (g, OErr ETriggerUnsupported)
    else
      let dag := match o_trigger o with Some true => true | _ => false end || wf in
      if is_nil (g_starts g) then (g, OErr ENoStart)
      else if is_nil (g_ends g) then (g, OErr ENoEnd)
      else if negb (is_nil (g_pending g)) then (g, OErr EUninferred)
      else if v_untyped_check v && has_untyped g then (g, OErr EUninferred)
      else if existsb (fun kf => has_dup (snd kf)) (g_fm g) then (g, OErr EDupMapTarget)
      else
        let converters := map fst (g_fm g) in
        (* v0 grew the builder's own map here, before the remaining checks *)
        let g1 := if v_prenode_copy v then g else set_h_prenode (g_h_prenode g ++ converters) g in
        if existsb (fun kn => nkind_eqb (n_kind (snd kn)) NSubBad) (g_nodes g) then (g1, OErr ENoStart)
        else if dag && negb (validate_dag g) then (g1, OErr EDagLoop)
        else if negb (v_untyped_check v) && has_untyped g then (g1, OPanic)
        else if dag && Z.ltb 0 (o_max_steps o) then (g1, OErr EMaxStepsDag)
        else
          let steps := if negb dag && Z.eqb (o_max_steps o) 0
                       then (Z.of_nat (List.length (g_nodes g)) + 10)%Z else o_max_steps o in
          let r := mkR (map (fun kn => (fst kn, n_kind (snd kn))) (g_nodes g))
                       (g_ctrl g) (g_data g) (g_branches g) dag wf steps
                       (if v_prenode_copy v then Some (g_h_prenode g ++ converters) else None) in
          (set_compiled true g1, OCompiled r)
  end.

(* ------------------------------------------------------------------ Graph front-end *)
Inductive gcall : Type :=
| GAddNode (k : string) (nk : nkind) (need_state nodekey_opt : bool)
| GAddEdge (s e : string)
| GAddBranch (s : string) (ends : list string)
| GCompile (o : copt).

Definition gstep (v : ver) (g : gstate) (c : gcall) : gstate * outcome :=
  match c with
  | GAddNode k nk ns nko => g_add_node g k nk ns nko false
  | GAddEdge s e => g_add_edge g s e false false []
  | GAddBranch s ends => g_add_branch g s ends false
  | GCompile o => g_compile v g o
  end.

(* ------------------------------------------------------------------ Chain front-end *)
Record cstate := mkC {
  c_err : option ecls;       (* Chain.err: first deferred error *)
  c_g : gstate;              (* Chain.gg *)
  c_idx : N;                 (* nodeIdx *)
  c_pre : list string;       (* preNodeKeys *)
  c_has_end : bool
}.
Definition c_init (has_state : bool) : cstate := mkC None (g_init CChain has_state) 0%N [] false.

Definition c_report (c : cstate) (e : ecls) : cstate :=
  match c_err c with None => mkC (Some e) (c_g c) (c_idx c) (c_pre c) (c_has_end c) | Some _ => c end.
Definition c_set_g (g : gstate) (c : cstate) : cstate := mkC (c_err c) g (c_idx c) (c_pre c) (c_has_end c).
Definition c_set_pre (p : list string) (c : cstate) : cstate := mkC (c_err c) (c_g c) (c_idx c) p (c_has_end c).
Definition c_bump (c : cstate) : cstate := mkC (c_err c) (c_g c) (c_idx c + 1)%N (c_pre c) (c_has_end c).
Definition c_set_has_end (b : bool) (c : cstate) : cstate := mkC (c_err c) (c_g c) (c_idx c) (c_pre c) b.

Definition err_of (o : outcome) : option ecls := match o with OErr e => Some e | _ => None end.

(* AddEdge(p, k) for every p, stopping at the first error *)
Fixpoint add_edges_from (g : gstate) (pres : list string) (k : string) : gstate * option ecls :=
  match pres with
  | [] => (g, None)
  | p :: rest =>
    let '(g', o) := g_add_edge g p k false false [] in
    match err_of o with Some e => (g', Some e) | None => add_edges_from g' rest k end
  end.

(* item of a Parallel / ChainBranch: (output key or branch key, kind, WithNodeKey) *)
Definition citem : Type := (string * nkind * option string)%type.

Inductive ccall : Type :=
| CAppend (nk : nkind) (key : option string) (need_state : bool)
| CParallel (items : list citem)
| CBranch (items : list citem)
| CCompile (o : copt).

(* Chain.addNode *)
Definition c_append (c : cstate) (nk : nkind) (key : option string) (need_state : bool) : cstate :=
  match c_err c with
  | Some _ => c
  | None =>
    if g_compiled (c_g c) then c_report c EChainCompiled
    else
      let dflt := "node_" +++ nat_str (c_idx c) in
      let c1 := c_bump c in
      let node_key := match key with Some k => k | None => dflt end in
      let '(g1, o) := g_add_node (c_g c1) node_key nk need_state (is_some key) false in
      match err_of o with
      | Some e => c_report (c_set_g g1 c1) e
      | None =>
        let pres := if is_nil (c_pre c1) then [START] else c_pre c1 in
        let c2 := c_set_pre pres (c_set_g g1 c1) in
        match add_edges_from g1 pres node_key with
        | (g2, Some e) => c_report (c_set_g g2 c2) e
        | (g2, None) => c_set_pre [node_key] (c_set_g g2 c2)
        end
      end
  end.

(* the single previous node a Parallel / ChainBranch hangs on *)
Definition c_start_node (c : cstate) : option string :=
  match c_pre c with
  | [] => Some START
  | [p] => Some p
  | _ => None
  end.

(* nodes of a Parallel, added one after the other with an edge from [start] *)
Fixpoint par_nodes (g : gstate) (start pref : string) (i : N) (items : list citem) (acc : list string)
  : gstate * list string * option ecls :=
  match items with
  | [] => (g, acc, None)
  | (_, nk, key) :: rest =>
    let node_key := match key with Some k => k | None => pref +++ "_parallel_" +++ nat_str i end in
    let '(g1, o1) := g_add_node g node_key nk false false true in
    match err_of o1 with
    | Some e => (g1, acc, Some e)
    | None =>
      let '(g2, o2) := g_add_edge g1 start node_key false false [] in
      match err_of o2 with
      | Some e => (g2, acc, Some e)
      | None => par_nodes g2 start pref (i + 1)%N rest (acc ++ [node_key])
      end
    end
  end.

(* Chain.AppendParallel (it does not look at c.err first) *)
Definition c_parallel (c : cstate) (items : list citem) : cstate :=
  if has_dup (map (fun it => fst (fst it)) items) then c_report c EParDupKey
  else if Nat.leb (List.length items) 1 then c_report c EParTooFew
  else
    match c_start_node c with
    | None => c_report c EParMultiPrev
    | Some start =>
      let pref := "node_" +++ nat_str (c_idx c) in
      let c1 := c_bump c in
      match par_nodes (c_g c1) start pref 0%N items [] with
      | (g', _, Some e) => c_report (c_set_g g' c1) e
      | (g', keys, None) => c_set_pre keys (c_set_g g' c1)
      end
    end.

(* nodes of a ChainBranch (iteration over a Go map: the items come sorted by branch key) *)
Fixpoint br_nodes (g : gstate) (pref : string) (items : list citem) (acc : list string)
  : gstate * list string * option ecls :=
  match items with
  | [] => (g, acc, None)
  | (bk, nk, key) :: rest =>
    let node_key := match key with Some k => k | None => pref +++ "_branch_" +++ bk end in
    let '(g1, o1) := g_add_node g node_key nk false false false in
    match err_of o1 with
    | Some e => (g1, acc, Some e)
    | None => br_nodes g1 pref rest (acc ++ [node_key])
    end
  end.

(* Chain.AppendBranch (it does not look at c.err first either) *)
Definition c_branch (c : cstate) (items : list citem) : cstate :=
  if has_dup (map (fun it => fst (fst it)) items) then c_report c EBrDupKey
  else match items with
  | [] => c_report c EBrEmpty
  | [_] => c_report c EBrOne
  | _ =>
    match c_start_node c with
    | None => c_report c EBrMultiPrev
    | Some start =>
      let pref := "node_" +++ nat_str (c_idx c) in
      let c1 := c_bump c in
      match br_nodes (c_g c1) pref items [] with
      | (g', _, Some e) => c_report (c_set_g g' c1) e
      | (g', keys, None) =>
        let '(g2, o) := g_add_branch g' start keys false in
        match err_of o with
        | Some e => c_report (c_set_g g2 c1) e
        | None => c_set_pre keys (c_set_g g2 c1)
        end
      end
    end
  end.

(* Chain.addEndIfNeeded + graph.compile *)
Definition c_compile (v : ver) (c : cstate) (o : copt) : cstate * outcome :=
  let pre : cstate * option ecls :=
    if negb (v_chain_err_first v) && c_has_end c then (c, None)   (* v0: hasEnd looked at first *)
    else match c_err c with
    | Some e => (c, Some e)
    | None =>
      if c_has_end c then (c, None) else
      if is_nil (c_pre c) then (c, Some EChainEmpty)
      else
        (fix ends (g : gstate) (ps : list string) : cstate * option ecls :=
           match ps with
           | [] => (c_set_has_end true (c_set_g g c), None)
           | p :: rest =>
             let '(g', oo) := g_add_edge g p END_ false false [] in
             match err_of oo with Some e => (c_set_g g' c, Some e) | None => ends g' rest end
           end) (c_g c) (c_pre c)
    end in
  match pre with
  | (c', Some e) => (c', OErr e)
  | (c', None) => let '(g', out) := g_compile v (c_g c') o in (c_set_g g' c', out)
  end.

Definition cstep (v : ver) (c : cstate) (call : ccall) : cstate * outcome :=
  match call with
  | CAppend nk key ns => (c_append c nk key ns, OOk)
  | CParallel items => (c_parallel c items, OOk)
  | CBranch items => (c_branch c items, OOk)
  | CCompile o => c_compile v c o
  end.

(* ------------------------------------------------------------------ Workflow front-end *)
Inductive wkind : Type := WNormal | WNoDirect | WDepOnly.
Record winput : Type := mkWI { wi_from : string; wi_kind : wkind; wi_fields : list string }.

(* WorkflowNode.mappedFieldPath for single-segment target paths *)
Inductive mapped : Type := MNone | MWhole | MFields (fs : list string).

(* wn_static: fields given a static value (SetStaticValue) that no Compile has applied yet *)
Record wnode : Type := mkWN { wn_pending : list winput; wn_mapped : mapped; wn_static : list string }.

Record wstate := mkW {
  w_g : gstate;
  w_nodes : list (string * wnode);            (* workflowNodes *)
  w_branches : list (string * list string)    (* workflowBranches: from, end nodes *)
}.
Definition w_init (has_state : bool) : wstate := mkW (g_init CWorkflow has_state) [] [].
Definition w_set_g (g : gstate) (w : wstate) : wstate := mkW g (w_nodes w) (w_branches w).
Definition w_set_nodes (n : list (string * wnode)) (w : wstate) : wstate := mkW (w_g w) n (w_branches w).

(* checkAndAddMappedPath, paths of length one; the state keeps what was added before a conflict *)
Fixpoint add_fields (have : list string) (fs : list string) : list string * option ecls :=
  match fs with
  | [] => (have, None)
  | f :: rest => if smem f have then (have, Some EMapConflict) else add_fields (have ++ [f]) rest
  end.

Definition check_mapped (m : mapped) (fs : list string) : mapped * option ecls :=
  match m with
  | MWhole => (m, Some EMapped)
  | MNone =>
    match fs with
    | [] => (MWhole, None)
    | _ => let '(have, e) := add_fields [] fs in (MFields have, e)
    end
  | MFields have =>
    match fs with
    | [] => (m, Some EMapped)   (* mapping the whole input after some of its fields *)
    | _ => let '(have', e) := add_fields have fs in (MFields have', e)
    end
  end.

(* one deferred addInput closure of node [k] *)
Definition run_input (g : gstate) (k : string) (m : mapped) (i : winput) : gstate * mapped * option ecls :=
  match wi_kind i with
  | WDepOnly =>
    let '(g', o) := g_add_edge g (wi_from i) k false true [] in (g', m, err_of o)
  | WNormal =>
    match check_mapped m (wi_fields i) with
    | (m', Some e) => (g, m', Some e)
    | (m', None) => let '(g', o) := g_add_edge g (wi_from i) k false false (wi_fields i) in (g', m', err_of o)
    end
  | WNoDirect =>
    match check_mapped m (wi_fields i) with
    | (m', Some e) => (g, m', Some e)
    | (m', None) => let '(g', o) := g_add_edge g (wi_from i) k true false (wi_fields i) in (g', m', err_of o)
    end
  end.

Fixpoint run_inputs (g : gstate) (k : string) (m : mapped) (is : list winput) : gstate * mapped * option ecls :=
  match is with
  | [] => (g, m, None)
  | i :: rest =>
    match run_input g k m i with
    | (g', m', Some e) => (g', m', Some e)
    | (g', m', None) => run_inputs g' k m' rest
    end
  end.

(* process the nodes named in [order] one after the other; a node whose inputs all
   succeeded gets its pending list cleared, the first failure aborts the compile *)
Fixpoint run_nodes (w : wstate) (order : list string) : wstate * option ecls :=
  match order with
  | [] => (w, None)
  | k :: rest =>
    match alist_get k (w_nodes w) with
    | None => run_nodes w rest
    | Some n =>
      match run_inputs (w_g w) k (wn_mapped n) (wn_pending n) with
      | (g', m', Some e) => (w_set_nodes (alist_set k (mkWN (wn_pending n) m' (wn_static n)) (w_nodes w)) (w_set_g g' w), Some e)
      | (g', m', None) => run_nodes (w_set_nodes (alist_set k (mkWN [] m' (wn_static n)) (w_nodes w)) (w_set_g g' w)) rest
      end
    end
  end.

(* the deferred AddBranch calls *)
Fixpoint run_branches (v : ver) (w : wstate) (bs : list (string * list string)) : wstate * option outcome :=
  match bs with
  | [] => (w, None)
  | (from, ends) :: rest =>
    let missing := existsb (fun e => negb (String.eqb e END_) && negb (is_some (alist_get e (w_nodes w)))) ends in
    if missing then
      if v_branch_check v then (w_set_g (set_err (Some EBranchEndUnknown) (w_g w)) w, Some (OErr EBranchEndUnknown))
      else (w, Some OPanic)
    else
      let '(g', _) := g_add_branch (w_g w) from ends true in
      run_branches v (w_set_g g' w) rest
  end.

Inductive wcall : Type :=
| WAddNode (k : string) (nk : nkind) (need_state : bool)
| WAddInput (to from : string) (kind : wkind) (fields : list string)
| WAddBranch (from : string) (ends : list string)
| WAddEnd (from : string) (fields : list string)
| WSetStatic (k : string) (field : string)
| WCompile (o : copt) (ord sord : list string).

(* the handlers the static values of node [k] put before it: the merge handler in front and — when
   no field mapping has been recorded for the node (repair 3dbf7fb: its input consists of the static
   values alone) and the node has a type — the converter from the map of values to the node's input
   type at the end *)
Definition static_handlers (g : gstate) (k : string) : list string :=
  k :: g_h_prenode g
  ++ (if match alist_get k (g_fm g) with Some (_ :: _) => false | _ => true end && in_typed g k then [k] else []).

(* the static values of the nodes named in [order], one node after the other: their paths
   are entered in the node's mapped paths, a handler is put in front of the node's
   pre-handlers, and (repaired version) they are consumed; a node whose static values are
   still waiting in a compiled workflow makes the Compile fail (repaired version) *)
Fixpoint run_statics (v : ver) (w : wstate) (order : list string) : wstate * option ecls :=
  match order with
  | [] => (w, None)
  | k :: rest =>
    match alist_get k (w_nodes w) with
    | None => run_statics v w rest
    | Some n =>
      match wn_static n with
      | [] => run_statics v w rest
      | fs =>
        if v_static_once v && g_compiled (w_g w) then (w, Some ECompiled)
        else
          match check_mapped (wn_mapped n) fs with
          | (m', Some e) => (w_set_nodes (alist_set k (mkWN (wn_pending n) m' fs) (w_nodes w)) w, Some e)
          | (m', None) =>
            run_statics v
              (w_set_nodes (alist_set k (mkWN (wn_pending n) m' (if v_static_once v then [] else fs)) (w_nodes w))
                 (w_set_g (set_h_prenode (static_handlers (w_g w) k) (w_g w)) w))
              rest
          end
      end
    end
  end.

(* Workflow.compile; [ord] / [sord]: the nodes Go's map iteration happens to visit first in
   the loop over the deferred inputs / in the loop over the static values *)
Definition w_compile (v : ver) (w : wstate) (o : copt) (ord sord : list string) : wstate * outcome :=
  match g_err (w_g w) with
  | Some e => (w, OErr e)
  | None =>
    match run_branches v w (w_branches w) with
    | (w1, Some out) => (w1, out)
    | (w1, None) =>
      match run_nodes w1 (ord ++ map fst (w_nodes w1)) with
      | (w2, Some e) => (w2, OErr e)
      | (w2, None) =>
        match run_statics v w2 (sord ++ map fst (w_nodes w2)) with
        | (w3, Some e) => (w3, OErr e)
        | (w3, None) => let '(g', out) := g_compile v (w_g w3) o in (w_set_g g' w3, out)
        end
      end
    end
  end.

(* WorkflowNode.AddInput / AddInputWithOptions / AddDependency on the handle of node [to]
   (End() creates END's handle on first use): the input is only recorded, Compile adds it *)
Definition w_add_input (w : wstate) (to from : string) (kind : wkind) (fs : list string) : wstate * outcome :=
  let nodes := if String.eqb to END_ && negb (is_some (alist_get to (w_nodes w)))
               then alist_set to (mkWN [] MNone []) (w_nodes w) else w_nodes w in
  match alist_get to nodes with
  | None => (w, OOk)      (* no handle to call AddInput on: not expressible in Go *)
  | Some n =>
    (w_set_nodes (alist_set to (mkWN (wn_pending n ++ [mkWI from kind fs]) (wn_mapped n) (wn_static n)) nodes) w, OOk)
  end.

Definition wstep (v : ver) (w : wstate) (call : wcall) : wstate * outcome :=
  match call with
  | WAddNode k nk ns =>
    let '(g', _) := g_add_node (w_g w) k nk ns false false in
    (w_set_nodes (alist_set k (mkWN [] MNone []) (w_nodes w)) (w_set_g g' w), OOk)
  | WAddInput to from kind fs => w_add_input w to from kind fs
  | WAddBranch from ends => (mkW (w_g w) (w_nodes w) (w_branches w ++ [(from, ends)]), OOk)
  | WAddEnd from fs =>
    (* the deprecated AddEnd is End().AddInput (since the repair d4925e3: before, it added the
       edge at once, outside END's check for overlapping mappings) *)
    w_add_input w END_ from WNormal fs
  | WSetStatic k f =>
    let nodes := if String.eqb k END_ && negb (is_some (alist_get k (w_nodes w)))
                 then alist_set k (mkWN [] MNone []) (w_nodes w) else w_nodes w in
    match alist_get k nodes with
    | None => (w, OOk)      (* no handle *)
    | Some n =>
      (w_set_nodes (alist_set k (mkWN (wn_pending n) (wn_mapped n)
                                      (if smem f (wn_static n) then wn_static n else wn_static n ++ [f])) nodes) w, OOk)
    end
  | WCompile o ord sord => w_compile v w o ord sord
  end.

(* ------------------------------------------------------------------ running call sequences *)
Section Run.
  Context {S C : Type} (step : S -> C -> S * outcome).
  Fixpoint run_calls (s : S) (cs : list C) : S * list outcome :=
    match cs with
    | [] => (s, [])
    | c :: rest =>
      let '(s1, o) := step s c in
      let '(s2, os) := run_calls s1 rest in (s2, o :: os)
    end.
  Definition final (s : S) (cs : list C) : S := fst (run_calls s cs).
End Run.
