(* Model/EagerSkip.v — property C03, eager mode (Workflow) with branches: the order side of
   Model/Confluence.v extended by what compose/dag.go and compose/graph_run.go do for branches.

   dagChannel (dag.go): per (target, control predecessor) a state Waiting / Ready / Skipped, the
   last report wins (reportSkip writes Skipped, reportDependencies writes Ready unless the channel
   is already skipped); per (target, data predecessor) a flag set by a value or by a skip report;
   the channel's Skipped flag is recomputed at every skip report (all control predecessors
   Skipped) and, once set, makes the channel ignore values and dependencies.  get: not skipped, no
   control predecessor waiting, every data predecessor flagged; the merge of the values present;
   the channel is reset (the Skipped flag stays).
   calculateBranch / resolveCompletedTasks / reportBranch (graph_run.go, graph_manager.go): the ends
   of the completed node's branches that no branch selects - and, since fix 665541a, that are not
   its direct successors - are reported as skipped; a channel that becomes skipped reports the skip
   to all its successors (work list); then the values and dependencies are written (direct
   successors and selected ends become Ready); END skipped = the run fails ("unknown node").
   Workflow branches carry no data.  [fixed = false] is the code before 665541a.
   Edge kinds of a Workflow (round 4): an ordinary edge (WorkflowNode.AddInput) is a data and a control
   edge - the [n_preds] of a node; AddDependency is a control edge only ([sg_ctl]: the source is among
   the ControlPredecessors of the target's channel and the target among the source's chanCall.controls,
   no value is written); AddInputWithOptions(.., WithNoDirectDependency()) is a data edge only ([sg_dat]:
   DataPredecessors / chanCall.writeTo).  successors = writeTo ++ controls ++ branch ends.

   Definitions only; proofs in Proofs/EagerSkip.v. *)
From Eino Require Import Base.Util Model.Confluence.

(* a branch: source, end nodes, the end nodes its (deterministic) condition selects *)
Record br := mkbr { br_from : nid; br_ends : list nid; br_sel : list nid }.
(* [sg_ctl], [sg_dat]: the control-only / data-only edges as (target, source) pairs *)
Record sgraph := mksg { sg_nodes : graph; sg_brs : list br; sg_ctl : list (nid * nid); sg_dat : list (nid * nid) }.

Inductive cst := CReady | CSkip.
Record sstate := mkss {
  ss_vals : list (key2 * val);          (* Values, keyed (target, source) *)
  ss_ctl : list (key2 * cst);           (* ControlPredecessors other than Waiting; newest first *)
  ss_dsk : list key2;                   (* DataPredecessors flagged by a skip report *)
  ss_skn : list nid;                    (* channels with Skipped = true *)
}.
Definition sinit : sstate := mkss [] [] [] [].

Fixpoint cfind (k : key2) (m : list (key2 * cst)) : option cst :=
  match m with
  | [] => None
  | (k', c) :: m' => if k2eqb k k' then Some c else cfind k m'
  end.

(* branch sources that have n among their ends *)
Definition br_srcs (G : sgraph) (n : nid) : list nid :=
  map br_from (filter (fun b => nmem n (br_ends b)) (sg_brs G)).
Definition srcs_of (es : list (nid * nid)) (n : nid) : list nid :=
  map snd (filter (fun e => N.eqb (fst e) n) es).
Fixpoint ins (x : nid) (l : list nid) : list nid :=
  match l with
  | [] => [x]
  | y :: l' => if N.leb x y then x :: l else y :: ins x l'
  end.
(* control predecessors: the ordinary edges, the control-only edges and the branch sources *)
Definition cpreds (G : sgraph) (n : node) : list nid :=
  n_preds n ++ srcs_of (sg_ctl G) (n_id n) ++ br_srcs G (n_id n).
(* data predecessors, in key order: the ordinary edges and the data-only edges *)
Definition dpreds (G : sgraph) (n : node) : list nid :=
  fold_right ins (n_preds n) (srcs_of (sg_dat G) (n_id n)).
(* c.successors[c]: every node that has c as a control or data predecessor *)
Definition ssuccs (G : sgraph) (c : nid) : list nid :=
  map n_id (filter (fun n => nmem c (cpreds G n) || nmem c (dpreds G n)) (sg_nodes G)).
Definition find_node (G : sgraph) (x : nid) : option node :=
  find (fun n => N.eqb (n_id n) x) (sg_nodes G).

Definition is_skip (o : option cst) : bool := match o with Some CSkip => true | _ => false end.
Definition all_skipped (G : sgraph) (s : sstate) (n : node) : bool :=
  forallb (fun c => is_skip (cfind (n_id n, c) (ss_ctl s))) (cpreds G n).

(* dagChannel.reportSkip([from]) on the channel of t; returns whether the channel is skipped now *)
Definition skip_report (G : sgraph) (s : sstate) (t from : nid) : sstate * bool :=
  match find_node G t with
  | None => (s, false)
  | Some n =>
      let ctl' := if nmem from (cpreds G n) then ((t, from), CSkip) :: ss_ctl s else ss_ctl s in
      let dsk' := if nmem from (dpreds G n) then (t, from) :: ss_dsk s else ss_dsk s in
      let s1 := mkss (ss_vals s) ctl' dsk' (ss_skn s) in
      let sk := all_skipped G s1 n in
      (mkss (ss_vals s) ctl' dsk' (if sk then (if nmem t (ss_skn s) then ss_skn s else t :: ss_skn s)
                                   else filter (fun x => negb (N.eqb x t)) (ss_skn s)), sk)
  end.

(* channelManager.reportBranch: the work list of newly skipped nodes; a node is queued when its
   channel was not skipped before the report and is after it (fa983c2) *)
Fixpoint propagate (G : sgraph) (fuel : nat) (work : list (nid * nid)) (s : sstate) : sstate :=
  match fuel with
  | O => s
  | S f =>
      match work with
      | [] => s
      | (t, from) :: work' =>
          let was := nmem t (ss_skn s) in
          let '(s', sk) := skip_report G s t from in
          if sk && negb was
          then propagate G f (work' ++ map (fun m => (m, t)) (ssuccs G t)) s'
          else propagate G f work' s'
      end
  end.

Definition sel_of (G : sgraph) (c : nid) : list nid :=
  flat_map br_sel (filter (fun b => N.eqb (br_from b) c) (sg_brs G)).
Definition ends_of (G : sgraph) (c : nid) : list nid :=
  flat_map br_ends (filter (fun b => N.eqb (br_from b) c) (sg_brs G)).
(* chanCall.controls / chanCall.writeTo of c: its successors by a control edge / by a data edge *)
Definition csuccs (G : sgraph) (c : nid) : list nid :=
  map n_id (filter (fun n => nmem c (n_preds n) || nmem c (srcs_of (sg_ctl G) (n_id n))) (sg_nodes G)).
Definition dsuccs (G : sgraph) (c : nid) : list nid :=
  map n_id (filter (fun n => nmem c (dpreds G n)) (sg_nodes G)).

(* the ends to report as skipped when c completes *)
Definition unselected (fixed : bool) (G : sgraph) (c : nid) : list nid :=
  filter (fun e => negb (nmem e (sel_of G c)) && negb (fixed && nmem e (csuccs G c))) (ends_of G c).

Definition prop_fuel (G : sgraph) : nat :=
  S (List.length (sg_nodes G)) * S (List.length (sg_nodes G) + List.length (sg_brs G)).

(* one completed task (c, v): skip reports, then values, then dependencies *)
Definition sreport (fixed : bool) (G : sgraph) (s : sstate) (cv : nid * val) : sstate :=
  let c := fst cv in
  let s1 := propagate G (prop_fuel G) (map (fun u => (u, c)) (unselected fixed G c)) s in
  let live := fun t => negb (nmem t (ss_skn s1)) in
  let vs := map (fun d => ((d, c), snd cv)) (filter live (dsuccs G c)) in
  let ds := map (fun d => ((d, c), CReady)) (filter live (csuccs G c ++ sel_of G c)) in
  mkss (vs ++ ss_vals s1) (ds ++ ss_ctl s1) (ss_dsk s1) (ss_skn s1).

Definition sready (G : sgraph) (s : sstate) (n : node) : bool :=
  negb (nmem (n_id n) (ss_skn s)) &&
  match cpreds G n ++ dpreds G n with [] => false | _ => true end &&   (* no predecessor at all: skipped up front *)
  forallb (fun c => match cfind (n_id n, c) (ss_ctl s) with Some _ => true | None => false end) (cpreds G n) &&
  forallb (fun d => match vfind (n_id n, d) (ss_vals s) with Some _ => true | None => dmem (n_id n, d) (ss_dsk s) end)
          (dpreds G n).

Definition sget_input (G : sgraph) (s : sstate) (n : node) : val :=
  flat_map (fun p => match vfind (n_id n, p) (ss_vals s) with Some v => v | None => [] end) (dpreds G n).

Definition sclear (s : sstate) (n : nid) : sstate :=
  mkss (filter (fun kv => negb (N.eqb (fst (fst kv)) n)) (ss_vals s))
       (filter (fun kc => negb (N.eqb (fst (fst kc)) n)) (ss_ctl s))
       (filter (fun k => negb (N.eqb (fst k) n)) (ss_dsk s))
       (ss_skn s).

Inductive snext := SReturn (v : val) | SFail | STasks (ts : list (node * val)) (s : sstate).

(* calculateNextTasks on one completed task *)
Definition scalc_next (fixed : bool) (G : sgraph) (s : sstate) (cv : nid * val) : snext :=
  let s1 := sreport fixed G s cv in
  if nmem END (ss_skn s1) then SFail else
  let rs := filter (sready G s1) (sg_nodes G) in
  let ts := map (fun n => (n, sget_input G s1 n)) rs in
  match find is_end ts with
  | Some (_, v) => SReturn v
  | None => STasks ts (fold_left sclear (map n_id rs) s1)
  end.

Fixpoint srun_eager (fixed : bool) (pick : list (node * val) -> nat) (G : sgraph) (fuel : nat)
         (s : sstate) (running : list (node * val)) (log : exec_log) : outcome * exec_log * list nid :=
  match fuel with
  | O => (OFuel, log, ids_of running)
  | S f =>
      let i := Nat.modulo (pick running) (List.length running) in
      match nth_error running i with
      | None => (OFail, log, [])
      | Some t =>
          if failed t then (OFail, log, ids_of (remove_nth i running)) else
          match scalc_next fixed G s (run_task t) with
          | SReturn v => (ODone v, log, ids_of (remove_nth i running))
          | SFail => (OFail, log, ids_of (remove_nth i running))
          | STasks ts s' =>
              if existsb prefail ts then (OFail, log, ids_of (remove_nth i running))   (* submit fails *)
              else srun_eager fixed pick G f s' (remove_nth i running ++ ts) (log ++ log_of ts)
          end
      end
  end.

Definition seager (fixed : bool) (pick : list (node * val) -> nat) (G : sgraph) (fuel : nat)
  : outcome * exec_log * list nid :=
  match scalc_next fixed G sinit (START, input_val) with
  | SReturn v => (ODone v, [], [])
  | SFail => (OFail, [], [])
  | STasks ts s => if existsb prefail ts then (OFail, [], []) else srun_eager fixed pick G fuel s ts (log_of ts)
  end.
