(* Model/StreamResume.v — property C19, run level with interrupts: every way a streaming run of
   compose/graph_run.go (runner.run, isStream = true) can end, over the run-loop model of
   Model/StreamRun.v.

   One CALL of runner.run is the pass of the START pseudo task (first call only) followed by the
   passes of its main loop, each a batch of completed tasks.  A call ends
     - with END in the ready map of calculateNextTasks (graph_run.go:251, :340)              [SDone]
     - with an interrupt of the graph: after calculateNextTasks a new task is an interrupt-before
       node or a completed task an interrupt-after node (graph_run.go:257, :344-387): the run waits
       for every task still running (tm.waitAll: eager mode only), calculates the next tasks once
       more — which may reach END: the run then returns the result and the interrupt is forgotten
       (:379) — and leaves through handleInterrupt                                            [SInt]
     - with an interrupt of a task: a completed task returned InterruptAndRerun or is a nested
       graph that was interrupted itself (:296-328 in the first round, :351-372 in the second): the
       other completed tasks are resolved into the channels (no getFromReadyChannels), the
       interrupted tasks stay pending with an empty stream as their input
       (handleInterruptWithSubGraphAndRerunNodes)                                             [SInt]
   In both interrupt exits checkPointer.convertCheckPoint concatenates (drains and closes) every
   stream stored in a channel and every input of the pending tasks.
   The next call with the same checkpoint id restores the checkpoint (restoreCheckPoint: every stored
   value becomes a fresh one-chunk stream; loadChannels; restoreTasks: the pending tasks get fresh
   input streams), closes the input it was called with (56b8ed6) and continues with the main loop.

   The interrupt configuration (interruptBeforeNodes / interruptAfterNodes), the graph, the batches of
   every call with the tasks that interrupted themselves, and the branch outcomes are the inputs;
   whether and how a pass interrupts is computed.  Executable definitions only. *)
From Eino Require Import Base.Util Model.StreamAcct Model.StreamRun.
Open Scope N_scope.

Record icfg := { i_before : list key; i_after : list key }.
Definition icfg0 : icfg := {| i_before := []; i_after := [] |}.

(* one call of runner.run as the task-manager trace shows it: the batches wait() / waitAll() returned,
   each with those of its tasks that ended with an interrupt of their own (InterruptAndRerun, or a
   nested graph that was interrupted) *)
Definition rbatch : Type := batch * list key.
Definition seg : Type := list rbatch.

(* getHitKey(nextTasks, r.interruptBeforeNodes) is not empty *)
Definition hit_before (cfg : icfg) (ready : list (key * handle)) : bool :=
  existsb (fun kh => memb (fst kh) (i_before cfg)) ready.
(* resolveInterruptCompletedTasks: a completed task is an interrupt-after node *)
Definition hit_after (cfg : icfg) (b : batch) : bool :=
  existsb (fun ko => memb (fst ko) (i_after cfg)) b.

Inductive sout :=
| SRunning (st : rstate)                                             (* the schedule ends before the call returns *)
| SDone (out : handle) (dropped : list (key * handle)) (st : rstate) (* the call returns the output stream *)
| SInt (ready : list (key * handle)) (rr : list key) (st : rstate).  (* the call leaves through an interrupt exit:
                                                                        inputs of the tasks about to start, tasks to rerun *)

Definition not_end (kh : key * handle) : bool := negb (N.eqb (fst kh) kEND).

(* tm.waitAll() in the interrupt branch returns every task still running *)
Definition fits_all (b : batch) (inflight : list key) : bool :=
  let ks := map fst b in
  nodup_keys ks && forallb (fun k => memb k inflight) ks && Nat.eqb (List.length ks) (List.length inflight).

(* the completed tasks that interrupted themselves / the others *)
Definition reruns_of (rr : list key) (b : batch) : list key := filter (fun k => memb k rr) (map fst b).
Definition others_of (rr : list key) (b : batch) : batch := filter (fun ko => negb (memb (fst ko) rr)) b.

Inductive pout := PNext (st : rstate) | PEnd (o : sout).

(* the pass of the START pseudo task (graph_run.go:243-259): only the interrupt-before test, no second round *)
Definition first_pass (g : graph) (cfg : icfg) (b : batch) (st : rstate) : res pout :=
  do r <- calc_next g b st;
  let '(ready1, st4) := r in
  match nlist_get kEND ready1 with
  | Some out => Ok (PEnd (SDone out (filter not_end ready1) st4))
  | None =>
      if hit_before cfg ready1 then Ok (PEnd (SInt ready1 [] st4))
      else
        do s <- consume_all (map snd ready1) (rs_store st4);
        Ok (PNext (set_store st4 s))
  end.

(* one pass of the main loop on the batch [b] wait() returned, [rr] those of its tasks that interrupted
   themselves.  [rest]: the batches recorded after this one in the same call — when the pass
   interrupts they are the tasks collected by waitAll *)
Definition pass (g : graph) (cfg : icfg) (rr : list key) (b : batch) (rest : list rbatch) (st : rstate) : res pout :=
  let b2 := List.concat (map fst rest) in
  let rr2 := List.concat (map snd rest) in
  match reruns_of rr b with
  | _ :: _ =>
      (* graph_run.go:301-328: waitAll, then handleInterruptWithSubGraphAndRerunNodes *)
      if negb (batch_fits g b (rs_pending st)) then Err E_BAD_SCHEDULE else
      if negb (fits_all b2 (remove_keys (map fst b) (rs_pending st))) then Err E_BAD_SCHEDULE else
      do st' <- resolve_phases g (others_of rr b ++ others_of rr2 b2) st;
      Ok (PEnd (SInt [] (reruns_of rr b ++ reruns_of rr2 b2) st'))
  | [] =>
      do r <- calc_next g b st;
      let '(ready1, st4) := r in
      match nlist_get kEND ready1 with
      | Some out =>
          match rest with
          | [] => Ok (PEnd (SDone out (filter not_end ready1) st4))
          | _ :: _ => Err E_BAD_SCHEDULE
          end
      | None =>
          if hit_before cfg ready1 || hit_after cfg b then
            if negb (fits_all b2 (remove_keys (map fst ready1) (rs_pending st4))) then Err E_BAD_SCHEDULE else
            match reruns_of rr2 b2 with
            | _ :: _ =>
                (* :351-372: the tasks created by the first round stay pending with their inputs *)
                do st5 <- resolve_phases g (others_of rr2 b2) st4;
                Ok (PEnd (SInt ready1 (reruns_of rr2 b2) st5))
            | [] =>
                do r2 <- calc_body g b2 st4;
                let '(ready2, st5) := r2 in
                match nlist_get kEND ready2 with
                | Some out => Ok (PEnd (SDone out (ready1 ++ filter not_end ready2) st5))
                | None => Ok (PEnd (SInt (ready1 ++ ready2) [] st5))
                end
            end
          else
            (* createTasks / tm.submit: every ready value is handed to its node *)
            do s <- consume_all (map snd ready1) (rs_store st4);
            Ok (PNext (set_store st4 s))
      end
  end.

(* the main loop of one call *)
Fixpoint seg_loop (g : graph) (cfg : icfg) (bs : seg) (st : rstate) : res sout :=
  match bs with
  | [] => Ok (SRunning st)
  | (b, rr) :: rest =>
      do p <- pass g cfg rr b rest st;
      match p with
      | PNext st' => seg_loop g cfg rest st'
      | PEnd o => Ok o
      end
  end.

(* ------------------------------------------------------------------ checkpoint round trip *)
Fixpoint index_of (h : handle) (l : list handle) : N :=
  match l with
  | [] => 0
  | x :: l' => if N.eqb h x then 0 else 1 + index_of h l'
  end.

Definition map_vals (f : handle -> handle) (c : chan) : chan :=
  {| ch_ctrl := ch_ctrl c; ch_data := ch_data c; ch_vals := fun p => option_map f (ch_vals c p); ch_skipped := ch_skipped c |}.

(* a fresh stream that its consumer takes at once *)
Definition fresh_taken (s : store) : res store := let '(h, s1) := fresh s in consume h s1.
Fixpoint fresh_taken_n (n : nat) (s : store) : res store :=
  match n with
  | O => Ok s
  | S n' => do s1 <- fresh_taken s; fresh_taken_n n' s1
  end.

Definition log_interrupt (drains : nat) (l : rlog) : rlog :=
  {| l_resolve_closes := l_resolve_closes l; l_update_closes := l_update_closes l;
     l_chan_closes := l_chan_closes l; l_skip_closes := l_skip_closes l;
     l_merges := l_merges l; l_empties := l_empties l; l_fired := l_fired l;
     l_cp_drains := l_cp_drains l + drains; l_input_closes := l_input_closes l + 1 |}.

(* restoreCheckPoint on the channels: the k-th stored value comes back as the k-th fresh stream *)
Definition restore_store (base : N) (n : nat) (s : store) : store :=
  {| s_next := base + N.of_nat n; s_open := s_open s ++ fresh_handles base n; s_log := s_log s;
     s_hist := map HFresh (rev (fresh_handles base n)) ++ s_hist s |}.

(* the interrupt exit: the tasks to rerun get an empty stream as their input (inputEmptyStream),
   convertCheckPoint concatenates every stored stream and every input; the call returns the interrupt;
   the next call: restoreCheckPoint, loadChannels, restoreTasks (the inputs of the pending tasks are
   fresh streams handed to the tasks at once), the ignored input of the call is closed *)
Definition suspend_resume (g : graph) (ready : list (key * handle)) (rr : list key) (st : rstate) : res rstate :=
  let hs := held g st in
  do s <- checkpoint_drain g ready st;
  do s0 <- fresh_taken_n (List.length rr) s;
  let base := s_next s0 in
  let s1 := restore_store base (List.length hs) s0 in
  do s2 <- fresh_taken_n (List.length ready + List.length rr + 1) s1;
  Ok {| rs_store := s2;
        rs_chans := fun x => map_vals (fun h => base + index_of h hs) (rs_chans st x);
        rs_pending := rs_pending st; rs_resolved := rs_resolved st;
        rs_log := log_interrupt (List.length hs + List.length ready + List.length rr) (rs_log st) |}.

(* ------------------------------------------------------------------ the calls of one run *)
(* the calls that follow an interrupted one: [st] is the state the next call starts its main loop in.
   Returns how the run ended, the number of calls made and the calls that were not used *)
Fixpoint calls (g : graph) (cfg : icfg) (tms : list seg) (n : nat) (st : rstate) : res (sout * nat * list seg) :=
  match tms with
  | [] => Ok (SRunning st, n, [])
  | tm :: more =>
      do o <- seg_loop g cfg tm st;
      match o with
      | SInt ready rr st5 =>
          match more with
          | [] => Ok (o, S n, [])
          | _ :: _ => do st6 <- suspend_resume g ready rr st5; calls g cfg more (S n) st6
          end
      | _ => Ok (o, S n, more)
      end
  end.

(* one run: the pass of START's pseudo task [start], then the calls [tms].  A first call that ends in
   that pass (END reached, or an interrupt-before node among the first tasks) has no task-manager
   trace: the first of [tms] is then the next call *)
Definition run_one (g : graph) (cfg : icfg) (start : batch) (tms : list seg) : res (sout * nat * list seg) :=
  do st0 <- init_state g;
  do p <- first_pass g cfg start st0;
  match p with
  | PEnd (SInt ready rr st5) =>
      match tms with
      | [] => Ok (SInt ready rr st5, 1%nat, [])
      | _ :: _ => do st6 <- suspend_resume g ready rr st5; calls g cfg tms 1%nat st6
      end
  | PEnd o => Ok (o, 1%nat, tms)
  | PNext st' =>
      match tms with
      | [] => Ok (SRunning st', 1%nat, [])
      | tm :: more =>
          do o <- seg_loop g cfg tm st';
          match o with
          | SInt ready rr st5 =>
              match more with
              | [] => Ok (o, 1%nat, [])
              | _ :: _ => do st6 <- suspend_resume g ready rr st5; calls g cfg more 1%nat st6
              end
          | _ => Ok (o, 1%nat, more)
          end
      end
  end.

(* the run of the top-level graph: every recorded call belongs to it *)
Definition run_int (g : graph) (cfg : icfg) (start : batch) (tms : list seg) : res sout :=
  do r <- run_one g cfg start tms;
  let '(o, _, unused) := r in
  match unused with
  | [] => Ok o
  | _ :: _ => Err E_BAD_SCHEDULE
  end.

(* the successive runs of a nested graph (one per execution of its node): run k starts with the k-th
   START pass and takes the calls it needs from the recorded ones *)
Fixpoint run_many (g : graph) (cfg : icfg) (starts : list batch) (tms : list seg) : res (list (sout * nat)) :=
  match starts with
  | [] => match tms with [] => Ok [] | _ :: _ => Err E_BAD_SCHEDULE end
  | s :: starts' =>
      do r <- run_one g cfg s tms;
      let '(o, n, unused) := r in
      do l <- run_many g cfg starts' unused;
      Ok ((o, n) :: l)
  end.
