(* Model/StreamResume.v — property C19, run level with interrupts: every way a streaming run of
   compose/graph_run.go (runner.run, isStream = true) can end, over the run-loop model of
   Model/StreamRun.v.

   One CALL of runner.run is a SEGMENT: the passes of its main loop, each a batch of completed tasks
   (the START pseudo task first in the first call).  A segment ends
     - with END in the ready map of calculateNextTasks (graph_run.go:251, :340)              [SDone]
     - with an interrupt: after calculateNextTasks a new task is an interrupt-before node or a
       completed task an interrupt-after node (graph_run.go:257, :344-387): the run waits for every
       task still running (tm.waitAll: eager mode only), calculates the next tasks once more —
       which may reach END: the run then returns the result and the interrupt is forgotten (:379) —
       and leaves through handleInterrupt: checkPointer.convertCheckPoint concatenates (drains and
       closes) every stream stored in a channel and every input of the tasks about to start  [SInt]
   The next call with the same checkpoint id restores the checkpoint (restoreCheckPoint: every stored
   value becomes a fresh one-chunk stream; loadChannels; restoreTasks: the pending tasks get fresh
   input streams), closes the input it was called with (56b8ed6) and continues with the main loop.

   The interrupt configuration (interruptBeforeNodes / interruptAfterNodes), the graph, the
   segments and the branch outcomes are the inputs; whether a pass interrupts is computed.
   Executable definitions only. *)
From Eino Require Import Base.Util Model.StreamAcct Model.StreamRun.
Open Scope N_scope.

Record icfg := { i_before : list key; i_after : list key }.
Definition icfg0 : icfg := {| i_before := []; i_after := [] |}.

(* getHitKey(nextTasks, r.interruptBeforeNodes) is not empty *)
Definition hit_before (cfg : icfg) (ready : list (key * handle)) : bool :=
  existsb (fun kh => memb (fst kh) (i_before cfg)) ready.
(* resolveInterruptCompletedTasks: a completed task is an interrupt-after node *)
Definition hit_after (cfg : icfg) (b : batch) : bool :=
  existsb (fun ko => memb (fst ko) (i_after cfg)) b.

Inductive sout :=
| SRunning (st : rstate)                                             (* the schedule ends before the call returns *)
| SDone (out : handle) (dropped : list (key * handle)) (st : rstate) (* the call returns the output stream *)
| SInt (ready : list (key * handle)) (st : rstate).                  (* the call leaves through handleInterrupt *)

Definition not_end (kh : key * handle) : bool := negb (N.eqb (fst kh) kEND).

(* tm.waitAll() in the interrupt branch returns every task still running *)
Definition fits_all (b : batch) (inflight : list key) : bool :=
  let ks := map fst b in
  nodup_keys ks && forallb (fun k => memb k inflight) ks && Nat.eqb (List.length ks) (List.length inflight).

Inductive pout := PNext (st : rstate) | PEnd (o : sout).

(* one pass: calculateNextTasks(completedTasks) and what follows it.  [first]: the pass of the START
   pseudo task (graph_run.go:243-259: only the interrupt-before test, no second round);
   [rest]: the passes recorded after this one in the same call — when the pass interrupts they are the
   tasks collected by waitAll *)
Definition pass (g : graph) (cfg : icfg) (first : bool) (b : batch) (rest : list batch) (st : rstate) : res pout :=
  do r <- calc_next g b st;
  let '(ready1, st4) := r in
  match nlist_get kEND ready1 with
  | Some out =>
      match rest with
      | [] => Ok (PEnd (SDone out (filter not_end ready1) st4))
      | _ :: _ => Err E_BAD_SCHEDULE
      end
  | None =>
      if first then
        if hit_before cfg ready1 then
          match rest with [] => Ok (PEnd (SInt ready1 st4)) | _ :: _ => Err E_BAD_SCHEDULE end
        else
          do s <- consume_all (map snd ready1) (rs_store st4);
          Ok (PNext (set_store st4 s))
      else if hit_before cfg ready1 || hit_after cfg b then
        let b2 := List.concat rest in
        if negb (fits_all b2 (remove_keys (map fst ready1) (rs_pending st4))) then Err E_BAD_SCHEDULE else
        do r2 <- calc_body g b2 st4;
        let '(ready2, st5) := r2 in
        match nlist_get kEND ready2 with
        | Some out => Ok (PEnd (SDone out (ready1 ++ filter not_end ready2) st5))
        | None => Ok (PEnd (SInt (ready1 ++ ready2) st5))
        end
      else
        (* createTasks / tm.submit: every ready value is handed to its node *)
        do s <- consume_all (map snd ready1) (rs_store st4);
        Ok (PNext (set_store st4 s))
  end.

(* the main loop of one call *)
Fixpoint seg_loop (g : graph) (cfg : icfg) (first : bool) (bs : list batch) (st : rstate) : res sout :=
  match bs with
  | [] => Ok (SRunning st)
  | b :: rest =>
      do p <- pass g cfg first b rest st;
      match p with
      | PNext st' => seg_loop g cfg false rest st'
      | PEnd o => Ok o
      end
  end.

(* ------------------------------------------------------------------ checkpoint round trip *)
Fixpoint index_of (h : handle) (l : list handle) : N :=
  match l with
  | [] => 0
  | x :: l' => if N.eqb h x then 0 else 1 + index_of h l'
  end.

Definition map_vals (f : handle -> handle) (c : chan) : chan :=
  {| ch_ctrl := ch_ctrl c; ch_data := ch_data c; ch_vals := fun p => option_map f (ch_vals c p); ch_skipped := ch_skipped c |}.

(* a fresh stream that its consumer takes at once *)
Definition fresh_taken (s : store) : res store := let '(h, s1) := fresh s in consume h s1.
Fixpoint fresh_taken_n (n : nat) (s : store) : res store :=
  match n with
  | O => Ok s
  | S n' => do s1 <- fresh_taken s; fresh_taken_n n' s1
  end.

Definition log_interrupt (drains : nat) (l : rlog) : rlog :=
  {| l_resolve_closes := l_resolve_closes l; l_update_closes := l_update_closes l;
     l_chan_closes := l_chan_closes l; l_skip_closes := l_skip_closes l;
     l_merges := l_merges l; l_empties := l_empties l; l_fired := l_fired l;
     l_cp_drains := l_cp_drains l + drains; l_input_closes := l_input_closes l + 1 |}.

(* restoreCheckPoint on the channels: the k-th stored value comes back as the k-th fresh stream *)
Definition restore_store (base : N) (n : nat) (s : store) : store :=
  {| s_next := base + N.of_nat n; s_open := s_open s ++ fresh_handles base n; s_log := s_log s;
     s_hist := map HFresh (fresh_handles base n) ++ s_hist s |}.

(* handleInterrupt -> convertCheckPoint; the call returns the interrupt; the next call:
   restoreCheckPoint, loadChannels, restoreTasks (the inputs of the pending tasks are fresh streams
   handed to the tasks at once), the ignored input of the call is closed *)
Definition suspend_resume (g : graph) (ready : list (key * handle)) (st : rstate) : res rstate :=
  let hs := held g st in
  do s <- checkpoint_drain g ready st;
  let base := s_next s in
  let s1 := restore_store base (List.length hs) s in
  do s2 <- fresh_taken_n (List.length ready + 1) s1;
  Ok {| rs_store := s2;
        rs_chans := fun x => map_vals (fun h => base + index_of h hs) (rs_chans st x);
        rs_pending := rs_pending st; rs_resolved := rs_resolved st;
        rs_log := log_interrupt (List.length hs + List.length ready) (rs_log st) |}.

(* ------------------------------------------------------------------ the calls of one run *)
Fixpoint run_segs (g : graph) (cfg : icfg) (first : bool) (segs : list (list batch)) (st : rstate) : res sout :=
  match segs with
  | [] => Ok (SRunning st)
  | bs :: more =>
      do o <- seg_loop g cfg first bs st;
      match more with
      | [] => Ok o
      | _ :: _ =>
          match o with
          | SInt ready st5 => do st6 <- suspend_resume g ready st5; run_segs g cfg false more st6
          | _ => Err E_BAD_SCHEDULE
          end
      end
  end.

(* segs = the calls in order; the first one starts with START's pseudo task *)
Definition run_int (g : graph) (cfg : icfg) (segs : list (list batch)) : res sout :=
  do st <- init_state g; run_segs g cfg true segs st.
