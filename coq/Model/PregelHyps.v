(* Model/PregelHyps.v — decidable forms of the hypotheses of the C01 theorems, evaluated by Corr/C01.v on every
   compared case (a case on which one of them is false is reported as a mismatch: the generator promises them,
   graph.compile / Chain.compile enforce them).
     pregel_ok g      = pregel_graph g (any-predecessor mode, batch task manager), unique node keys, every
                        branch carries data (data-less branches exist only in Workflow)
     nested_ok F      = well_nested F: a sub-graph node of entry j refers to an entry i with j < i < |F|
   Proofs/PregelHyps.v: pregel_ok g = true -> pregel_graph g /\ unique_keys g /\ data_branches g;
                        nested_ok F = true -> well_nested F. *)
From Eino Require Import Base.Util Model.Graph Model.Chain Model.ChainCompile.
Open Scope N_scope.

Definition is_pregel_mode (g : graph) : bool :=
  match g_mode g with Pregel => negb (g_eager g) | Dag => false end.

Definition pregel_ok (g : graph) : bool :=
  is_pregel_mode g
  && nodupb (map n_key (g_nodes g))
  && forallb (fun n => forallb (fun b => negb (b_nodata b)) (n_branches n)) (g_nodes g).

Definition sub_ok (len j : nat) (n : node) : bool :=
  match n_kind n with
  | KSub i => Nat.ltb j i && Nat.ltb i len
  | _ => true
  end.

Fixpoint nested_from (len j : nat) (F : forest) : bool :=
  match F with
  | [] => true
  | g :: rest => forallb (sub_ok len j) (g_nodes g) && nested_from len (S j) rest
  end.

Definition nested_ok (F : forest) : bool := nested_from (List.length F) 0 F.

(* what Corr/C01.v checks of a lowered forest: the nesting, and the per-graph hypotheses of every
   any-predecessor entry (entries in all-predecessor mode / Workflows belong to C02) *)
Definition hyps_ok (F : forest) : bool :=
  nested_ok F && forallb (fun g => negb (is_pregel_mode g) || pregel_ok g) F.
