(* Model/Options.v — property C16: routing of call options (and designated callbacks) to
   the nodes of a graph with nested graphs.

   Modelled code (cloudwego/eino, compose/):
     graph_call_options.go  Option{options, handler, paths}, deepCopy, DesignateNode(WithPath),
                            WithXxxOption / WithLambdaOption / WithCallbacks, convertOption
     utils.go               extractOption, initGraphCallbacks, initNodeCallbacks
     graph_run.go           runner.run / runner.extractOption: extractOption once per run of a
                            (sub) graph plus validation of what is handed to nested graphs, the
                            per-node slice handed to the node (createTasks: optMap[nodeKey]),
                            a sub graph converts its slice back to []Option and runs [run] again
     runnable.go            convertOption[TOption] in front of every component
   Executable definitions only. *)
From Eino Require Import Base.Util.

Definition key := N.
Definition path := list key.
(* one element of Option.options: (id of its Go type, payload id) *)
Definition item := (N * N)%type.

(* optionType of the node's runnable: a component has a concrete option type
   (ty 0 = compose.unreachableOption: plain lambdas and passthrough nodes, no exported value
   has that type); a sub graph has optionType == nil ("transmit all"). *)
Inductive nkind : Type := KComp (ty : N) | KSub (gi : nat).
Record node : Type := mkNode {
  n_key : key;
  n_kind : nkind;
  n_cb : bool;     (* the graph wraps the node with callbacks (false: passthrough) *)
  n_runs : bool    (* the node executes in this call (false: behind a branch that is not taken) *)
}.
Definition graph := list node.
(* graph 0 is the top level; [KSub gi] refers to graph gi of the forest *)
Definition forest := list graph.

Record copt : Type := mkOpt {
  o_items : list item;      (* Option.options *)
  o_handlers : list N;      (* Option.handler  *)
  o_paths : list path       (* Option.paths    *)
}.

Definition E_EMPTY_PATH : N := 1.
Definition E_UNKNOWN : N := 2.
Definition E_TYPE : N := 3.
Definition E_SUBPATH : N := 4.
Definition E_CONVERT : N := 5.
(* not behaviours of the code: ill-formed case / model ran out of nesting fuel *)
Definition E_SCRIPT : N := 96.
Definition E_GRAPH : N := 97.
Definition E_FUEL : N := 98.

(* reflect.TypeOf(opt.options[0]) — "assume that types of options are the same" *)
Definition head_ty (o : copt) : option N :=
  match o_items o with [] => None | (t, _) :: _ => Some t end.
Definition ty_matches (o : copt) (ty : N) : bool :=
  match head_ty o with Some t => N.eqb t ty | None => false end.

(* opt.deepCopy() followed by the assignment of nOpt.paths *)
Definition deep_copy (o : copt) (ps : list path) : copt :=
  mkOpt (o_items o) (o_handlers o) ps.

(* what sits in a node's []any: option values of a component, or whole Options for a sub graph *)
Inductive entry : Type := EItem (i : item) | EOpt (o : copt).
Definition optmap := list (key * list entry).
(* optMap[k] of a missing key is the nil slice *)
Definition om_get (k : key) (m : optmap) : list entry :=
  match nlist_get k m with Some l => l | None => [] end.
(* optMap[k] = append(optMap[k], es...) *)
Definition om_append (k : key) (es : list entry) (m : optmap) : optmap :=
  nlist_set k (om_get k m ++ es) m.

Fixpoint find_node (k : key) (g : graph) : option node :=
  match g with
  | [] => None
  | nd :: g' => if N.eqb k (n_key nd) then Some nd else find_node k g'
  end.

(* `for name, c := range nodes` of the undesignated case *)
Definition common_step (o : copt) (m : optmap) (nd : node) : optmap :=
  match n_kind nd with
  | KSub _ => om_append (n_key nd) [EOpt o] m
  | KComp ty => if ty_matches o ty then om_append (n_key nd) (map EItem (o_items o)) m else m
  end.
Definition common_to_nodes (o : copt) (g : graph) (m : optmap) : optmap :=
  fold_left (common_step o) g m.

(* body of `for _, path := range opt.paths` *)
Definition extract_path (g : graph) (o : copt) (q : path) (m : optmap) : res optmap :=
  match q with
  | [] => Err E_EMPTY_PATH
  | k :: rest =>
    match find_node k g with
    | None => Err E_UNKNOWN
    | Some nd =>
      match rest with
      | [] =>
        match o_items o with
        | [] => Ok m    (* callbacks only: handled by initNodeCallbacks *)
        | _ :: _ =>
          match n_kind nd with
          | KSub _ => Ok (om_append k [EOpt (deep_copy o [])] m)
          | KComp ty =>
              if ty_matches o ty then Ok (om_append k (map EItem (o_items o)) m) else Err E_TYPE
          end
        end
      | _ :: _ =>
        match n_kind nd with
        | KComp _ => Err E_SUBPATH
        | KSub _ => Ok (om_append k [EOpt (deep_copy o [rest])] m)
        end
      end
    end
  end.

Fixpoint extract_paths (g : graph) (o : copt) (qs : list path) (m : optmap) : res optmap :=
  match qs with
  | [] => Ok m
  | q :: qs' => do m' <- extract_path g o q m; extract_paths g o qs' m'
  end.

Definition extract_one (g : graph) (o : copt) (m : optmap) : res optmap :=
  match o_paths o with
  | [] => match o_items o with [] => Ok m | _ :: _ => Ok (common_to_nodes o g m) end
  | _ :: _ => extract_paths g o (o_paths o) m
  end.

(* extractOption(nodes, opts...) *)
Fixpoint extract_option (g : graph) (opts : list copt) (m : optmap) : res optmap :=
  match opts with
  | [] => Ok m
  | o :: opts' => do m' <- extract_one g o m; extract_option g opts' m'
  end.

(* convertOption[TOption] in front of a component, convertOption[Option] in front of a sub graph *)
Fixpoint convert_items (ty : N) (es : list entry) : res (list item) :=
  match es with
  | [] => Ok []
  | EItem (t, x) :: es' =>
      if N.eqb t ty then do r <- convert_items ty es'; Ok ((t, x) :: r) else Err E_CONVERT
  | EOpt _ :: _ => Err E_CONVERT
  end.
Fixpoint convert_opts (es : list entry) : res (list copt) :=
  match es with
  | [] => Ok []
  | EOpt o :: es' => do r <- convert_opts es'; Ok (o :: r)
  | EItem _ :: _ => Err E_CONVERT
  end.

(* initGraphCallbacks (top-level graph only: compileAnyGraph's ctxWrapper) *)
Definition graph_handlers (opts : list copt) : list N :=
  flat_map (fun o => match o_paths o with [] => o_handlers o | _ :: _ => [] end) opts.
(* initNodeCallbacks *)
Definition designates_key (k : key) (ps : list path) : bool :=
  existsb (fun q => match q with [k'] => N.eqb k' k | _ => false end) ps.
Definition node_handlers (k : key) (opts : list copt) : list N :=
  flat_map (fun o => if designates_key k (o_paths o) then o_handlers o else []) opts.

Definition res_flat_mapM {A B} (f : A -> res (list B)) (l : list A) : res (list B) :=
  do ls <- res_mapM f l; Ok (List.concat ls).

(* runner.extractOption: distribute the options of this graph's run, then validate what is
   handed down to every nested graph (whether or not that graph will execute) *)
Fixpoint validate (fuel : nat) (F : forest) (gi : nat) (opts : list copt) : res optmap :=
  match fuel with
  | O => Err E_FUEL
  | S f =>
    match nth_error F gi with
    | None => Err E_GRAPH
    | Some g =>
      do m <- extract_option g opts [];
      do _ <- res_mapM (fun nd =>
                match n_kind nd with
                | KComp _ => Ok tt
                | KSub gj =>
                    do os <- convert_opts (om_get (n_key nd) m);
                    do _ <- validate f F gj os;
                    Ok tt
                end) g;
      Ok m
    end
  end.

(* what one executing node saw *)
Record report : Type := mkRep {
  r_path : path;
  r_items : option (list item);   (* component: the converted option values, in order *)
  r_fired : option (list N)       (* handlers in the node's callback manager (None: no callbacks) *)
}.

(* runner.run of graph [gi] reached under node path [pre] with inherited handlers [inh];
   every node with n_runs executes. *)
Fixpoint run_graph (fuel : nat) (F : forest) (gi : nat) (pre : path) (inh : list N)
         (opts : list copt) : res (list report) :=
  match fuel with
  | O => Err E_FUEL
  | S f =>
    match nth_error F gi with
    | None => Err E_GRAPH
    | Some g =>
      do m <- validate fuel F gi opts;
      res_flat_mapM (fun nd =>
        if negb (n_runs nd) then Ok [] else
        let p := pre ++ [n_key nd] in
        let hs := inh ++ node_handlers (n_key nd) opts in
        match n_kind nd with
        | KComp ty =>
            do its <- convert_items ty (om_get (n_key nd) m);
            Ok [mkRep p (Some its) (if n_cb nd then Some hs else None)]
        | KSub gj =>
            do os <- convert_opts (om_get (n_key nd) m);
            do rs <- run_graph f F gj p hs os;
            Ok (mkRep p None (Some hs) :: rs)
        end) g
    end
  end.

Definition run_call (F : forest) (opts : list copt) : res (list report) :=
  let inh := graph_handlers opts in
  do rs <- run_graph (S (List.length F)) F 0 [] inh opts;
  Ok (mkRep [] None (Some inh) :: rs).

(* ---- building the options of a call through the public API ------------------------- *)
(* WithXxxOption(items...) | WithCallbacks(hs...) | env[parent].DesignateNodeWithPath(ps...) *)
Inductive bop : Type :=
| BItems (its : list item)
| BHandlers (hs : list N)
| BDesignate (parent : nat) (ps : list path).

(* the repaired DesignateNodeWithPath: copy, then append *)
Definition designate (o : copt) (ps : list path) : copt :=
  mkOpt (o_items o) (o_handlers o) (o_paths o ++ ps).

Definition build_one (env : list copt) (b : bop) : res copt :=
  match b with
  | BItems its => Ok (mkOpt its [] [])
  | BHandlers hs => Ok (mkOpt [] hs [])
  | BDesignate j ps =>
      match nth_error env j with Some o => Ok (designate o ps) | None => Err E_SCRIPT end
  end.
Fixpoint build (script : list bop) (env : list copt) : res (list copt) :=
  match script with
  | [] => Ok env
  | b :: s' => do o <- build_one env b; build s' (env ++ [o])
  end.
Definition select (env : list copt) (pass : list nat) : res (list copt) :=
  res_mapM (fun j => match nth_error env j with Some o => Ok o | None => Err E_SCRIPT end) pass.

Record call : Type := mkCall { c_script : list bop; c_pass : list nat }.
Definition call_opts (c : call) : res (list copt) :=
  do env <- build (c_script c) []; select env (c_pass c).
Definition run (F : forest) (c : call) : res (list report) :=
  do opts <- call_opts c; run_call F opts.

(* ---- old behaviour, kept for the refutation witness in Props/C16.v ------------------- *)
(* F-C16c (repaired by 4defab8): before the repair the options handed to a nested graph were
   extracted — and so validated — only when that graph ran: runner.run called the plain
   extractOption, there was no checkOption. *)
Fixpoint run_graph_v0 (fuel : nat) (F : forest) (gi : nat) (pre : path) (inh : list N)
         (opts : list copt) : res (list report) :=
  match fuel with
  | O => Err E_FUEL
  | S f =>
    match nth_error F gi with
    | None => Err E_GRAPH
    | Some g =>
      do m <- extract_option g opts [];
      res_flat_mapM (fun nd =>
        if negb (n_runs nd) then Ok [] else
        let p := pre ++ [n_key nd] in
        let hs := inh ++ node_handlers (n_key nd) opts in
        match n_kind nd with
        | KComp ty =>
            do its <- convert_items ty (om_get (n_key nd) m);
            Ok [mkRep p (Some its) (if n_cb nd then Some hs else None)]
        | KSub gj =>
            do os <- convert_opts (om_get (n_key nd) m);
            do rs <- run_graph_v0 f F gj p hs os;
            Ok (mkRep p None (Some hs) :: rs)
        end) g
    end
  end.
Definition run_call_v0 (F : forest) (opts : list copt) : res (list report) :=
  let inh := graph_handlers opts in
  do rs <- run_graph_v0 (S (List.length F)) F 0 [] inh opts;
  Ok (mkRep [] None (Some inh) :: rs).


(* F-C16b (repaired by 3394fa8): a passthrough node had optionType == nil, which extractOption
   takes for "this node is a sub graph": it accepted whatever was designated to or below it.
   The passthrough is the node kind the graph does not wrap with callbacks (n_cb = false). *)
Definition pass_as_sub (nd : node) : node :=
  if n_cb nd then nd else mkNode (n_key nd) (KSub 0%nat) false (n_runs nd).
Definition extract_option_v0b (g : graph) (opts : list copt) : res optmap :=
  extract_option (map pass_as_sub g) opts [].
