(* Model/NextSpec.v — property C01: runner.createTasks and runner.calculateNextTasks (compose/graph_run.go) as
   functions of their arguments and of the code they call (parameters: runner.resolveCompletedTasks, which the
   extractor "resolvetasks" translates, and channelManager.updateAndGet), written by hand from the source; tools/go2v
   regenerates them statement by statement on every run (Gen/NextTasks.v).  Proofs/GenAgreeNext.v proves the
   generated functions equal to these and ties them to [calc_next] and the END test of [step] (Model/Graph.v).
   Definitions only. *)
From Eino Require Import Base.Util Model.Graph Model.ImpGenLib Model.ResolveGenLib.

Section Spec.
  Variables V T NT CALL CM : Type.
  Variable zero_value : V.
  Variable zero_call : CALL.
  Variable err_code : nat -> N.
  Variable subscribe : list (key * CALL).
  Variable mk_task : key -> CALL -> V -> NT.
  Variable resolve_completed : CM -> list T -> bool -> res (wmap V * dmap * CM).
  Variable update_and_get : CM -> wmap V -> dmap -> res (list (key * V) * CM).

  (* one task per ready node, in the order of the map of ready nodes; a node without chanCall is an error *)
  Definition create_tasks (nodeMap : list (key * V)) : res (list NT) :=
    fold_res (fun acc kv =>
                if am_has (fst kv) subscribe
                then Ok (acc ++ [mk_task (fst kv) (am_at zero_call subscribe (fst kv)) (snd kv)])
                else Err (err_code 1%nat))
             nodeMap [].

  (* (next tasks, result, END reached, channel manager) *)
  Definition calculate_next_tasks (tasks : list T) (isStream : bool) (cm : CM) : res (list NT * V * bool * CM) :=
    do r <- resolve_completed cm tasks isStream;
    let '(w, nd, cm) := r in
    do r2 <- update_and_get cm w nd;
    let '(ready, cm) := r2 in
    if vm_has kEND ready then Ok ([], vm_get zero_value ready kEND, true, cm)
    else do ts <- create_tasks ready; Ok (ts, zero_value, false, cm).
End Spec.
