(* Model/SerLits.v — the literals the encoder of Model/Ser.v hands to the JSON layer while it
   walks a value: values of basic kind go to json.Marshal ([val_lits]), map keys to
   sonic.MarshalString ([key_lits]).  What lies below a nil pointer or in a nil container is
   never reached.  [unencodable_c]: the literals the concrete JSON layer of the
   correspondence check refuses (NaN, +Inf, -Inf; complex numbers).  Definitions only. *)
From Coq Require Import List Bool NArith String.
From Eino Require Import Base.Util Base.Universe Model.Ser.
Import ListNotations.
Local Open Scope bool_scope.

(* the literals inside a map key (a value of basic kind, an array / struct of such) *)
Fixpoint key_of (k : val) : list (base * lit) :=
  match k with
  | VBase b l | VNamed _ b l => [(b, l)]
  | VArray _ es => flat_map key_of es
  | VStruct _ fs => flat_map (fun fv => key_of (snd fv)) fs
  | _ => []
  end.

Fixpoint val_lits (v : val) : list (base * lit) :=
  match v with
  | VBase b l => [(b, l)]
  | VNamed _ b l => [(b, l)]
  | VStruct _ fs => flat_map (fun fv => val_lits (snd fv)) fs
  | VNilPtr _ => []
  | VPtr w => val_lits w
  | VSlice _ None => []
  | VSlice _ (Some es) => flat_map val_lits es
  | VMap _ _ None => []
  | VMap _ _ (Some kvs) => flat_map (fun kv => val_lits (snd kv)) kvs
  | VIface _ None => []
  | VIface _ (Some w) => val_lits w
  | VArray _ es => flat_map val_lits es
  | VDef _ w => val_lits w
  end.

Fixpoint key_lits (v : val) : list (base * lit) :=
  match v with
  | VBase _ _ | VNamed _ _ _ | VNilPtr _ => []
  | VStruct _ fs => flat_map (fun fv => key_lits (snd fv)) fs
  | VPtr w => key_lits w
  | VSlice _ None => []
  | VSlice _ (Some es) => flat_map key_lits es
  | VMap _ _ None => []
  | VMap _ _ (Some kvs) => flat_map (fun kv => key_of (fst kv) ++ key_lits (snd kv)) kvs
  | VIface _ None => []
  | VIface _ (Some w) => key_lits w
  | VArray _ es => flat_map key_lits es
  | VDef _ w => key_lits w
  end.

(* a float that is not finite, a complex number: no JSON text *)
Definition unencodable_c (b : base) (l : lit) : bool :=
  match l with
  | LFloat bits => negb (float_finite b bits)
  | LComplex _ _ => true
  | _ => false
  end.
