(* Model/TypesGenLib.v — property C07: the vocabulary of the statement-by-statement translation
   of compose/utils.go:checkAssignable (tools/go2v, extractor "assignable" -> Gen/Assignable.v):
   what the reflect operations used there mean on the model's types (Model/Types.v).
   A reflect.Type is [option ty] ([None] = the nil reflect.Type of an untyped position).
   Definitions only. *)
From Eino Require Import Base.Util Model.Types.
Local Open Scope string_scope.

(* x == nil *)
Definition rt_is_nil (x : option ty) : bool := match x with None => true | Some _ => false end.

(* x == y : identity of reflect.Type values *)
Definition rt_eq (x y : option ty) : bool := oty_eqb x y.

(* x.Kind() == reflect.K ; on a nil reflect.Type the call panics: the translated function only
   reaches it behind the nil test, and the lemma that ties the translation to the model
   (Proofs/GenAgreeTypes.v) is proved for every input, nil included, with this totalisation
   visible in its statement *)
Definition rt_kind_is (k : string) (x : option ty) : bool :=
  match x with
  | Some t => if String.eqb k "Interface" then is_iface t else false
  | None => false
  end.

(* x.Implements(y) (y an interface type; reflect panics otherwise, same remark) *)
Definition rt_implements (u : univ) (x y : option ty) : bool :=
  match x, y with
  | Some t, Some a => implements u t a
  | _, _ => false
  end.
