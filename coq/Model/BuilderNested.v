(* Model/BuilderNested.v — property C20, round 5.
   Builders compiled as a NODE of another builder (compose.Graph.AddGraphNode): the outer Graph is a
   [gstate], an inner builder a Graph ([gstate], driven by [gstep]) or a Chain ([cstate], driven by [cstep]) of
   Model/Builder.v; what is new is the coupling — graph.compile compiles the child graph of every node (graphNode.compileIfNeeded ->
   graph.compile with the node's own options), which FREEZES the child exactly like a Compile call of
   its own, and a child that does not compile makes the parent's Compile fail with the child's error.

   graph.compile visits its nodes in the order of their keys (since the repair F-C20g; before, in Go's
   map order: when a child failed, which of the other children had been frozen differed from attempt to
   attempt).  [n_compile_in] takes the order as an argument; [nstep] uses the sorted keys, the
   [_refuted] witness of Props/C20.v two different orders.

   Definitions only. *)
From Eino Require Import Base.Util Model.Builder.
Local Open Scope string_scope.
Local Open Scope list_scope.

Fixpoint nlookup {A} (k : string) (l : list (string * A)) : option A :=
  match l with
  | [] => None
  | (x, v) :: r => if String.eqb k x then Some v else nlookup k r
  end.

Fixpoint nupdate {A} (k : string) (v : A) (l : list (string * A)) : list (string * A) :=
  match l with
  | [] => []
  | (x, w) :: r => if String.eqb k x then (x, v) :: r else (x, w) :: nupdate k v r
  end.

(* an inner builder: a Graph or a Chain (a Workflow child is exercised by the harness and judged by its oracles only) *)
Inductive inner : Type := IG (g : gstate) | IC (c : cstate).
Definition inner_graph (i : inner) : gstate := match i with IG g => g | IC c => c_g c end.

(* the outer Graph, the inner builders by name, and which node of the outer graph holds which of them *)
(* [ns_att]: node key -> the inner builder it holds and the compile options of the node (WithGraphCompileOptions) *)
Record nstate : Type := mkN { ns_out : gstate; ns_inn : list (string * inner); ns_att : list (string * (string * copt)) }.
Definition n_init (has_state : bool) : nstate := mkN (g_init CGraph has_state) [] [].

(* what a case creates an inner builder as: a Graph with one lambda node "s" ([SKGraph true]: entry and exit edge as
   well), a Chain with one lambda node ([SKChain true]) or an empty Chain *)
Inductive skind : Type := SKGraph (ok : bool) | SKChain (ok : bool).
Definition inner_init (k : skind) : inner :=
  match k with
  | SKGraph ok =>
    let g1 := fst (gstep fixed (g_init CGraph false) (GAddNode "s" NLambda false false)) in
    IG (if ok then fst (gstep fixed (fst (gstep fixed g1 (GAddEdge START "s"))) (GAddEdge "s" END_)) else g1)
  | SKChain ok =>
    IC (if ok then fst (cstep fixed (c_init false) (CAppend NLambda None false)) else c_init false)
  end.

(* a call on an inner builder; a call of the other kind of builder cannot be written in Go: no-op *)
Inductive icall : Type := KG (c : gcall) | KC (c : ccall).
Definition istep (i : inner) (c : icall) : inner * outcome :=
  match i, c with
  | IG g, KG c' => let '(g', o) := gstep fixed g c' in (IG g', o)
  | IC ch, KC c' => let '(ch', o) := cstep fixed ch c' in (IC ch', o)
  | _, _ => (i, OOk)
  end.

(* AnyGraph.compile of a child, with its node's options: graph.compile, or Chain.compile = addEndIfNeeded +
   graph.compile — the function the public Compile of that builder runs *)
Definition inner_compile (i : inner) (oc : copt) : inner * outcome :=
  match i with
  | IG g => let '(g', o) := g_compile fixed g oc in (IG g', o)
  | IC ch => let '(ch', o) := c_compile fixed ch oc in (IC ch', o)
  end.

Inductive ncall : Type :=
| NOuter (c : gcall)                       (* a call on the outer Graph *)
| NSub (k id : string) (kd : skind) (oc : copt) (* outer.AddGraphNode(k, inner[id], WithGraphCompileOptions(oc)); inner[id] is created on first use *)
| NInner (id : string) (c : icall).        (* a call on inner[id] (Add* / Append* or its own Compile) *)

(* graph.compile gets as far as compiling its nodes: every earlier test (build error, option, entry / exit,
   pending inference, untyped node, duplicate mapping target) passed — the tests of [g_compile] in order *)
Definition reaches_children (g : gstate) (o : copt) : bool :=
  match g_err g with
  | Some _ => false
  | None =>
    let chain_or_wf := match g_cmp g with CGraph => false | _ => true end in
    negb (chain_or_wf && is_some (o_trigger o))
    && negb (is_nil (g_starts g)) && negb (is_nil (g_ends g)) && is_nil (g_pending g)
    && negb (has_untyped g) && negb (existsb (fun kf => has_dup (snd kf)) (g_fm g))
  end.

(* the children in the given order, each compiled with the options of its node; stops at the first
   child that does not compile *)
Fixpoint compile_children (ids : list (string * copt)) (inn : list (string * inner)) : list (string * inner) * option outcome :=
  match ids with
  | [] => (inn, None)
  | (id, oc) :: rest =>
    match nlookup id inn with
    | None => compile_children rest inn
    | Some gi =>
      let '(gi', o) := inner_compile gi oc in
      match o with
      | OCompiled _ => compile_children rest (nupdate id gi' inn)
      | _ => (nupdate id gi' inn, Some o)
      end
    end
  end.

Definition children_of (s : nstate) (keys : list string) : list (string * copt) :=
  flat_map (fun k => match nlookup k (ns_att s) with Some ic => [ic] | None => [] end) keys.

(* graph.compile of the outer graph, its nodes visited in the order [keys] *)
Definition n_compile_in (keys : list string) (s : nstate) (o : copt) : nstate * outcome :=
  if reaches_children (ns_out s) o then
    let '(inn', failed) := compile_children (children_of s keys) (ns_inn s) in
    match failed with
    | Some out => (mkN (ns_out s) inn' (ns_att s), match out with OCompiled _ => OPanic | _ => out end)
    | None => let '(g', out) := g_compile fixed (ns_out s) o in (mkN g' inn' (ns_att s), out)
    end
  else
    let '(g', out) := g_compile fixed (ns_out s) o in (mkN g' (ns_inn s) (ns_att s), out).

Definition sorted_keys (g : gstate) : list string := sort_by string_ltb (map fst (g_nodes g)).

Definition nstep (s : nstate) (c : ncall) : nstate * outcome :=
  match c with
  | NOuter (GCompile o) => n_compile_in (sorted_keys (ns_out s)) s o
  | NOuter c' => let '(g', o) := gstep fixed (ns_out s) c' in (mkN g' (ns_inn s) (ns_att s), o)
  | NSub k id kd oc =>
    let inn := match nlookup id (ns_inn s) with Some _ => ns_inn s | None => ns_inn s ++ [(id, inner_init kd)] end in
    let '(g', o) := g_add_node (ns_out s) k NSubOk false false false in
    (mkN g' inn (match o with OOk => ns_att s ++ [(k, (id, oc))] | _ => ns_att s end), o)
  | NInner id c' =>
    match nlookup id (ns_inn s) with
    | None => (s, OOk)
    | Some gi => let '(gi', o) := istep gi c' in (mkN (ns_out s) (nupdate id gi' (ns_inn s)) (ns_att s), o)
    end
  end.
