(* Model/Callbacks.v — executable model of eino's callback machinery (property C10).

   Anchors:  internal/callbacks/manager.go (manager, newManager, withRunInfo),
             internal/callbacks/inject.go  (InitCallbacks, ReuseHandlers, AppendHandlers, On,
                                            OnStartHandle .. OnWithStreamHandle),
             compose/utils.go              (initGraphCallbacks, initNodeCallbacks, extractOption,
                                            runWithCallbacks), compose/graph_run.go (graph level
             start / end / error), compose/runnable.go (newRunnablePacker: which native
             paradigm a derived one calls), compose/graph_manager.go (executor).

   Three layers:
   1. heap level ([step], [run_script]): managers hold Go slice headers into a heap of arrays
      (Base/GoSlice.v); every [append] of the code is an [append] here, with the growth
      policy a parameter.  [fixed = true] is the code after the repair of F-C10 (copy before
      append), [fixed = false] the code as it was ([append_handlers_v0], [on_v0]).
   2. pure level ([sstep], [run_spec]): the same operations on immutable lists — the
      specification ("inherited ++ designated").  Proofs/Callbacks.v shows layer 1 with
      [fixed = true] refines layer 2 for every capacity, offset and growth policy.
   3. engine level ([graph_ops]): the operations a (nested, layered) graph run issues, in one
      canonical schedule; Proofs/CallbacksEngine.v shows the per-unit event sequence does not
      depend on the schedule.

   Definitions only. *)
From Eino Require Import Base.Util Base.GoSlice.

Definition handler := N.      (* identity of a handler object *)
Definition info := N.         (* identity of a RunInfo (name, type, component) *)
Definition ukey := N.         (* name of the context of one execution unit *)

(* callbacks.CallbackTiming *)
Inductive timing := TStart | TEnd | TError | TStartStream | TEndStream.
Definition timing_code (t : timing) : N :=
  match t with TStart => 0 | TEnd => 1 | TError => 2 | TStartStream => 3 | TEndStream => 4 end.
Definition timing_eqb (a b : timing) : bool := N.eqb (timing_code a) (timing_code b).
Definition is_start (t : timing) : bool :=
  match t with TStart | TStartStream => true | _ => false end.

(* manager.go: globalHandlers is made by make+copy in newManager and is never the first
   argument of an append afterwards, so it is modelled as an immutable list; handlers is a
   slice header (its backing array may be shared). *)
Record manager := { m_global : list handler; m_handlers : slice; m_info : info }.
Definition ctx := option manager.     (* None: no manager in the context / a nil manager *)

(* what the code cannot decide: growth policy of append, the global handler list (set at
   process initialisation), which timings a handler's TimingChecker asks for *)
Record world := { w_pol : policy; w_globals : list handler; w_needs : handler -> timing -> bool }.

(* newManager + ctxWithManager *)
Definition new_manager (w : world) (inf : info) (hs : slice) : ctx :=
  if (len hs + List.length (w_globals w) =? 0)%nat then None
  else Some {| m_global := w_globals w; m_handlers := hs; m_info := inf |}.

(* ReuseHandlers / withRunInfo *)
Definition reuse_handlers (c : ctx) (inf : info) : ctx :=
  match c with
  | None => None
  | Some m => Some {| m_global := m_global m; m_handlers := m_handlers m; m_info := inf |}
  end.

(* AppendHandlers(ctx, info, hs...) — [hs] is the caller's variadic slice, passed through
   unchanged to InitCallbacks when the context has no manager.
   fixed:  nh := make([]Handler, 0, len(cbm.handlers)+len(hs)); nh = append(nh, cbm.handlers...);
           nh = append(nh, hs...)
   v0:     append(cbm.handlers, hs...)                                              (F-C10) *)
Definition append_handlers (fixed : bool) (w : world) (h : heap) (c : ctx) (inf : info) (hs : slice)
  : heap * ctx :=
  match c with
  | None => (h, new_manager w inf hs)
  | Some m =>
      if fixed then
        let '(h1, nh) := make h 0 (len (m_handlers m) + len hs) in
        let '(h2, nh) := append (w_pol w) h1 nh (read h1 (m_handlers m)) in
        let '(h3, nh) := append (w_pol w) h2 nh (read h2 hs) in
        (h3, new_manager w inf nh)
      else
        let '(h1, nh) := append (w_pol w) h (m_handlers m) (read h hs) in
        (h1, new_manager w inf nh)
  end.
Definition append_handlers_v0 := append_handlers false.

(* the loop of initGraphCallbacks / initNodeCallbacks:  var cbs []Handler;
   for each matching option: cbs = append(cbs, opt.handler...) *)
Definition build_cbs (pol : policy) (h : heap) (opts : list (list handler)) : heap * slice :=
  fold_left (fun (hs : heap * slice) (o : list handler) => append pol (fst hs) (snd hs) o) opts (h, nil_slice).

(* On: the handlers handed to the handle function.
   fixed: iterate mgr.handlers then mgr.globalHandlers;
   v0:    iterate append(mgr.handlers, mgr.globalHandlers...)  (writes into spare capacity) *)
Definition select (w : world) (t : timing) (l : list handler) : list handler :=
  filter (fun x => w_needs w x t) l.
Definition on_handlers (fixed : bool) (w : world) (h : heap) (m : manager) (t : timing)
  : heap * list handler :=
  if fixed then (h, select w t (read h (m_handlers m) ++ m_global m))
  else let '(h1, all) := append (w_pol w) h (m_handlers m) (m_global m) in
       (h1, select w t (read h1 all)).
Definition on_v0 := on_handlers false.

(* OnStartHandle / OnStartWithStreamInputHandle run the handlers in reverse order *)
Definition invoke_order (t : timing) (l : list handler) : list handler :=
  if is_start t then rev l else l.

(* OnWithStreamHandle: n handlers => cpy(n+1); handler i reads copy i, the flow continues
   with copy n.  (index of the copy, reader) *)
Inductive reader := RHandler (x : handler) | RFlow.
Definition stream_copies (l : list handler) : list (nat * reader) :=
  match l with
  | [] => [(0%nat, RFlow)]                         (* no copy at all: the flow keeps the stream *)
  | _ => combine (seq 0 (S (List.length l))) (map RHandler l ++ [RFlow])
  end.

(* ------------------------------------------------------------------ scripts of operations *)

(* one invocation of one handler *)
Inductive event := Ev (u : ukey) (x : handler) (t : timing) (i : info).

Inductive op :=
| ORaw (new : ukey) (inf : info) (o : nat) (hs : list handler) (spare : nat)
    (* InitCallbacks(bg, info, s...) with s = back[o : o+|hs| : o+|hs|+spare] *)
| OAppend (parent : option ukey) (new : ukey) (inf : info) (opts : list (list handler))
    (* initGraphCallbacks / initNodeCallbacks on the parent's context (None = a context
       without manager); opts = the handler lists of the options that match *)
| OReuse (parent : ukey) (new : ukey) (inf : info)       (* ReuseHandlers (tool calls) *)
| OOn (u : ukey) (t : timing)                            (* On(ctx_u, _, handle, t) *)
| OAlias (src : ukey) (new : ukey) (inf : info) (lo hi : nat).
    (* InitCallbacks(bg, info, s[lo:hi]...) where s is the slice held by unit src's manager
       (for a unit made by ORaw: the caller's own slice): a variadic call passes the slice
       header on, so the two managers share one backing array and the new one's spare
       capacity overlaps the elements of src beyond hi *)

Record state := { st_heap : heap; st_ctxs : list (ukey * ctx); st_log : list event; st_bad : bool }.
Definition state0 : state := {| st_heap := []; st_ctxs := []; st_log := []; st_bad := false |}.

Fixpoint lookup {A} (u : ukey) (cs : list (ukey * A)) : option A :=
  match cs with
  | [] => None
  | (k, c) :: cs' => if N.eqb u k then Some c else lookup u cs'
  end.

Definition set_bad (st : state) : state :=
  {| st_heap := st_heap st; st_ctxs := st_ctxs st; st_log := st_log st; st_bad := true |}.

Definition events_of (u : ukey) (t : timing) (inf : info) (l : list handler) : list event :=
  map (fun x => Ev u x t inf) (invoke_order t l).

Definition step (fixed : bool) (w : world) (st : state) (o : op) : state :=
  match o with
  | ORaw new inf off0 hs spare =>
      let '(h1, s) := alloc_slice (st_heap st) off0 hs spare in
      {| st_heap := h1; st_ctxs := (new, new_manager w inf s) :: st_ctxs st;
         st_log := st_log st; st_bad := st_bad st |}
  | OAppend parent new inf opts =>
      let pc := match parent with None => Some None | Some p => lookup p (st_ctxs st) end in
      match pc with
      | None => set_bad st
      | Some c =>
          let '(h1, cbs) := build_cbs (w_pol w) (st_heap st) opts in
          let '(h2, c') := append_handlers fixed w h1 c inf cbs in
          {| st_heap := h2; st_ctxs := (new, c') :: st_ctxs st; st_log := st_log st; st_bad := st_bad st |}
      end
  | OReuse p new inf =>
      match lookup p (st_ctxs st) with
      | None => set_bad st
      | Some c => {| st_heap := st_heap st; st_ctxs := (new, reuse_handlers c inf) :: st_ctxs st;
                     st_log := st_log st; st_bad := st_bad st |}
      end
  | OOn u t =>
      match lookup u (st_ctxs st) with
      | None => set_bad st
      | Some None => st
      | Some (Some m) =>
          let '(h1, l) := on_handlers fixed w (st_heap st) m t in
          {| st_heap := h1; st_ctxs := st_ctxs st;
             st_log := st_log st ++ events_of u t (m_info m) l; st_bad := st_bad st |}
      end
  | OAlias src new inf lo hi =>
      match lookup src (st_ctxs st) with
      | Some (Some m) =>
          if (lo <=? hi)%nat && (hi <=? len (m_handlers m))%nat then
            {| st_heap := st_heap st;
               st_ctxs := (new, new_manager w inf (reslice (m_handlers m) lo hi)) :: st_ctxs st;
               st_log := st_log st; st_bad := st_bad st |}
          else set_bad st
      | _ => set_bad st
      end
  end.

Definition run_from (fixed : bool) (w : world) (st : state) (ops : list op) : state :=
  fold_left (step fixed w) ops st.
Definition run_script (fixed : bool) (w : world) (ops : list op) : state := run_from fixed w state0 ops.

(* the handler list a unit would be served at this moment (None: unknown unit) *)
Definition observed_list (st : state) (u : ukey) : option (list handler) :=
  match lookup u (st_ctxs st) with
  | None => None
  | Some None => Some []
  | Some (Some m) => Some (read (st_heap st) (m_handlers m))
  end.

(* ------------------------------------------------------------------ pure specification *)

Definition sctx := option (list handler * info).
Record sstate := { ss_ctxs : list (ukey * sctx); ss_log : list event; ss_bad : bool }.
Definition sstate0 : sstate := {| ss_ctxs := []; ss_log := []; ss_bad := false |}.

Definition snew (w : world) (inf : info) (l : list handler) : sctx :=
  if (List.length l + List.length (w_globals w) =? 0)%nat then None else Some (l, inf).
Definition slist (c : sctx) : list handler := match c with None => [] | Some (l, _) => l end.
Definition sset_bad (s : sstate) : sstate := {| ss_ctxs := ss_ctxs s; ss_log := ss_log s; ss_bad := true |}.

Definition sstep (w : world) (s : sstate) (o : op) : sstate :=
  match o with
  | ORaw new inf _ hs _ =>
      {| ss_ctxs := (new, snew w inf hs) :: ss_ctxs s; ss_log := ss_log s; ss_bad := ss_bad s |}
  | OAppend parent new inf opts =>
      match (match parent with None => Some None | Some p => lookup p (ss_ctxs s) end) with
      | None => sset_bad s
      | Some c => {| ss_ctxs := (new, snew w inf (slist c ++ List.concat opts)) :: ss_ctxs s;
                     ss_log := ss_log s; ss_bad := ss_bad s |}
      end
  | OReuse p new inf =>
      match lookup p (ss_ctxs s) with
      | None => sset_bad s
      | Some c => {| ss_ctxs := (new, match c with None => None | Some (l, _) => Some (l, inf) end) :: ss_ctxs s;
                     ss_log := ss_log s; ss_bad := ss_bad s |}
      end
  | OOn u t =>
      match lookup u (ss_ctxs s) with
      | None => sset_bad s
      | Some None => s
      | Some (Some (l, inf)) =>
          {| ss_ctxs := ss_ctxs s;
             ss_log := ss_log s ++ events_of u t inf (select w t (l ++ w_globals w)); ss_bad := ss_bad s |}
      end
  | OAlias src new inf lo hi =>
      match lookup src (ss_ctxs s) with
      | Some (Some (l, _)) =>
          if (lo <=? hi)%nat && (hi <=? List.length l)%nat then
            {| ss_ctxs := (new, snew w inf (firstn (hi - lo) (skipn lo l))) :: ss_ctxs s;
               ss_log := ss_log s; ss_bad := ss_bad s |}
          else sset_bad s
      | _ => sset_bad s
      end
  end.
Definition run_spec_from (w : world) (s : sstate) (ops : list op) : sstate := fold_left (sstep w) ops s.
Definition run_spec (w : world) (ops : list op) : sstate := run_spec_from w sstate0 ops.

(* ------------------------------------------------------------------ engine level *)

(* call options carrying handlers: compose.WithCallbacks(hs...) [.DesignateNode /
   .DesignateNodeWithPath]: (handlers, designated paths); no path = for the whole graph *)
Definition copt := (list handler * list (list N))%type.

(* nodes of a layered graph; [uid] names the execution unit (unique in the whole case),
   [key] is the node key inside its graph, [natives] the set of paradigms the lambda
   implements (bit 0 Invoke, 1 Stream, 2 Collect, 3 Transform) *)
Inductive gnode :=
| GLambda (uid : ukey) (key : N) (inf : info) (natives : N) (fails : bool)
| GPass (uid : ukey) (key : N)
| GSub (uid : ukey) (key : N) (inf : info) (stages : list (list gnode))
| GTools (uid : ukey) (key : N) (inf : info) (calls : list (ukey * info * N * bool))
    (* a ToolsNode and the tool calls of its input message: per call its unit, the run info
       of the tool, the paradigms the tool implements (bit 0 InvokableRun, 1 StreamableRun)
       and whether the call fails *)
| GStop.
    (* a configured interrupt point (compile options WithInterruptBeforeNodes /
       WithInterruptAfterNodes) the run arrives at: a stage of its own between the stage that has
       completed and the one that would start (runner.run: handleInterrupt after calculateNextTasks).
       Nothing executes, no context is created, no handler is invoked for it: the enclosing graph
       ends with an error (the interrupt).  It is no node: no call option can address it. *)

Definition gnode_key (n : gnode) : N :=
  match n with GLambda _ k _ _ _ => k | GPass _ k => k | GSub _ k _ _ => k | GTools _ k _ _ => k | GStop => 0%N end.
Definition gnode_is_sub (n : gnode) : bool := match n with GSub _ _ _ _ => true | _ => false end.
Definition gnode_is_node (n : gnode) : bool := match n with GStop => false | _ => true end.

(* newRunnablePacker: the native paradigm behind r.i (invoke mode) and r.t (transform mode):
   0 Invoke, 1 Stream, 2 Collect, 3 Transform *)
Local Open Scope N_scope.
Definition pick_native (is_stream : bool) (natives : N) : N :=
  let has i := N.testbit natives i in
  if is_stream then (if has 3 then 3 else if has 1 then 1 else if has 2 then 2 else 0)
  else (if has 0 then 0 else if has 1 then 1 else if has 2 then 2 else 3).
(* invokeWithCallbacks / streamWithCallbacks / collectWithCallbacks / transformWithCallbacks *)
Definition start_timing_of (p : N) : timing := if (N.eqb p 0 || N.eqb p 1) then TStart else TStartStream.
Definition end_timing_of (p : N) : timing := if (N.eqb p 0 || N.eqb p 2) then TEnd else TEndStream.
Local Close Scope N_scope.
(* onGraphStart / onGraphEnd *)
Definition graph_start (is_stream : bool) : timing := if is_stream then TStartStream else TStart.
Definition graph_end (is_stream : bool) : timing := if is_stream then TEndStream else TEnd.

(* initNodeCallbacks: the options with a path equal to [key] *)
Definition designated (key : N) (opts : list copt) : list (list handler) :=
  flat_map (fun o : copt =>
    if existsb (fun p => match p with [k] => N.eqb k key | _ => false end) (snd o) then [fst o] else []) opts.
(* initGraphCallbacks: the options without path *)
Definition undesignated (opts : list copt) : list (list handler) :=
  flat_map (fun o : copt => match snd o with [] => [fst o] | _ => [] end) opts.
(* extractOption: what is handed down to the sub graph at [key] (one option per longer path;
   options without path carry only handlers and are dropped: the handlers travel in the context) *)
Definition sub_opts (key : N) (opts : list copt) : list copt :=
  flat_map (fun o : copt =>
    flat_map (fun p => match p with
                       | k :: ((_ :: _) as tl) => if N.eqb k key then [(fst o, [tl])] else []
                       | _ => []
                       end) (snd o)) opts.
(* extractOption's errors: empty path, unknown node, path below a component *)
Definition opts_ok (nodes : list gnode) (opts : list copt) : bool :=
  forallb (fun o : copt =>
    forallb (fun p => match p with
                      | [] => false
                      | k :: tl =>
                          match find (fun n => gnode_is_node n && N.eqb (gnode_key n) k) nodes with
                          | None => false
                          | Some n => match tl with [] => true | _ => gnode_is_sub n end
                          end
                      end) (snd o)) opts.

(* runner.extractOption (since the repair 4defab8 of another property): when a graph starts it
   also validates what it hands down to its sub graphs, recursively, so a bad designation
   anywhere below fails the enclosing run before any node starts. *)
Fixpoint sub_ok (n : gnode) (opts : list copt) {struct n} : bool :=
  match n with
  | GSub _ _ _ stages =>
      opts_ok (List.concat stages) opts &&
      forallb (forallb (fun m => sub_ok m (sub_opts (gnode_key m) opts))) stages
  | _ => true
  end.
Definition graph_ok (stages : list (list gnode)) (opts : list copt) : bool :=
  opts_ok (List.concat stages) opts &&
  forallb (forallb (fun m => sub_ok m (sub_opts (gnode_key m) opts))) stages.

(* runner.run of a graph whose context is [g]: start; supersteps = stages (all tasks of a
   stage are submitted together and all are waited for); an error of any node of a stage fails
   the run after that stage; end / error.  [rs] = per stage, per node: the node's operations
   and whether it failed.  Returns the operations and whether the run failed. *)
Fixpoint stages_body (rs : list (list (list op * bool))) : list op * bool :=
  match rs with
  | [] => ([], false)
  | st :: rs' =>
      let o1 := List.concat (map fst st) in
      if existsb snd st then (o1, true)
      else let r2 := stages_body rs' in (o1 ++ fst r2, snd r2)
  end.

Definition graph_body (is_stream : bool) (g : ukey) (ok : bool) (rs : list (list (list op * bool)))
  : list op * bool :=
  if negb ok then ([OOn g (graph_start is_stream); OOn g TError], true)
  else
    let b := stages_body rs in
    ([OOn g (graph_start is_stream)] ++ fst b ++
     [OOn g (if snd b then TError else graph_end is_stream)], snd b).

(* compose/tool_node.go runToolCallTaskByInvoke / ByStream: ReuseHandlers with the tool's run
   info on the ToolsNode's context, then the tool's runnable packer (callbacks injected when
   the tool does not fire them itself) *)
Definition call_fails (c : ukey * info * N * bool) : bool := snd c.
Definition call_ops (is_stream : bool) (tn : ukey) (c : ukey * info * N * bool) : list op :=
  let '(cu, cinf, natives, fails) := c in
  let p := pick_native is_stream natives in
  [OReuse tn cu cinf; OOn cu (start_timing_of p); OOn cu (if fails then TError else end_timing_of p)].

(* taskManager.executor for one node: initNodeCallbacks, then the node's runnable *)
Fixpoint node_ops (is_stream : bool) (parent : ukey) (opts : list copt) (n : gnode) {struct n}
  : list op * bool :=
  match n with
  | GLambda uid key inf natives fails =>
      let p := pick_native is_stream natives in
      ([OAppend (Some parent) uid inf (designated key opts);
        OOn uid (start_timing_of p);
        OOn uid (if fails then TError else end_timing_of p)], fails)
  | GPass uid key => ([OAppend (Some parent) uid 0%N (designated key opts)], false)
  | GSub uid key inf stages =>
      let sopts := sub_opts key opts in
      let r := graph_body is_stream uid (graph_ok stages sopts)
                          (map (map (node_ops is_stream uid sopts)) stages) in
      (OAppend (Some parent) uid inf (designated key opts) :: fst r, snd r)
  | GTools uid key inf calls =>
      (* ToolsNode implements Invoke and Stream; all tool calls run (in parallel), then the
         first failed one fails the node *)
      let p := pick_native is_stream 3 in
      let failed := existsb call_fails calls in
      (OAppend (Some parent) uid inf (designated key opts) :: OOn uid (start_timing_of p) ::
       flat_map (call_ops is_stream uid) calls ++
       [OOn uid (if failed then TError else end_timing_of p)], failed)
  | GStop => ([], true)
  end.

(* a compiled top-level graph called with [opts] on a context without manager *)
Definition graph_ops (is_stream : bool) (g : ukey) (ginf : info) (opts : list copt)
           (stages : list (list gnode)) : list op :=
  OAppend None g ginf (undesignated opts)
  :: fst (graph_body is_stream g (graph_ok stages opts)
                     (map (map (node_ops is_stream g opts)) stages)).

(* TimingChecker tables of a case: handlers listed need exactly the given timing codes,
   handlers not listed have no TimingChecker (always needed) *)
Definition needs_of (tbl : list (handler * list N)) (x : handler) (t : timing) : bool :=
  match lookup x tbl with
  | None => true
  | Some ts => existsb (N.eqb (timing_code t)) ts
  end.

(* ------------------------------------------------------------------ reading the event log *)

Definition ev_unit (e : event) : ukey := match e with Ev u _ _ _ => u end.
Definition ev_handler (e : event) : handler := match e with Ev _ x _ _ => x end.
Definition of_unit (u : ukey) (e : event) : bool := N.eqb (ev_unit e) u.

(* the events a unit with handler list l and run info inf is served at timing t: the handlers
   of l ++ globals that ask for t, one event per occurrence, start timings in reverse order *)
Definition served (w : world) (u : ukey) (inf : info) (l : list handler) (t : timing) : list event :=
  events_of u t inf (select w t (l ++ w_globals w)).
