(* Model/SerStore.v — checkPointer.set / checkPointer.get over a CheckPointStore
   (compose/checkpoint.go:165-190).

     set(id, cp):  data, err := serialization.Marshal(cp); err -> returned, nothing is stored;
                   else store.Set(id, data)
     get(id):      data, existed := store.Get(id); !existed -> (nil, false, nil);
                   value, err := serialization.Unmarshal(data); err -> returned;
                   cp = value.( *checkpoint)          -- a failed type assertion panics

   The store belongs to the user; it is modelled as the association list of what was
   written (newest first, a later Set under the same id shadows the earlier one), i.e. a
   store that returns under an id what was last written under it.  What the store holds is
   the intermediate tree (the bytes in between are exercised by the harness).
   Definitions only. *)
From Coq Require Import List Bool NArith String.
From Eino Require Import Base.Util Base.Universe Model.Ser Model.SerCheckpoint.
Import ListNotations.
Local Open Scope string_scope.

Section Store.
  Variables J JK : Type.
  Variable jenc : base -> lit -> res J.
  Variable jdec : base -> J -> res lit.
  Variable kenc : base -> lit -> res JK.
  Variable kdec : base -> JK -> res lit.
  Variable reg : registry.
  Variable env : senv.

  Definition store := list (string * option (istruct J JK)).

  Definition cp_set (s : store) (id : string) (cp : val) : res store :=
    do oi <- marshal J JK jenc kenc fixed reg cp; Ok ((id, oi) :: s).

  (* Ok None = no checkpoint under this id *)
  Definition cp_get (s : store) (id : string) : res (option val) :=
    match alist_get id s with
    | None => Ok None
    | Some oi =>
        do v <- unmarshal J JK jdec kdec fixed reg env oi;
        if ty_eqb (ty_of v) t_checkpoint_ptr then Ok (Some v) else Panic
    end.

  (* a sequence of writes; the first failing one stops it (its error is returned to the
     run, which ends) *)
  Fixpoint cp_sets (s : store) (ws : list (string * val)) : res store :=
    match ws with
    | [] => Ok s
    | (id, cp) :: r => do s' <- cp_set s id cp; cp_sets s' r
    end.
End Store.

(* the field of a checkpoint record ( *checkpoint): Channels, Inputs, State, SkipPreHandler, SubGraphs *)
Definition ckpt_field (cp : val) (f : string) : option val :=
  match cp with
  | VPtr (VStruct _ fs) => alist_get f fs
  | _ => None
  end.

(* the scenario the correspondence check runs for every *checkpoint case: an earlier
   checkpoint under the same id, the checkpoint, another one under another id; then get *)
Definition ckpt_of (state : val) : val :=
  VPtr (VStruct S_CHECKPOINT
    [ ("Channels", VMap t_string (TIface I_CHANNEL) None);
      ("Inputs", VMap t_string TAny None);
      ("State", state);
      ("SkipPreHandler", VMap t_string (TBase BBool) None);
      ("SubGraphs", VMap t_string t_checkpoint_ptr None) ]).
Definition ckpt_first : val := ckpt_of (VIface TAny None).
Definition ckpt_other : val := ckpt_of (VIface TAny (Some (vstr "other"))).

Definition store_scenario_c (reg : registry) (env : senv) (cp : val) : res (option val) :=
  do s <- cp_sets lit lit jenc_c kenc_c reg [] [("a", ckpt_first); ("a", cp); ("b", ckpt_other)];
  cp_get lit lit jdec_c kdec_c reg env s "a".
