(* Model/IsolationEngine.v — property C09: the run of a compiled graph as a function of
   the compiled record and of per-run data only.

   This is the instance of the product system of Model/Isolation.v that the correspondence
   check evaluates: [C] = the compiled record ([graph]: nodes, edges, branches, trigger
   mode, step limit, state generator flag; nested graphs are nodes), [R] = [rstate], the
   state that compose/graph_run.go `runner.run` allocates per call (channel manager
   :799, tasks of the next superstep, option map utils.go:320, local state graph.go:808,
   step counter) and one superstep of that run as the step function [sstep].

   The node functions, branch conditions and state handlers are those of the harness zoo
   (harness/cmd/c09/zoo_*.go), so that the model PREDICTS the result (and the node-level
   events) of every call from the call's input and options alone, independently of the
   implementation; the harness compares each concurrent call with that prediction.

   What is modelled of the engine:
   * any-predecessor (Pregel) and all-predecessor (DAG) channels (compose/pregel.go,
     dag.go): fan-in merge of maps, branch skip propagation (graph_manager.go
     reportBranch), END detection (graph_run.go:578 calculateNextTasks), the step limit
     (:273) with the per-call override (:139), "no tasks" (:331);
   * state pre / post handlers run by the task manager around a node
     (graph_manager.go submit / waitOne), local state per graph that declares one, shared
     with nested graphs that do not (state.go getState);
   * distribution of call options to nodes by key, by path and by type
     (utils.go:320 extractOption);
   * nested graphs as nodes (a run to completion inside one node execution).
   Streams are not modelled here (C04/C08): the four paradigms give one model run.
   Callbacks are not modelled here (C10): callback events are compared solo/concurrent
   by the harness only.  Definitions only. *)
From Eino Require Import Base.Util.
From Coq Require Import DecimalString.
Local Open Scope string_scope.
Local Infix "+++" := app (right associativity, at level 60).

(* ------------------------------------------------------------------ strings *)

Definition zstr (z : Z) : string := NilZero.string_of_int (Z.to_int z).
Definition nstr (n : nat) : string := zstr (Z.of_nat n).

Fixpoint join (sep : string) (l : list string) : string :=
  match l with
  | [] => ""
  | [a] => a
  | a :: l' => a ++ sep ++ join sep l'
  end.

Fixpoint replace_aA (s : string) : string :=
  match s with
  | EmptyString => EmptyString
  | String c s' => String (if Ascii.eqb c "a"%char then "A"%char else c) (replace_aA s')
  end.

Fixpoint repeat_str (s : string) (n : nat) : string :=
  match n with O => "" | S n' => s ++ repeat_str s n' end.

Definition sort_strings (l : list string) : list string := sort_by string_ltb l.

(* strings.Split on one character: "a;b" -> [a; b], "" -> [""] *)
Fixpoint split_on (c : ascii) (s : string) : list string :=
  match s with
  | EmptyString => [EmptyString]
  | String x s' =>
      if Ascii.eqb x c then EmptyString :: split_on c s'
      else match split_on c s' with
           | [] => [String x EmptyString]
           | h :: t => String x h :: t
           end
  end.

(* the part before the first [c] and the part after it; None when [c] does not occur *)
Fixpoint cut_at (c : ascii) (s : string) : option (string * string) :=
  match s with
  | EmptyString => None
  | String x s' =>
      if Ascii.eqb x c then Some (EmptyString, s')
      else match cut_at c s' with Some (a, b) => Some (String x a, b) | None => None end
  end.

Definition has_prefix (p s : string) : bool := String.prefix p s.
Definition drop_str (n : nat) (s : string) : string := String.substring n (String.length s - n) s.
Definition has_suffix (suf s : string) : bool :=
  let n := String.length s in let k := String.length suf in
  Nat.leb k n && String.eqb (String.substring (n - k) k s) suf.
Definition trim_suffix (suf s : string) : string :=
  if has_suffix suf s then String.substring 0 (String.length s - String.length suf) s else s.

(* the harness replaces the tag of the call under observation by this token (same length
   as a tag, so that lengths computed by node functions agree) *)
Definition tagS : string := "<tSELF>".

(* ------------------------------------------------------------------ values *)

(* schema.Message as far as the harness renders it *)
Record tcall : Type := { tc_id : string; tc_name : string; tc_args : string }.
Record msg : Type := { m_role : string; m_content : string; m_calls : list tcall; m_for : string }.

Definition render_msg (m : msg) : string :=
  m_role m ++ ":" ++ m_content m
  ++ concat_strings (map (fun c => "{call " ++ tc_id c ++ " " ++ tc_name c ++ "(" ++ tc_args c ++ ")}") (m_calls m))
  ++ (if String.eqb (m_for m) "" then "" else "{for " ++ m_for m ++ "}").
Definition render_msgs (l : list msg) : string := "[" ++ join " ; " (map render_msg l) ++ "]".

Definition mk_msg (role content : string) : msg :=
  {| m_role := role; m_content := content; m_calls := []; m_for := "" |}.

Inductive val : Type :=
| VS (s : string)                                  (* string                         *)
| VR (id : string) (n lim : Z) (h : string)        (* harness record V{ID,N,Lim,H}   *)
| VM (kv : list (string * val))                    (* map[string]any, keys sorted    *)
| VMsg (m : msg)                                   (* *schema.Message                *)
| VMsgs (l : list msg)                             (* []*schema.Message              *)
| VDocs (ds : list (string * string))              (* []*schema.Document: id, content *)
| VStrs (l : list string)                          (* []string                       *)
| VVecs (l : list (list Z)).                       (* [][]float64 (whole numbers)    *)

Fixpoint render (v : val) : string :=
  match v with
  | VS s => s
  | VR id n lim h => "V{" ++ id ++ " n=" ++ zstr n ++ " lim=" ++ zstr lim ++ " h=" ++ h ++ "}"
  | VM kv =>
      "{" ++ join "," ((fix go (l : list (string * val)) : list string :=
                          match l with
                          | [] => []
                          | (k, x) :: l' => (k ++ "=" ++ render x) :: go l'
                          end) kv) ++ "}"
  | VMsg m => render_msg m
  | VMsgs l => render_msgs l
  | VDocs ds => "[" ++ join ";" (map (fun d => fst d ++ "=" ++ snd d) ds) ++ "]"
  | VStrs l => join "," l
  | VVecs l => "[" ++ join " " (map (fun v => "[" ++ join " " (map zstr v) ++ "]") l) ++ "]"
  end.

(* result of a node / of a run: a value or an error CLASS (what the harness renders:
   "node:<key>", "maxsteps", "other"); "FUEL" is the model's own out-of-fuel outcome and
   never equals an observation *)
Inductive out (A : Type) : Type := OK (a : A) | Fail (e : string).
Arguments OK {A} a.
Arguments Fail {A} e.

Fixpoint vm_put (k : string) (x : val) (l : list (string * val)) : option (list (string * val)) :=
  match l with
  | [] => Some [(k, x)]
  | (k', x') :: l' =>
      if string_ltb k k' then Some ((k, x) :: l)
      else if String.eqb k k' then None                       (* duplicate key: mergeValues fails *)
      else match vm_put k x l' with Some r => Some ((k', x') :: r) | None => None end
  end.

Fixpoint vm_union (a b : list (string * val)) : option (list (string * val)) :=
  match a with
  | [] => Some b
  | (k, x) :: a' => match vm_union a' b with Some r => vm_put k x r | None => None end
  end.

(* compose/values_merge.go mergeValues on what a channel holds: one value is taken as it is,
   several must be maps with distinct keys *)
Fixpoint merge_vals (vs : list val) : out val :=
  match vs with
  | [] => Fail "other"
  | [v] => OK v
  | v :: vs' =>
      match v, merge_vals vs' with
      | VM a, OK (VM b) => match vm_union a b with Some r => OK (VM r) | None => Fail "other" end
      | _, Fail e => Fail e
      | _, _ => Fail "other"
      end
  end.

(* ------------------------------------------------------------------ local state, options *)

(* harness state object St{Owner, Log, Sum} *)
Record stv : Type := {
  st_owner : string; st_log : list string; st_sum : Z;
  (* the agents' state: react {Messages, ReturnDirectlyToolCallID}, host {msgs} *)
  st_msgs : list msg; st_rd : string
}.
Definition st_new : stv := {| st_owner := tagS; st_log := []; st_sum := 0; st_msgs := []; st_rd := "" |}.
Definition st_logadd (s : stv) (l : string) (d : Z) : stv :=
  {| st_owner := st_owner s; st_log := st_log s +++ [l]; st_sum := (st_sum s + d)%Z;
     st_msgs := st_msgs s; st_rd := st_rd s |}.
Definition st_setmsgs (s : stv) (ms : list msg) (rd : string) : stv :=
  {| st_owner := st_owner s; st_log := st_log s; st_sum := st_sum s; st_msgs := ms; st_rd := rd |}.

(* a call option: kind (0 = lambda option; the agents use 1 = model, 2 = tool), designation
   paths ([] = undesignated), payload *)
Record copt : Type := { o_kind : N; o_paths : list (list string); o_val : string }.

(* what extractOption hands to one node: payloads for a component, whole options for a nested graph *)
Record nopts : Type := { no_vals : list string; no_sub : list copt }.
Definition nopts0 : nopts := {| no_vals := []; no_sub := [] |}.

Definition ostr (vals : list string) : string :=
  concat_strings (map (fun o => "[o=" ++ o ++ "]") vals).
Definition optev (key : string) (vals : list string) : list string :=
  match vals with [] => [] | _ => ["opt:" ++ key ++ "x" ++ nstr (List.length vals)] end.

(* ------------------------------------------------------------------ the compiled record *)

(* state handlers of the zoo *)
Inductive hfun : Type :=
| HPreSt (key : string)        (* log "pre:<key>:<id>", sum += lim+1 *)
| HPostSt (key : string)       (* log "post:<key>", sum += 100       *)
| HSPreJ                       (* stream pre handler of j: log "spre:j" *)
| HSPostJ                      (* stream post handler of j: log "spost:j" *)
| HPreLog (key : string)       (* log "pre:<key>"                    *)
| HPreReent                    (* log "pre:a@<lim>", sum := lim      *)
(* flow/agent/react/react.go:190 modelPreHandle: append the input to the state's messages, hand
   all of them to the model (through the message modifier when there is one) *)
| HReactModel (modifier : bool)
(* react.go:210 toolsNodePreHandle: append, remember the id of the first return-directly call *)
| HReactTools (rd : list string)
(* flow/agent/multiagent/host/compose.go:160 / :133 / :140 *)
| HHost (prompt : string)
| HSpecialist (prompt : string).

(* branch conditions of the zoo *)
Inductive bcode : Type :=
| BLoop                        (* V: N < Lim -> w, else f                       *)
| BLenMod (src : string) (targets : list string)   (* map: targets[len(render) mod n] *)
| BEvenOdd                     (* string: even length -> even, else odd         *)
| BBits (heads : list string)  (* map: heads[i] for every bit i of len(x), none -> first head *)
| BToolCalls (yes : string)    (* message: tool calls -> [yes], else END (react.go:219, host compose.go:180) *)
| BReturnDirectly              (* react.go:282: state.ReturnDirectlyToolCallID set -> direct_return, else chat *)
| BSpecialist.                 (* host compose.go:195: the name of the one tool call *)

Inductive nfun : Type :=
| FV (key : string)            (* V -> V: H += ">key" ++ options                 *)
| FLoop (key : string)         (* V -> V: N += 1, H += ">key"                    *)
| FFail (key : string) (failAt : Z)
| FJoinV (key : string)        (* map -> V                                       *)
| FM (key : string)            (* map -> {key: render(input) ++ options}         *)
| FConst (key : string)        (* map -> {key: "const"}: the node hands out the SAME long-lived map object on every run *)
| FStr (key : string)          (* string -> key(input) ++ options                *)
| FStrT (key : string)         (* string -> key[ ++ input with a -> A            *)
| FRender (key : string)       (* map -> its rendering                           *)
| FOdd
| FPass
| FStW (key : string)          (* V -> V, ProcessState: log "ps:key", sum += 7   *)
| FFin                         (* V -> V with N = sum, H += ">fin{sorted log}"   *)
| FInnerXj                     (* joinV "inner.xj", ProcessState log             *)
| FSubYf                       (* H += ">sub.yf{sorted log}"                     *)
| FOj                          (* joinV "oj", H += "{outer:log}"                 *)
| FWfL | FWfR | FWfM           (* the three nodes of the workflow                *)
| FWfC                         (* its guard node: rejects the input "a4", panics on "a5" *)
| FZ                           (* H += ">z{log|sum}"                             *)
| FRec                         (* calls the graph it belongs to again (re-entrant run) *)
| FModel (role : string) (ntools : nat)   (* the scripted fake chat model                *)
| FTools (tools : list string) (unknown : bool)   (* ToolsNode over the fake tools       *)
| FDirectReturn                (* react.go:254: the tool message of the return-directly call *)
| FToList                      (* message -> [message]                           *)
| FSLambda                     (* host specialist "slambda"                      *)
| FSReact (g : graph)          (* host specialist "sreact": the inner ReAct agent on the rest of the script *)
| FEmbedOut                    (* "A=" agent message " B=" agent message         *)
(* the component nodes of the "comp" kind (zoo_more.go) *)
| FTpl                         (* prompt.FromMessages: system, optional history, user *)
| FToq | FToSrc | FToStrs      (* message -> query, query -> source URI, documents -> contents *)
| FRet | FXf | FLd | FIdx | FEmb   (* retriever, transformer, loader, indexer, embedder *)
| FOutS (key : string)         (* rendering of the input as a string, event n:key *)
| FRr                          (* the node that interrupts once and is rerun     *)
| FCkC                         (* H += ">c{log}"                                 *)
| FSub (g : graph)             (* a nested graph                                 *)
with graph : Type :=
| Graph (nodes : list node) (edges : list (string * string)) (branches : list branch)
        (dag : bool) (maxsteps : nat)
        (statekind : N)   (* 0 no local state, 1 the harness generator (logs "gen"), 2 an agent's own state *)
        (* workflows: per edge the field mappings (source field, target field; "" = whole
           value), per node the static values (field, value) *)
        (fmaps : list (string * string * list (string * string)))
        (statics : list (string * string * string))
with node : Type :=
| Node (key : string) (f : nfun) (okind : option N) (outkey : option string) (pre post : option hfun)
with branch : Type :=
| Branch (from : string) (c : bcode) (ends : list string).

Definition g_nodes (g : graph) := let (n, _, _, _, _, _, _, _) := g in n.
Definition g_edges (g : graph) := let (_, e, _, _, _, _, _, _) := g in e.
Definition g_branches (g : graph) := let (_, _, b, _, _, _, _, _) := g in b.
Definition g_dag (g : graph) := let (_, _, _, d, _, _, _, _) := g in d.
Definition g_max (g : graph) := let (_, _, _, _, m, _, _, _) := g in m.
Definition g_statekind (g : graph) := let (_, _, _, _, _, s, _, _) := g in s.
Definition g_hasstate (g : graph) : bool := negb (N.eqb (g_statekind g) 0).
Definition g_fmaps (g : graph) := let (_, _, _, _, _, _, f, _) := g in f.
Definition g_statics (g : graph) := let (_, _, _, _, _, _, _, t) := g in t.
Definition n_key (n : node) := let (k, _, _, _, _, _) := n in k.
Definition n_fun (n : node) := let (_, f, _, _, _, _) := n in f.
Definition n_okind (n : node) := let (_, _, o, _, _, _) := n in o.
Definition n_outkey (n : node) := let (_, _, _, o, _, _) := n in o.
Definition n_pre (n : node) := let (_, _, _, _, p, _) := n in p.
Definition n_post (n : node) := let (_, _, _, _, _, p) := n in p.
Definition b_from (b : branch) := let (f, _, _) := b in f.
Definition b_code (b : branch) := let (_, c, _) := b in c.
Definition b_ends (b : branch) := let (_, _, e) := b in e.

Definition START : string := "start".
Definition ENDK : string := "end".

Definition is_sub (n : node) : bool := match n_fun n with FSub _ => true | _ => false end.

Fixpoint find_node (k : string) (ns : list node) : option node :=
  match ns with
  | [] => None
  | n :: ns' => if String.eqb k (n_key n) then Some n else find_node k ns'
  end.

Definition str_in (k : string) (l : list string) : bool := existsb (String.eqb k) l.

Fixpoint uniq (l : list string) : list string :=
  match l with
  | [] => []
  | a :: l' => a :: filter (fun b => negb (String.eqb a b)) (uniq l')
  end.

(* successors by direct edge *)
Definition write_to (g : graph) (k : string) : list string :=
  map snd (filter (fun e => String.eqb (fst e) k) (g_edges g)).
Definition branches_of (g : graph) (k : string) : list branch :=
  filter (fun b => String.eqb (b_from b) k) (g_branches g).
(* predecessors (control = data in graphs and chains): edges and branches that may select k *)
Definition preds (g : graph) (k : string) : list string :=
  uniq (map fst (filter (fun e => String.eqb (snd e) k) (g_edges g))
        +++ map b_from (filter (fun b => str_in k (b_ends b)) (g_branches g))).
Definition successors (g : graph) (k : string) : list string :=
  write_to g k +++ flat_map b_ends (branches_of g k).

(* ------------------------------------------------------------------ option distribution (utils.go:320) *)

Fixpoint nopts_add (k : string) (f : nopts -> nopts) (m : list (string * nopts)) : list (string * nopts) :=
  match m with
  | [] => [(k, f nopts0)]
  | (k', o) :: m' => if String.eqb k k' then (k', f o) :: m' else (k', o) :: nopts_add k f m'
  end.

Definition add_val (v : string) (o : nopts) : nopts := {| no_vals := no_vals o +++ [v]; no_sub := no_sub o |}.
Definition add_sub (c : copt) (o : nopts) : nopts := {| no_vals := no_vals o; no_sub := no_sub o +++ [c] |}.

Definition kind_matches (n : node) (k : N) : bool :=
  match n_okind n with Some k' => N.eqb k k' | None => false end.

(* one designation path of one option *)
Definition extract_path (ns : list node) (o : copt) (p : list string) (m : list (string * nopts))
  : out (list (string * nopts)) :=
  match p with
  | [] => Fail "other"                                           (* empty path *)
  | k :: rest =>
      match find_node k ns with
      | None => Fail "other"                                     (* unknown node *)
      | Some n =>
          match rest with
          | [] =>
              if is_sub n then OK (nopts_add k (add_sub {| o_kind := o_kind o; o_paths := []; o_val := o_val o |}) m)
              else if kind_matches n (o_kind o) then OK (nopts_add k (add_val (o_val o)) m)
              else Fail "other"                                  (* option type differs *)
          | _ =>
              if is_sub n then OK (nopts_add k (add_sub {| o_kind := o_kind o; o_paths := [rest]; o_val := o_val o |}) m)
              else Fail "other"                                  (* sub path of a component *)
          end
      end
  end.

Fixpoint extract_paths (ns : list node) (o : copt) (ps : list (list string)) (m : list (string * nopts))
  : out (list (string * nopts)) :=
  match ps with
  | [] => OK m
  | p :: ps' => match extract_path ns o p m with OK m' => extract_paths ns o ps' m' | Fail e => Fail e end
  end.

Definition extract_global (ns : list node) (o : copt) (m : list (string * nopts)) : list (string * nopts) :=
  fold_left (fun m n =>
               if is_sub n then nopts_add (n_key n) (add_sub o) m
               else if kind_matches n (o_kind o) then nopts_add (n_key n) (add_val (o_val o)) m
               else m) ns m.

Fixpoint extract_opts (ns : list node) (os : list copt) (m : list (string * nopts)) : out (list (string * nopts)) :=
  match os with
  | [] => OK m
  | o :: os' =>
      match o_paths o with
      | [] => extract_opts ns os' (extract_global ns o m)
      | ps => match extract_paths ns o ps m with OK m' => extract_opts ns os' m' | Fail e => Fail e end
      end
  end.

Definition opts_of (k : string) (m : list (string * nopts)) : nopts :=
  match alist_get k m with Some o => o | None => nopts0 end.

(* ------------------------------------------------------------------ per-run state *)

(* one channel: the values written since the node last ran; for the DAG also the state of
   every predecessor (0 waiting, 1 ready, 2 skipped), whether its data has arrived, and
   whether the node itself has been skipped *)
Record chan : Type := {
  ch_vals : list (string * val);
  ch_ctrl : list (string * N);
  ch_data : list (string * bool);
  ch_skip : bool
}.

Record rstate : Type := {
  rs_chans : list (string * chan);
  rs_next : list (string * val);            (* the tasks of the next superstep: node, input *)
  rs_st : option stv;                       (* the local state seen by this graph's nodes  *)
  rs_steps : nat;
  rs_ev : list string;                      (* node-level events, any order                *)
  rs_res : option (out val);
  rs_opts : list (string * nopts);          (* the option map of this call                 *)
  rs_max : nat;                             (* step limit of this call                     *)
  (* the context of THIS call: Some n = it is found cancelled at the top of the main loop once n
     supersteps are complete (a node of the run, or the caller, cancelled it during superstep n-1) *)
  rs_cancel : option nat
}.

Definition chan_init (g : graph) (k : string) : chan :=
  let ps := preds g k in
  {| ch_vals := []; ch_ctrl := map (fun p => (p, 0%N)) ps; ch_data := map (fun p => (p, false)) ps; ch_skip := false |}.

Definition chans_init (g : graph) : list (string * chan) :=
  map (fun n => (n_key n, chan_init g (n_key n))) (g_nodes g) +++ [(ENDK, chan_init g ENDK)].

Fixpoint chan_upd (k : string) (f : chan -> chan) (cs : list (string * chan)) : list (string * chan) :=
  match cs with
  | [] => []
  | (k', c) :: cs' => if String.eqb k k' then (k', f c) :: cs' else (k', c) :: chan_upd k f cs'
  end.

Definition set_assoc {A} (k : string) (a : A) (l : list (string * A)) : list (string * A) :=
  map (fun p => if String.eqb (fst p) k then (fst p, a) else p) l.

(* a workflow edge with field mappings hands on {target field: source field} (or the source
   field itself when the target is the whole input); an edge without mapping hands on the value *)
Definition vfield (f : string) (v : val) : option val :=
  if String.eqb f "" then Some v
  else match v with VM kv => alist_get f kv | _ => None end.

Fixpoint map_fields (ms : list (string * string)) (v : val) (acc : list (string * val)) : option val :=
  match ms with
  | [] => Some (VM acc)
  | (src, dst) :: ms' =>
      match vfield src v with
      | None => None
      | Some x =>
          if String.eqb dst "" then Some x
          else match vm_put dst x acc with Some acc' => map_fields ms' v acc' | None => None end
      end
  end.

Definition edge_maps (g : graph) (from to : string) : option (list (string * string)) :=
  (fix go (l : list (string * string * list (string * string))) :=
     match l with
     | [] => None
     | (f, t, ms) :: l' => if String.eqb f from && String.eqb t to then Some ms else go l'
     end) (g_fmaps g).

Definition edge_value (g : graph) (from to : string) (v : val) : out val :=
  match edge_maps g from to with
  | None => OK v
  | Some ms => match map_fields ms v [] with Some x => OK x | None => Fail "other" end
  end.

(* static values are put into the node's input before it runs *)
Definition with_statics (g : graph) (k : string) (v : val) : val :=
  fold_left (fun v t => match t, v with
                        | (k', f, x), VM kv =>
                            if String.eqb k k' then match vm_put f (VS x) kv with Some kv' => VM kv' | None => v end else v
                        | _, _ => v
                        end) (g_statics g) v.

(* reportValues *)
Definition report_value (dag : bool) (from : string) (v : val) (c : chan) : chan :=
  if dag then
    if ch_skip c then c
    else match alist_get from (ch_data c) with
         | None => c
         | Some _ => {| ch_vals := alist_set from v (ch_vals c); ch_ctrl := ch_ctrl c;
                        ch_data := set_assoc from true (ch_data c); ch_skip := false |}
         end
  else {| ch_vals := alist_set from v (ch_vals c); ch_ctrl := ch_ctrl c; ch_data := ch_data c; ch_skip := ch_skip c |}.

(* reportDependencies *)
Definition report_dep (dag : bool) (from : string) (c : chan) : chan :=
  if dag && negb (ch_skip c) then
    {| ch_vals := ch_vals c; ch_ctrl := set_assoc from 1%N (ch_ctrl c); ch_data := ch_data c; ch_skip := false |}
  else c.

(* reportSkip of one predecessor; the boolean says whether the node is now skipped *)
Definition report_skip (from : string) (c : chan) : chan * bool :=
  let ctrl := set_assoc from 2%N (ch_ctrl c) in
  let data := set_assoc from true (ch_data c) in
  let all := forallb (fun p => N.eqb (snd p) 2%N) ctrl in
  ({| ch_vals := ch_vals c; ch_ctrl := ctrl; ch_data := data; ch_skip := all |}, all).

(* channelManager.reportBranch: skip the given successors of [from]; a node all of whose
   predecessors are skipped is skipped and the skip is handed on (work list with fuel =
   number of channels squared, enough for any finite graph) *)
Fixpoint skip_propagate (fuel : nat) (g : graph) (work : list (string * string)) (cs : list (string * chan))
  : list (string * chan) :=
  match fuel with
  | O => cs
  | S fuel' =>
      match work with
      | [] => cs
      | (from, k) :: work' =>
          match alist_get k cs with
          | None => skip_propagate fuel' g work' cs
          | Some c =>
              let (c', now) := report_skip from c in
              let cs' := chan_upd k (fun _ => c') cs in
              if now then skip_propagate fuel' g (work' +++ map (fun s => (k, s)) (successors g k)) cs'
              else skip_propagate fuel' g work' cs'
          end
      end
  end.

Definition report_branch (g : graph) (from : string) (skipped : list string) (cs : list (string * chan)) :=
  if g_dag g then
    skip_propagate (S (List.length cs) * S (List.length cs) + List.length skipped) g (map (fun k => (from, k)) skipped) cs
  else cs.

(* channel.get: Some (input, channel after the read) when the node is ready *)
Definition chan_get (dag : bool) (c : chan) : option (out val * chan) :=
  if dag then
    if ch_skip c then None
    else if existsb (fun p => N.eqb (snd p) 0%N) (ch_ctrl c) then None
    else if existsb (fun p => negb (snd p)) (ch_data c) then None
    else Some (merge_vals (map snd (ch_vals c)),
               {| ch_vals := []; ch_ctrl := map (fun p => (fst p, 0%N)) (ch_ctrl c);
                  ch_data := map (fun p => (fst p, false)) (ch_data c); ch_skip := false |})
  else
    match ch_vals c with
    | [] => None
    | vs => Some (merge_vals (map snd vs),
                  {| ch_vals := []; ch_ctrl := ch_ctrl c; ch_data := ch_data c; ch_skip := ch_skip c |})
    end.

(* getFromReadyChannels *)
Fixpoint get_ready (dag : bool) (cs : list (string * chan))
  : out (list (string * val)) * list (string * chan) :=
  match cs with
  | [] => (OK [], [])
  | (k, c) :: cs' =>
      let (r, rest) := get_ready dag cs' in
      match chan_get dag c with
      | None => (r, (k, c) :: rest)
      | Some (OK v, c') => (match r with OK l => OK ((k, v) :: l) | Fail e => Fail e end, (k, c') :: rest)
      | Some (Fail e, c') => (Fail e, (k, c') :: rest)
      end
  end.

(* ------------------------------------------------------------------ node functions, handlers, branches *)

(* ---- the scripted fake model (harness/cmd/c09/zoo_agent.go fakeModel.answer) *)

Definition opt_payload (vals : list string) : string := concat_strings vals.
Definition opt_suffix (vals : list string) : string :=
  if String.eqb (opt_payload vals) "" then "" else "[o=" ++ opt_payload vals ++ "]".

(* the script: in the first user message that has one, what stands between the first and
   the second blank *)
Fixpoint script_of (ms : list msg) : string :=
  match ms with
  | [] => ""
  | m :: ms' =>
      if String.eqb (m_role m) "user" then
        match cut_at " "%char (m_content m) with
        | Some (_, rest) =>
            let sc := match cut_at " "%char rest with Some (a, _) => a | None => rest end in
            if String.eqb sc "" then script_of ms' else sc
        | None => script_of ms'
        end
      else script_of ms'
  end.

Definition parse_call (round i : nat) (c : string) : tcall :=
  match cut_at "("%char c with
  | Some (name, rest) =>
      {| tc_id := "c" ++ nstr round ++ "_" ++ nstr i; tc_name := name; tc_args := tagS ++ trim_suffix ")" rest |}
  | None => {| tc_id := "c" ++ nstr round ++ "_" ++ nstr i; tc_name := c; tc_args := tagS |}
  end.

Fixpoint parse_calls (round i : nat) (cs : list string) : list tcall :=
  match cs with
  | [] => []
  | c :: cs' => parse_call round i c :: parse_calls round (S i) cs'
  end.

Definition model_answer (role : string) (ntools : nat) (vals : list string) (input : list msg) : msg :=
  let all := render_msgs input in
  let o := opt_suffix vals in
  let tools := "(" ++ nstr ntools ++ " tools)" in
  if negb (String.eqb role "react") && negb (String.eqb role "host") then
    mk_msg "assistant" (role ++ " says " ++ tools ++ o ++ " after " ++ all)
  else
    let round := List.length (filter (fun m => String.eqb (m_role m) "assistant") input) in
    match nth_error (split_on ";"%char (script_of input)) round with
    | None => mk_msg "assistant" ("done" ++ o ++ " after " ++ all)
    | Some st =>
        if has_prefix "call:" st then
          {| m_role := "assistant"; m_content := ""; m_for := "";
             m_calls := parse_calls round 0 (split_on "+"%char (drop_str 5 st)) |}
        else
          mk_msg "assistant" ((if has_prefix "say:" st then drop_str 4 st else st) ++ tools ++ o ++ " after " ++ all)
    end.

(* ---- ToolsNode over the fake tools (compose/tool_node.go, zoo_agent.go fakeTool) *)

(* per-call tool list: an option payload "!a,b" replaces the configured tools *)
Definition tool_list (conf : list string) (vals : list string) : list string :=
  fold_left (fun acc v => if has_prefix "!" v then split_on ","%char (drop_str 1 v) else acc) vals conf.
Definition tool_vals (vals : list string) : list string := filter (fun v => negb (has_prefix "!" v)) vals.

Definition run_tool (tools : list string) (unknown : bool) (vals : list string) (c : tcall)
  : out msg * list string :=
  let tm (content : string) := {| m_role := "tool"; m_content := content; m_calls := []; m_for := tc_id c |} in
  if existsb (String.eqb (tc_name c)) tools then
    if has_suffix "!fail" (tc_args c) && negb (String.eqb (tc_name c) "sp") then
      (Fail ("node:tool_" ++ tc_name c), ["t:" ++ tc_name c])
    else
      let m := tm (tc_name c ++ "(" ++ tc_args c ++ ")#" ++ tc_id c ++ opt_suffix vals) in
      (OK m, ("t:" ++ tc_name c) :: ("fut:" ++ render_msg m)
             :: (if String.eqb (opt_payload vals) "" then [] else ["opt:t:" ++ tc_name c]))
  else if unknown then
    let m := tm ("unknown(" ++ tc_name c ++ "," ++ tc_args c ++ ")") in (OK m, ["t:unknown"; "fut:" ++ render_msg m])
  else (Fail "other", []).

(* all calls run (in parallel in the implementation); the first failing call is the error *)
Fixpoint run_tools (tools : list string) (unknown : bool) (vals : list string) (cs : list tcall)
  : out (list msg) * list string :=
  match cs with
  | [] => (OK [], [])
  | c :: cs' =>
      let (r, ev) := run_tool tools unknown vals c in
      let (rs, ev') := run_tools tools unknown vals cs' in
      (match r, rs with
       | Fail e, _ => Fail e
       | OK _, Fail e => Fail e
       | OK m, OK ms => OK (m :: ms)
       end, ev +++ ev')
  end.

(* the embedder's hash of a text, the call tag skipped (zoo_more.go fakeEmbedder) *)
Fixpoint emb_hash (s : string) (skipping : bool) (h : Z) : Z :=
  match s with
  | EmptyString => h
  | String c s' =>
      if skipping then emb_hash s' (negb (Ascii.eqb c ">"%char)) h
      else if Ascii.eqb c "<"%char then emb_hash s' true h
      else emb_hash s' false (Z.modulo (h * 31 + Z.of_N (N_of_ascii c)) 9973)
  end.

Definition first_vr (kv : list (string * val)) : option (string * Z * Z) :=
  (fix go (l : list (string * val)) :=
     match l with
     | [] => None
     | (_, VR id n lim _) :: _ => Some (id, n, lim)
     | _ :: l' => go l'
     end) kv.

Definition join_v (key : string) (v : val) : out val :=
  match v with
  | VM kv =>
      let h := "(" ++ render v ++ ")>" ++ key in
      match first_vr kv with
      | Some (id, n, lim) => OK (VR id n lim h)
      | None => OK (VR "" 0 0 h)
      end
  | _ => Fail "other"
  end.

Definition sorted_log (s : option stv) : string :=
  match s with Some s => join "," (sort_strings (st_log s)) | None => "" end.

(* a component node: (output, state, events) *)
Definition apply_comp (f : nfun) (vals : list string) (v : val) (st : option stv)
  : out val * option stv * list string :=
  match f, v with
  | FV key, VR id n lim h => (OK (VR id n lim (h ++ ">" ++ key ++ ostr vals)), st, ("n:" ++ key) :: optev key vals)
  | FLoop key, VR id n lim h => (OK (VR id (n + 1)%Z lim (h ++ ">" ++ key)), st, ["n:" ++ key])
  | FFail key at_, VR id n lim h =>
      if Z.eqb lim at_ then (Fail ("node:" ++ key), st, ["n:" ++ key])
      else (OK (VR id n lim (h ++ ">" ++ key)), st, ["n:" ++ key])
  | FJoinV key, _ => (join_v key v, st, ["n:" ++ key])
  | FM key, VM _ => (OK (VM [(key, VS (render v ++ ostr vals))]), st, ("n:" ++ key) :: optev key vals)
  | FConst key, VM _ => (OK (VM [(key, VS "const")]), st, ["n:" ++ key])
  | FStr key, VS s => (OK (VS (key ++ "(" ++ s ++ ")" ++ ostr vals)), st, ("n:" ++ key) :: optev key vals)
  | FStrT key, VS s => (OK (VS (key ++ "[" ++ replace_aA s)), st, ["n:" ++ key])
  | FRender key, VM _ => (OK (VS (render v)), st, ["n:" ++ key])
  | FOdd, VS s => (OK (VS ("odd(" ++ s ++ ")")), st, ["n:odd"])
  | FPass, _ => (OK v, st, [])
  | FStW key, VR id n lim h =>
      match st with
      | Some s => (OK (VR id n lim (h ++ ">" ++ key)), Some (st_logadd s ("ps:" ++ key) 7), ["n:" ++ key])
      | None => (Fail "other", st, ["n:" ++ key])
      end
  | FFin, VR id n lim h =>
      match st with
      | Some s => (OK (VR id (st_sum s) lim (h ++ ">fin{" ++ sorted_log st ++ "}")), st, ["n:fin"])
      | None => (Fail "other", st, ["n:fin"])
      end
  | FInnerXj, _ =>
      match st with
      | Some s => (join_v "inner.xj" v, Some (st_logadd s "ps:inner.xj" 0), ["n:inner.xj"])
      | None => (Fail "other", st, ["n:inner.xj"])
      end
  | FSubYf, VR id n lim h =>
      match st with
      | Some s => (OK (VR id n lim (h ++ ">sub.yf{" ++ sorted_log st ++ "}")), st, ["n:sub.yf"])
      | None => (Fail "other", st, ["n:sub.yf"])
      end
  | FOj, _ =>
      match st, join_v "oj" v with
      | Some s, OK (VR id n lim h) => (OK (VR id n lim (h ++ "{outer:" ++ join "," (st_log s) ++ "}")), st, ["n:oj"])
      | _, _ => (Fail "other", st, ["n:oj"])
      end
  | FWfL, VM kv =>
      match alist_get "ID" kv, alist_get "A" kv with
      | Some (VS id), Some (VS a) => (OK (VS ("l(" ++ id ++ "," ++ a ++ ")" ++ ostr vals)), st, "n:l" :: optev "l" vals)
      | _, _ => (Fail "other", st, ["n:l"])
      end
  | FWfR, VS s => (OK (VM [("v", VS ("r(" ++ s ++ ")"))]), st, ["n:r"])
  | FWfC, VS s =>
      if String.eqb s "a4" then (Fail "node:c", st, ["n:c"])
      else if String.eqb s "a5" then (Fail "panic", st, ["n:c"])     (* the guard panics: recovered by the executor, the task's error *)
      else (OK (VS ("c(" ++ s ++ ")")), st, ["n:c"])
  | FWfM, VM kv =>
      match alist_get "ID" kv, alist_get "X" kv, alist_get "Y" kv, alist_get "S" kv, alist_get "C" kv with
      | Some (VS id), Some (VS x), Some (VS y), Some (VS s), Some (VS c) =>
          (OK (VS ("WOut{" ++ id ++ "|m(" ++ x ++ ";" ++ y ++ ";" ++ s ++ ";" ++ c ++ ")" ++ ostr vals ++ "|" ++ s ++ "}")), st,
           "n:m" :: optev "m" vals)
      | _, _, _, _, _ => (Fail "other", st, ["n:m"])
      end
  | FModel role ntools, VMsgs input =>
      let a := model_answer role ntools vals input in
      (OK (VMsg a), st,
       ("m:" ++ role) :: ("fut:" ++ render_msg a) :: (if String.eqb (opt_payload vals) "" then [] else ["opt:m:" ++ role]))
  | FTools conf unknown, VMsg m =>
      if negb (String.eqb (m_role m) "assistant") then (Fail "other", st, [])
      else match m_calls m with
           | [] => (Fail "other", st, [])
           | cs =>
               (* an unknown tool without a handler fails before any tool runs *)
               let tl := tool_list conf vals in
               if negb unknown && existsb (fun c => negb (existsb (String.eqb (tc_name c)) tl)) cs then (Fail "other", st, [])
               else let (r, ev) := run_tools tl unknown (tool_vals vals) cs in
                    (match r with OK ms => OK (VMsgs ms) | Fail e => Fail e end, st, ev)
           end
  | FDirectReturn, VMsgs ms =>
      match st with
      | Some s =>
          match filter (fun m => String.eqb (m_for m) (st_rd s)) ms with
          | m :: _ => (OK (VMsg m), st, [])
          | [] => (Fail "other", st, [])
          end
      | None => (Fail "other", st, [])
      end
  | FToList, VMsg m => (OK (VMsgs [m]), st, [])
  | FSLambda, VMsgs input => (OK (VMsg (mk_msg "assistant" ("slambda saw " ++ render_msgs input))), st, ["n:slambda"])
  | FEmbedOut, VM kv =>
      match alist_get "ag" kv, alist_get "ag2" kv with
      | Some (VMsg a), Some (VMsg b) => (OK (VS ("A=" ++ render_msg a ++ " B=" ++ render_msg b)), st, ["n:out"])
      | _, _ => (Fail "other", st, ["n:out"])
      end
  | FTpl, VM kv =>
      match alist_get "id" kv, alist_get "x" kv with
      | Some (VS id), Some (VS x) =>
          let hist := match alist_get "hist" kv with Some (VMsgs l) => l | _ => [] end in
          (OK (VMsgs (mk_msg "system" ("you answer " ++ id) :: hist +++ [mk_msg "user" (id ++ " question " ++ x)])), st, [])
      | _, _ => (Fail "other", st, [])
      end
  | FToq, VMsg m => (OK (VS ("q:" ++ m_content m)), st, ["n:toq"])
  | FToSrc, VS q => (OK (VS ("uri://" ++ q)), st, ["n:tosrc"])
  | FToStrs, VDocs ds => (OK (VStrs (map snd ds)), st, ["n:tostrs"])
  | FRet, VS q =>
      (OK (VDocs [("d0", "doc0(" ++ q ++ ")" ++ opt_suffix vals); ("d1", "doc1(" ++ nstr (String.length q) ++ ")")]), st,
       "c:ret" :: (if String.eqb (opt_payload vals) "" then [] else ["opt:c:ret"]))
  | FXf, VDocs ds =>
      (OK (VDocs (map (fun d => (fst d ++ "x", "xf(" ++ snd d ++ ")" ++ opt_suffix vals)) ds)), st,
       "c:xf" :: (if String.eqb (opt_payload vals) "" then [] else ["opt:c:xf"]))
  | FLd, VS uri =>
      (OK (VDocs [("l0", "loaded(" ++ uri ++ ")" ++ opt_suffix vals)]), st,
       "c:ld" :: (if String.eqb (opt_payload vals) "" then [] else ["opt:c:ld"]))
  | FIdx, VDocs ds =>
      (OK (VStrs (map (fun d => "id(" ++ fst d ++ ":" ++ nstr (String.length (snd d)) ++ ")" ++ opt_suffix vals) ds)), st,
       "c:idx" :: (if String.eqb (opt_payload vals) "" then [] else ["opt:c:idx"]))
  | FEmb, VStrs l =>
      let extra := Z.of_nat (String.length (opt_payload vals)) in
      (OK (VVecs (map (fun t => [Z.of_nat (String.length t); emb_hash t false 0; extra]) l)), st,
       "c:emb" :: (if String.eqb (opt_payload vals) "" then [] else ["opt:c:emb"]))
  | FOutS key, _ => (OK (VS (render v)), st, ["n:" ++ key])
  (* graph_run.go:545-551: a node that asked for InterruptAndRerun is rerun on resume with the
     ZERO VALUE of its input type (its original input is not kept in the checkpoint) *)
  | FRr, VR _ _ _ _ => (OK (VR "" 0 0 ">rr"), st, ["n:rr"; "n:rr"])
  | FCkC, VR id n lim h =>
      match st with
      | Some s => (OK (VR id n lim (h ++ ">c{" ++ join "," (st_log s) ++ "}")), st, ["n:c"])
      | None => (Fail "other", st, ["n:c"])
      end
  | FZ, VR id n lim h =>
      match st with
      | Some s => (OK (VR id n lim (h ++ ">z{" ++ join "," (st_log s) ++ "|" ++ zstr (st_sum s) ++ "}")), st, ["n:z"])
      | None => (Fail "other", st, ["n:z"])
      end
  | _, _ => (Fail "other", st, [])
  end.

Definition rd_call_id (rd : list string) (m : msg) : string :=
  (fix go (cs : list tcall) :=
     match cs with
     | [] => ""
     | c :: cs' => if existsb (String.eqb (tc_name c)) rd then tc_id c else go cs'
     end) (m_calls m).

(* handlers that replace the node's input (the agents' pre handlers); None = input unchanged *)
Definition handler_input (h : hfun) (v : val) (st : option stv) : option val * option stv * list string :=
  match st, h, v with
  | Some s, HReactModel modifier, VMsgs input =>
      let all := st_msgs s +++ input in
      (Some (VMsgs (if modifier then mk_msg "system" "persona" :: all else all)),
       Some (st_setmsgs s all (st_rd s)), if modifier then ["modifier"] else [])
  | Some s, HReactTools rd, VMsg m =>
      (None, Some (st_setmsgs s (st_msgs s +++ [m]) (rd_call_id rd m)), [])
  | Some s, HHost prompt, VMsgs input =>
      (Some (VMsgs (mk_msg "system" prompt :: input)), Some (st_setmsgs s input (st_rd s)), [])
  | Some s, HSpecialist prompt, _ =>
      (Some (VMsgs (if String.eqb prompt "" then st_msgs s else mk_msg "system" prompt :: st_msgs s)), st, [])
  | _, _, _ => (None, st, [])
  end.

Definition apply_handler (h : hfun) (v : val) (st : option stv) : option stv * list string :=
  match st with
  | None => (None, [])
  | Some s =>
      match h with
      | HReactModel _ | HReactTools _ | HHost _ | HSpecialist _ =>
          let '(_, st', ev) := handler_input h v st in (st', ev)
      | HPreSt key =>
          match v with
          | VR id _ lim _ => (Some (st_logadd s ("pre:" ++ key ++ ":" ++ id) (lim + 1)), ["pre:" ++ key])
          | _ => (st, ["pre:" ++ key])
          end
      | HPostSt key => (Some (st_logadd s ("post:" ++ key) 100), ["post:" ++ key])
      | HSPreJ => (Some (st_logadd s "spre:j" 0), ["spre:j"])
      | HSPostJ => (Some (st_logadd s "spost:j" 0), ["spost:j"])
      | HPreLog key => (Some (st_logadd s ("pre:" ++ key) 0), ["pre:" ++ key])
      | HPreReent =>
          match v with
          | VR _ _ lim _ => (Some {| st_owner := st_owner s; st_log := st_log s +++ ["pre:a@" ++ zstr lim]; st_sum := lim;
                                     st_msgs := st_msgs s; st_rd := st_rd s |}, ["pre:a"])
          | _ => (st, ["pre:a"])
          end
      end
  end.

Definition wrap_outkey (ok : option string) (v : val) : val :=
  match ok with Some k => VM [(k, v)] | None => v end.

Definition eval_branch (c : bcode) (v : val) (st : option stv) : out (list string) * list string :=
  match c, v with
  | BToolCalls yes, VMsg m => (OK [match m_calls m with [] => "end" | _ => yes end], [])
  | BReturnDirectly, _ =>
      (match st with
       | Some s => OK [if String.eqb (st_rd s) "" then "chat" else "direct_return"]
       | None => Fail "other"
       end, [])
  | BSpecialist, VMsgs [m] =>
      (match m_calls m with [c] => OK [tc_name c] | _ => Fail "other" end, [])
  | BSpecialist, _ => (Fail "other", [])
  | BLoop, VR _ n lim _ => (OK [if Z.ltb n lim then "w" else "f"], ["b:w"])
  | BLenMod src targets, VM _ =>
      (match nth_error targets (Nat.modulo (String.length (render v)) (List.length targets)) with
       | Some t => OK [t]
       | None => Fail "other"
       end, ["b:" ++ src])
  | BEvenOdd, VS s => (OK [if Nat.even (String.length s) then "even" else "odd"], ["b:join"])
  | BBits heads, VM kv =>
      match alist_get "x" kv with
      | Some (VS x) =>
          let l := String.length x in
          let sel := (fix go (i : nat) (hs : list string) : list string :=
                        match hs with
                        | [] => []
                        | h :: hs' => (if Nat.odd (Nat.div l (Nat.pow 2 i)) then [h] else []) +++ go (S i) hs'
                        end) O heads in
          (OK (match sel with [] => firstn 1 heads | _ => sel end), ["b:start"])
      | _ => (Fail "other", ["b:start"])
      end
  | _, _ => (Fail "other", [])
  end.

(* ------------------------------------------------------------------ one superstep *)

(* resolveCompletedTasks for one completed node: branches, then values and dependencies *)
Fixpoint eval_branches (bs : list branch) (v : val) (st : option stv)
  : out (list string * list string) * list string :=
  match bs with
  | [] => (OK ([], []), [])
  | b :: bs' =>
      let (r, ev) := eval_branch (b_code b) v st in
      match r with
      | Fail e => (Fail e, ev)
      | OK chosen =>
          let (r', ev') := eval_branches bs' v st in
          match r' with
          | Fail e => (Fail e, ev +++ ev')
          | OK (ch', sk') =>
              (OK (chosen +++ ch', filter (fun k => negb (str_in k chosen)) (b_ends b) +++ sk'), ev +++ ev')
          end
      end
  end.

Definition resolve_one (g : graph) (st : option stv) (k : string) (v : val) (cs : list (string * chan))
  : out (list (string * chan)) * list string :=
  let (r, ev) := eval_branches (branches_of g k) v st in
  match r with
  | Fail e => (Fail e, ev)
  | OK (chosen, skipped0) =>
      let skipped := filter (fun s => negb (str_in s chosen)) (uniq skipped0) in
      let cs1 := report_branch g k skipped cs in
      let nexts := uniq (chosen +++ write_to g k) in
      let dag := g_dag g in
      let cs2 := fold_left (fun cs t => match edge_value g k t v with
                                        | OK x => chan_upd t (report_value dag k x) cs
                                        | Fail _ => cs
                                        end) nexts cs1 in
      let cs3 := fold_left (fun cs t => chan_upd t (report_dep dag k) cs) (uniq (write_to g k +++ chosen)) cs2 in
      (OK cs3, ev)
  end.

Fixpoint resolve_all (g : graph) (st : option stv) (done : list (string * val)) (cs : list (string * chan))
  : out (list (string * chan)) * list string :=
  match done with
  | [] => (OK cs, [])
  | (k, v) :: done' =>
      let (r, ev) := resolve_one g st k v cs in
      match r with
      | Fail e => (Fail e, ev)
      | OK cs' => let (r', ev') := resolve_all g st done' cs' in (r', ev +++ ev')
      end
  end.

(* calculateNextTasks: resolve, read the ready channels, detect END *)
Definition next_tasks (g : graph) (done : list (string * val)) (r : rstate) (ev : list string) : rstate :=
  let finish (o : out val) (evs : list string) :=
    {| rs_chans := rs_chans r; rs_next := []; rs_st := rs_st r; rs_steps := rs_steps r;
       rs_ev := rs_ev r +++ ev +++ evs; rs_res := Some o; rs_opts := rs_opts r; rs_max := rs_max r; rs_cancel := rs_cancel r |} in
  let (rc, bev) := resolve_all g (rs_st r) done (rs_chans r) in
  match rc with
  | Fail e => finish (Fail e) bev
  | OK cs =>
      let (rdy, cs') := get_ready (g_dag g) cs in
      match rdy with
      | Fail e => finish (Fail e) bev
      | OK ready =>
          match alist_get ENDK ready with
          | Some v => finish (OK v) bev
          | None =>
              {| rs_chans := cs'; rs_next := map (fun t => (fst t, with_statics g (fst t) (snd t))) ready; rs_st := rs_st r; rs_steps := rs_steps r;
                 rs_ev := rs_ev r +++ ev +++ bev; rs_res := None; rs_opts := rs_opts r; rs_max := rs_max r; rs_cancel := rs_cancel r |}
          end
      end
  end.

(* the top of runner.run for a call: fresh channels, the option map of THIS call, the local
   state from the generator, the first tasks from START *)
Definition run_init (g : graph) (input : val) (opts : list copt) (maxo : option nat) (cancel : option nat) (parent_st : option stv) : rstate :=
  let st := if g_hasstate g then Some st_new else parent_st in
  let ev0 := if N.eqb (g_statekind g) 1 then ["gen"] else [] in
  let mx := match maxo with Some m => m | None => g_max g end in
  match extract_opts (g_nodes g) opts [] with
  | Fail e =>
      {| rs_chans := []; rs_next := []; rs_st := parent_st; rs_steps := O; rs_ev := []; rs_res := Some (Fail e);
         rs_opts := []; rs_max := mx; rs_cancel := cancel |}
  | OK om =>
      next_tasks g [(START, input)]
        {| rs_chans := chans_init g; rs_next := []; rs_st := st; rs_steps := O; rs_ev := []; rs_res := None;
           rs_opts := om; rs_max := mx; rs_cancel := cancel |} ev0
  end.

Fixpoint iter_opt {A} (n : nat) (f : A -> option A) (a : A) : A :=
  match n with
  | O => a
  | S n' => match f a with None => a | Some a' => iter_opt n' f a' end
  end.

Definition run_bound (g : graph) (mx : nat) : nat :=
  (if g_dag g then List.length (g_nodes g) else mx) + 3.

(* state seen by the caller of a nested graph after the nested run *)
Definition st_after (g : graph) (parent_st : option stv) (r : rstate) : option stv :=
  if g_hasstate g then parent_st else rs_st r.

(* the check of the run's own context at the top of every iteration of the main loop *)
Definition cancelled (r : rstate) : bool :=
  match rs_cancel r with Some n => Nat.leb n (rs_steps r) | None => false end.

Section Step.
  (* how a nested graph is run to completion inside one node execution *)
  Variable run_sub : graph -> val -> list copt -> option stv -> out val * option stv * list string.

  Definition apply_node (g : graph) (n : node) (o : nopts) (v : val) (st : option stv)
    : out val * option stv * list string :=
    match n_fun n with
    | FSub g' => run_sub g' v (no_sub o) st
    | FRec =>
        match v with
        | VR id n_ lim h =>
            if Z.leb lim 0 then (OK (VR id n_ lim (h ++ ">rec.")), st, ["n:rec"])
            else
              (* a complete run of the same compiled graph, no options, while this run is in progress *)
              let '(o', _, ev) := run_sub g (VR id (n_ + 1)%Z (lim - 1)%Z ("sub" ++ zstr (lim - 1))) [] st in
              match o' with
              | OK (VR _ n' _ h') => (OK (VR id n' lim (h ++ ">rec(" ++ h' ++ ")")), st, "n:rec" :: ev)
              | OK _ => (Fail "other", st, "n:rec" :: ev)
              | Fail e => (Fail e, st, "n:rec" :: ev)
              end
        | _ => (Fail "other", st, ["n:rec"])
        end
    | FSReact g' =>
        (* zoo_agent.go subScript: the inner agent gets the tag and what follows the host's step *)
        match v with
        | VMsgs input =>
            let user := filter (fun m => String.eqb (m_role m) "user") input in
            let inner_in :=
              match user with
              | [] => input
              | m :: _ =>
                  match cut_at " "%char (m_content m) with
                  | Some (tag, rest) =>
                      match cut_at " "%char rest with
                      | Some (_, rest2) => [mk_msg "user" (tag ++ " " ++ rest2)]
                      | None => [mk_msg "user" (tag ++ " say:nothing")]
                      end
                  | None => [mk_msg "user" (m_content m ++ " say:nothing")]
                  end
              end in
            let '(o', _, ev) := run_sub g' (VMsgs inner_in) [] st in (o', st, "n:sreact" :: ev)
        | _ => (Fail "other", st, ["n:sreact"])
        end
    | f => apply_comp f (no_vals o) v st
    end.

  (* pre handlers of all tasks first (taskManager.submit), in task order *)
  Fixpoint run_pres (g : graph) (tasks : list (string * val)) (st : option stv)
    : list (string * val) * option stv * list string :=
    match tasks with
    | [] => ([], st, [])
    | (k, v) :: tasks' =>
        let '(v1, st1, ev1) :=
          match find_node k (g_nodes g) with
          | Some n =>
              match n_pre n with
              | Some h =>
                  let '(nv, _, _) := handler_input h v st in
                  let (s', e) := apply_handler h v st in
                  (match nv with Some x => x | None => v end, s', e)
              | None => (v, st, [])
              end
          | None => (v, st, [])
          end in
        let '(ts, st2, ev2) := run_pres g tasks' st1 in ((k, v1) :: ts, st2, ev1 +++ ev2)
    end.

  (* then every node and, on success, its post handler (taskManager.waitOne); the first
     failing node (in task order) is the error of the run, all nodes of the step have run *)
  Fixpoint run_nodes (g : graph) (om : list (string * nopts)) (tasks : list (string * val)) (st : option stv)
    : list (string * val) * option string * option stv * list string :=
    match tasks with
    | [] => ([], None, st, [])
    | (k, v) :: tasks' =>
        match find_node k (g_nodes g) with
        | None => ([], Some "other", st, [])
        | Some n =>
            let '(o, st1, ev1) := apply_node g n (opts_of k om) v st in
            let '(o', st2, ev2) :=
              match o with
              | OK w =>
                  match n_post n with
                  | Some h => let (s, e) := apply_handler h w st1 in (OK w, s, e)
                  | None => (OK w, st1, [])
                  end
              | Fail e => (Fail e, st1, [])
              end in
            let '(done, err, st3, ev3) := run_nodes g om tasks' st2 in
            match o' with
            | OK w => ((k, wrap_outkey (n_outkey n) w) :: done, err, st3, ev1 +++ ev2 +++ ev3)
            | Fail e => (done, Some e, st3, ev1 +++ ev2 +++ ev3)
            end
        end
    end.

  (* one iteration of the main loop of runner.run (graph_run.go:266-388) *)
  Definition sstep1 (g : graph) (r : rstate) : option rstate :=
    match rs_res r with
    | Some _ => None
    | None =>
        let finish (o : out val) (st : option stv) (evs : list string) :=
          Some {| rs_chans := rs_chans r; rs_next := []; rs_st := st; rs_steps := rs_steps r;
                  rs_ev := rs_ev r +++ evs; rs_res := Some o; rs_opts := rs_opts r; rs_max := rs_max r; rs_cancel := rs_cancel r |} in
        if cancelled r then finish (Fail "other") (rs_st r) []          (* context has been canceled, graph_run.go:273 *)
        else if negb (g_dag g) && Nat.leb (rs_max r) (rs_steps r) then finish (Fail "maxsteps") (rs_st r) []
        else
          match rs_next r with
          | [] => finish (Fail "other") (rs_st r) []                     (* no tasks to execute *)
          | tasks =>
              let '(tasks1, st1, ev1) := run_pres g tasks (rs_st r) in
              let '(done, err, st2, ev2) := run_nodes g (rs_opts r) tasks1 st1 in
              match err with
              | Some e => finish (Fail e) st2 (ev1 +++ ev2)
              | None =>
                  Some (next_tasks g done
                          {| rs_chans := rs_chans r; rs_next := []; rs_st := st2; rs_steps := S (rs_steps r);
                             rs_ev := rs_ev r; rs_res := None; rs_opts := rs_opts r; rs_max := rs_max r; rs_cancel := rs_cancel r |}
                          (ev1 +++ ev2))
              end
          end
    end.
End Step.

(* nesting depth as fuel: a graph nested deeper than [d] fails with the model's own "FUEL" *)
Fixpoint sstep (d : nat) (g : graph) (r : rstate) {struct d} : option rstate :=
  sstep1
    (fun g' v opts pst =>
       match d with
       | O => (Fail "FUEL", pst, [])
       | S d' =>
           let r0 := run_init g' v opts None None pst in
           let rf := iter_opt (run_bound g' (rs_max r0)) (sstep d' g') r0 in
           match rs_res rf with
           | Some o => (o, st_after g' pst rf, rs_ev rf)
           | None => (Fail "FUEL", pst, rs_ev rf)
           end
       end)
    g r.

(* ------------------------------------------------------------------ the compiled object and a call *)

(* the compiled record of the product system: the graph and the nesting fuel *)
Record cobj : Type := { co_graph : graph; co_depth : nat }.

(* what a call brings: input, options, runtime step limit; [ca_fut]: the caller asked for a
   message future (react.WithMessageFuture) and renders what came through it after the result *)
Record call : Type := {
  ca_in : val; ca_opts : list copt; ca_max : option nat; ca_fut : bool;
  (* Some n: the call's own context is cancelled during its superstep n-1 (by one of its nodes) *)
  ca_cancel : option nat;
  (* "ckpt" kind only: a call is a whole interrupt / resume session on its own checkpoint id; the
     model runs it uninterrupted (resume equivalence is properties C05/C06) and the caller
     appends the trail of interrupts that the compile options imply *)
  ca_suffix : string
}.

Definition estep (c : cobj) (r : rstate) : option rstate := sstep (co_depth c) (co_graph c) r.

(* graph_run.go:866 runner.extractOption: the options handed down to nested graphs are
   validated before anything runs, whether or not the nested graph executes in this run *)
Fixpoint check_opts (d : nat) (ns : list node) (os : list copt) : bool :=
  match extract_opts ns os [] with
  | Fail _ => false
  | OK m =>
      match d with
      | O => true
      | S d' =>
          forallb (fun n => match n_fun n with
                            | FSub g' => check_opts d' (g_nodes g') (no_sub (opts_of (n_key n) m))
                            | _ => true
                            end) ns
      end
  end.

Definition einit (c : cobj) (k : call) : rstate :=
  if check_opts (co_depth c) (g_nodes (co_graph c)) (ca_opts k)
  then run_init (co_graph c) (ca_in k) (ca_opts k) (ca_max k) (ca_cancel k) None
  else {| rs_chans := []; rs_next := []; rs_st := None; rs_steps := O; rs_ev := []; rs_res := Some (Fail "other");
          rs_opts := []; rs_max := O; rs_cancel := None |}.

(* observable of a finished run: rendered result and sorted node-level events.  The messages
   a run produced (model answers, tool messages) are kept as pseudo events "fut:<message>":
   they are what a message future delivers, and are not events of the harness. *)
Definition is_fut (e : string) : bool := has_prefix "fut:" e.
Definition eobs (fut : bool) (r : rstate) : option (string * list string) :=
  let evs := sort_strings (filter (fun e => negb (is_fut e)) (rs_ev r)) in
  let futs := map (drop_str 4) (filter is_fut (rs_ev r)) in
  let tail (errs : list string) :=
    if fut then " FUT[" ++ join " | " (sort_strings (futs +++ errs)) ++ "]" else "" in
  match rs_res r with
  | None => None
  | Some (OK v) => Some ("ok:" ++ render v ++ tail [], evs)
  | Some (Fail e) => Some ("err:" ++ e ++ tail ["E:" ++ e], evs)
  end.

(* observable of a call: what the caller renders *)
Definition cobs (k : call) (r : rstate) : option (string * list string) :=
  match eobs (ca_fut k) r with
  | Some (res, evs) => Some (res ++ ca_suffix k, evs)
  | None => None
  end.

(* ------------------------------------------------------------------ the record as the hook sees it *)

(* Projection of the compiled record in the terms compose/verif_c09.go VerifC09Project reads
   off the *runner that Compile built (harness/cmd/c09/record.go projString prints the same
   format): trigger mode, step limit (0 for all-predecessor graphs: they have none), whether
   the graph declares state, node keys (a nested graph with its own projection), data edges,
   branches with their end nodes; every list sorted bytewise after rendering its items.
   [d] is the nesting fuel of the compiled object ([co_depth]); a description nested deeper
   renders "FUEL", which no record renders. *)
Definition b01 (b : bool) : string := if b then "1" else "0".

Fixpoint rproj (d : nat) (g : graph) : string :=
  let node_str (n : node) :=
    match n_fun n with
    | FSub g' => n_key n ++ ":" ++ match d with O => "FUEL" | S d' => rproj d' g' end
    | _ => n_key n
    end in
  "G{dag=" ++ b01 (g_dag g)
  ++ ";max=" ++ (if g_dag g then "0" else nstr (g_max g))
  ++ ";state=" ++ b01 (g_hasstate g)
  ++ ";nodes=[" ++ join "," (sort_strings (map node_str (g_nodes g)))
  ++ "];data=[" ++ join "," (sort_strings (map (fun e => fst e ++ ">" ++ snd e) (g_edges g)))
  ++ "];br=[" ++ join "," (sort_strings (map (fun b => b_from b ++ "?" ++ join "|" (sort_strings (b_ends b))) (g_branches g)))
  ++ "]}".

Definition crec_proj (c : cobj) : string := rproj (co_depth c) (co_graph c).

(* the run alone, to completion; None = out of fuel *)
Definition erun (c : cobj) (fuel : nat) (k : call) : option (string * list string) :=
  cobs k (iter_opt fuel (estep c) (einit c k)).
