(* Model/ErrorsFwd.v — property C13: the stream forwarders of schema/stream.go, on their own.

   MergeStreamReaders puts every convert reader (streamReaderWithConvert.toStream, :504-535) and
   every copy child (childStreamReader.toStream, :645-676) behind a goroutine that reads the
   source and sends what it reads into a fresh stream; a deferred recover turns a panic of the
   source (the user's convert function) into ONE error item (safe.NewPanicErr), then the stream
   is closed.  Here: what a reader finds (a) when it reads such a source directly, on its own
   goroutine, and (b) behind a forwarder; the merged stream is an interleaving of the forwarded
   ones.  Definitions only (evaluated by the correspondence on FwdCase cases). *)
From Eino Require Import Base.Util Model.Errors.

(* one element of a source, in reading order *)
Inductive selem : Type :=
| SVal (v : N)        (* recv returns a chunk *)
| SItem (e : err)     (* recv returns an error item (the source's own, or convert returned an error) *)
| SSkip               (* convert returned ErrNoValue: the chunk is filtered out *)
| SBoom (i : N).      (* convert panics (payload i) *)

Inductive ritem : Type := RVal (v : N) | RErr (e : err).

(* reading the source directly: everything up to EOF, or up to a panic on the reader's goroutine *)
Inductive dres : Type := DItems (l : list ritem) | DPanic (l : list ritem) (i : N).

Definition dcons (x : ritem) (d : dres) : dres :=
  match d with DItems l => DItems (x :: l) | DPanic l i => DPanic (x :: l) i end.

Fixpoint direct (src : list selem) : dres :=
  match src with
  | [] => DItems []
  | SVal v :: r => dcons (RVal v) (direct r)
  | SItem e :: r => dcons (RErr e) (direct r)
  | SSkip :: r => direct r
  | SBoom i :: _ => DPanic [] i
  end.

(* behind a forwarder: the goroutine's loop sends chunks and error items on (an error item does
   not end the loop); a panic ends it: the deferred function sends the recovered panic as an
   error item and closes the stream *)
Fixpoint fwd (src : list selem) : list ritem :=
  match src with
  | [] => []
  | SVal v :: r => RVal v :: fwd r
  | SItem e :: r => RErr e :: fwd r
  | SSkip :: r => fwd r
  | SBoom i :: _ => [RErr (PanicErr i)]
  end.

Definition ritem_eqb (a b : ritem) : bool :=
  match a, b with
  | RVal x, RVal y => N.eqb x y
  | RErr x, RErr y => err_eqb x y
  | _, _ => false
  end.

(* the merged stream delivers every item of every member, each member's items in order.
   Checker: take the next output item from the first member whose head is that item (the harness
   makes all items distinct, so the choice is forced). *)
Fixpoint take_head (x : ritem) (ls : list (list ritem)) : option (list (list ritem)) :=
  match ls with
  | [] => None
  | l :: ls' =>
      match l with
      | y :: l' => if ritem_eqb x y then Some (l' :: ls')
                   else match take_head x ls' with Some r => Some (l :: r) | None => None end
      | [] => match take_head x ls' with Some r => Some (l :: r) | None => None end
      end
  end.

Fixpoint is_interleaving (ls : list (list ritem)) (out : list ritem) : bool :=
  match out with
  | [] => forallb (fun l => match l with [] => true | _ => false end) ls
  | x :: out' => match take_head x ls with Some ls' => is_interleaving ls' out' | None => false end
  end.

(* what the reader of MergeStreamReaders(srcs) may observe when it reads to EOF (continuing past
   error items): with a single member the member itself is returned — no forwarder *)
Inductive fobs : Type := FOut (out : list ritem) | FPanic (out : list ritem) (i : N) | FHang.

Definition list_ritem_eqb := list_eqb ritem_eqb.

(* one child of a copied source, read directly (no merge): since the repair of F-C13d the shared
   element records a panic of the source as an error item followed by the end of the stream, so a
   copy child never panics on its reader's goroutine — it delivers what a forwarder would *)
Definition child_read (src : list selem) : list ritem := fwd src.

Definition child_legal (src : list selem) (o : fobs) : bool :=
  match o with FOut out => list_eqb ritem_eqb (child_read src) out | _ => false end.

Definition fwd_legal (srcs : list (list selem)) (o : fobs) : bool :=
  match srcs with
  | [] => false
  | [s] => match direct s, o with
           | DItems l, FOut out => list_ritem_eqb l out
           | DPanic l i, FPanic out j => list_ritem_eqb l out && N.eqb i j
           | _, _ => false
           end
  | _ => match o with
         | FOut out => is_interleaving (map fwd srcs) out
         | _ => false
         end
  end.
