(* Model/GraphCmp.v — comparison of what the implementation showed (outcome class, result, flat
   execution log of the recording lambdas) with a run of the engine model. Shared by Corr/C01.v and
   Corr/C02.v and meant for every engine built on harness/graphgen.

   What is compared (projected observables only):
   * outcome class; the result value; for failures the error CLASS must be one of the model's candidates
     (which failing task is reported first depends on completion order);
   * the execution log, per graph instance (root and every sub-graph node path): the implementation's
     events of that instance must be a concatenation of permutations of the model's supersteps of that
     instance (batch mode: step k entirely before step k+1). For eager (Workflow) instances supersteps are
     not observable: the events must be a permutation of the model's and respect predecessor-before-
     successor. Pass-through and sub-graph nodes execute no user code and are filtered from the model log.
   * eager runs whose execution multiset depends on the schedule (a node without control path to END, or a
     failing run) are compared on class/result and on "no lambda twice, only lambdas of the case" only. *)
From Eino Require Import Base.Util Model.Graph Model.Chain.
Open Scope N_scope.

Inductive oclass := ODone (v : value) | OFail (cls : N) | OPanic | OHang | OCompile.
Record gobs := { o_class : oclass; o_log : list (path * value) }.
Record gcase := { gc_forest : list gdef; gc_input : value; gc_fails : list fail_entry; gc_obs : gobs }.

Definition tevent := (path * value)%type.
Definition tevent_eqb (a b : tevent) : bool := path_eqb (fst a) (fst b) && value_eqb (snd a) (snd b).

Fixpoint node_at (F : forest) (g : graph) (p : path) : option node :=
  match p with
  | [] => None
  | k :: rest =>
    match find_node g k with
    | None => None
    | Some n =>
      match rest with
      | [] => Some n
      | _ => match n_kind n with
             | KSub i => match nth_error F i with Some g' => node_at F g' rest | None => None end
             | _ => None
             end
      end
    end
  end.

Fixpoint graph_at (F : forest) (g : graph) (p : path) : option graph :=
  match p with
  | [] => Some g
  | k :: rest =>
    match find_node g k with
    | Some n => match n_kind n with
                | KSub i => match nth_error F i with Some g' => graph_at F g' rest | None => None end
                | _ => None
                end
    | None => None
    end
  end.

Definition is_lambda_at (F : forest) (g : graph) (p : path) : bool :=
  match node_at F g p with
  | Some n => match n_kind n with KLambda => true | _ => false end
  | None => false
  end.

Fixpoint remove_ev (e : tevent) (l : list tevent) : option (list tevent) :=
  match l with
  | [] => None
  | x :: l' => if tevent_eqb e x then Some l'
               else match remove_ev e l' with Some r => Some (x :: r) | None => None end
  end.

Fixpoint perm_evs (a b : list tevent) : bool :=
  match a with
  | [] => match b with [] => true | _ => false end
  | e :: a' => match remove_ev e b with Some b' => perm_evs a' b' | None => false end
  end.

(* the implementation's events are the model's supersteps, one after the other, each in any order *)
Fixpoint seg_ok (golog : list tevent) (steps : list (list tevent)) : bool :=
  match steps with
  | [] => match golog with [] => true | _ => false end
  | st :: rest => let n := List.length st in
                  perm_evs (firstn n golog) st && seg_ok (skipn n golog) rest
  end.

Definition inst_of (e : tevent) : path := removelast (fst e).

Definition events_at (p : path) (l : list tevent) : list tevent := filter (fun e => path_eqb (inst_of e) p) l.

Definition model_steps_at (F : forest) (g : graph) (p : path) (l : log value) : list (list tevent) :=
  map (filter (fun e : tevent => is_lambda_at F g (fst e))) (log_steps_at value p l).

(* predecessor-before-successor inside one instance *)
Definition edge_between (gi : graph) (a b : key) : bool :=
  match find_node gi a with Some na => is_cpred na b || is_dpred na b | None => false end.

Fixpoint order_ok (gi : graph) (seen : list key) (evs : list tevent) : bool :=
  match evs with
  | [] => true
  | e :: rest => let k := last (fst e) 0 in
                 negb (existsb (fun s => edge_between gi k s) seen) && order_ok gi (k :: seen) rest
  end.

(* eager instances: the steps of one run (between two run markers) are merged; runs of the same instance
   never overlap in time *)
Fixpoint split_runs (steps : list (list tevent)) (cur : list tevent) : list (list tevent) :=
  match steps with
  | [] => [cur]
  | [] :: rest => cur :: split_runs rest []
  | st :: rest => split_runs rest (cur ++ st)
  end.

Fixpoint seg_runs (gi : graph) (golog : list tevent) (runs : list (list tevent)) : bool :=
  match runs with
  | [] => match golog with [] => true | _ => false end
  | r :: rest => let n := List.length r in
                 perm_evs (firstn n golog) r && order_ok gi [] (firstn n golog) && seg_runs gi (skipn n golog) rest
  end.

Definition instance_ok (F : forest) (g : graph) (mlog : log value) (golog : list tevent) (p : path) : bool :=
  match graph_at F g p with
  | None => false
  | Some gi =>
    let steps := model_steps_at F g p mlog in
    let evs := events_at p golog in
    if g_eager gi
    then seg_runs gi evs (map (filter (fun e : tevent => is_lambda_at F g (fst e)))
                              (split_runs (log_steps_at value p mlog) []))
    else seg_ok evs steps
  end.

Definition nodup_paths (l : list path) : list path := nodup (list_eq_dec N.eq_dec) l.

Definition log_ok (F : forest) (g : graph) (mlog : log value) (golog : list tevent) : bool :=
  forallb (instance_ok F g mlog golog) (nodup_paths (map fst mlog ++ map inst_of golog)).

(* every real node of an eager graph has a control path to END: then "END is ready" implies that every
   node has run or been skipped, and the execution multiset does not depend on the schedule *)
Fixpoint ctrl_reach (g : graph) (fuel : nat) (r : list key) : list key :=
  match fuel with
  | O => r
  | S f => ctrl_reach g f
             (r ++ map n_key (filter (fun n => negb (memb (n_key n) r)
                                               && existsb (fun t => memb t r) (n_csucc n ++ branch_ends_of n false))
                                     (g_nodes g)))
  end.
Definition eager_det (g : graph) : bool :=
  let r := ctrl_reach g (List.length (g_nodes g)) [kEND] in
  forallb (fun n => memb (n_key n) r) (real_nodes g).

Definition is_done (o : outcome value) : bool := match o with Done _ _ => true | _ => false end.

Definition strict_log (F : forest) (o : outcome value) : bool :=
  forallb (fun g => negb (g_eager g) || (eager_det g && is_done o)) F.

(* weak check: only lambdas of the case, none twice with the same input at the same path *)
Fixpoint no_dup_evs (l : list tevent) : bool :=
  match l with
  | [] => true
  | e :: l' => negb (existsb (tevent_eqb e) l') && no_dup_evs l'
  end.
Definition weak_log_ok (F : forest) (g : graph) (golog : list tevent) : bool :=
  forallb (fun e : tevent => is_lambda_at F g (fst e)) golog.

Definition class_ok (o : outcome value) (c : oclass) : bool :=
  match o, c with
  | Done v _, ODone v' => value_eqb v v'
  | Fail es _, OFail cls => existsb (fun e => N.eqb (e_class e) cls) es
  | _, _ => false
  end.

Definition model_run (c : gcase) : outcome value :=
  tree_run (gc_fails c) (lower_forest (gc_forest c)) (gc_input c).

Definition gcase_ok (c : gcase) : bool :=
  let F := lower_forest (gc_forest c) in
  let o := model_run c in
  match F with
  | [] => false
  | g :: _ =>
    class_ok o (o_class (gc_obs c))
    && (if strict_log F o then log_ok F g (outcome_log value o) (o_log (gc_obs c))
        else weak_log_ok F g (o_log (gc_obs c)))
  end.

Definition gcase_bad (c : gcase) : bool := negb (gcase_ok c).
