(* Model/Graph.v — the SHARED GRAPH ENGINE MODEL (owner: C01/C02; users: C04, C05, C06, C13, C19 ...).

   Executable Gallina model of eino's orchestration engine:
     compose/graph_run.go     runner.run, calculateNextTasks, resolveCompletedTasks, calculateBranch,
                              initChannelManager (incl. the F-C02 repair: unreachable nodes are skipped up front)
     compose/graph_manager.go channelManager.updateValues/updateDependencies/getFromReadyChannels/reportBranch,
                              taskManager.submit/wait (batch = needAll, eager = one completion at a time)
     compose/pregel.go        pregelChannel
     compose/dag.go           dagChannel
     compose/graph.go         predecessor tables / successors as graph.compile derives them, default step limit

   PUBLIC API (stable: definitions are only ever added, never renamed)
   -------------------------------------------------------------------
   keys / paths      key := N, kSTART = 0, kEND = 1, path := list key (outermost first)
   errors            err = {e_class : N; e_path : path}; classes eDupKey .. eNode c (constants below)
   values            value := VAtom | VNil | VMap (sorted);  tree_ops : vops value  (the harness instance)
   graphs            branch, nkind (KLambda | KPass | KSub idx), node, graph, forest := list graph;
                     the START pseudo node (key 0) carries START's edges and branches
   derived tables    find_node, cpreds, dpreds, succs, max_steps, has_mapping
   channels          dep, chan, chans, chan_init, pregel_report_values / pregel_get,
                     dag_report_values / dag_report_deps / dag_report_skip / dag_get, report_branch, init_chans
   one step of       resolve_one, resolve_all, update_chans, get_all, calc_next   (= calculateNextTasks)
   the run loop      loopstate (ls_step, ls_chans, ls_next, ls_running, ls_st, ls_log), step_result,
                     submit, wait_tasks, step, iterate, run_flat (sub-graphs through an oracle [sub]),
                     run_nest (ties the knot over the forest with explicit nesting fuel), run
   outcome           Done v log | Fail errs log          (later: Interrupted ..., added by C05/C06)
   log               list of (graph-instance path, list of (node path, input)): one entry per superstep
                     of every graph instance, in execution order; an entry with an empty event list marks
                     the start of a run of that instance; log_steps_at p filters one instance.

   Conventions: association lists sorted by key (nlist_insert_sorted), so states print canonically.
   Map-iteration nondeterminism of the Go code is resolved to "ascending key order"; what is compared
   with the implementation is invariant under that choice (multisets per step; error candidates). *)
From Eino Require Import Base.Util.
Open Scope N_scope.

Definition key := N.
Definition kSTART : key := 0.
Definition kEND : key := 1.
Definition path := list key.

(* ---------- error classes (class only; messages are never modelled) ---------- *)
Definition eDupKey      : N := 1.   (* mergeMap: duplicated key                                  *)
Definition eMergeType   : N := 2.   (* mergeValues: unsupported / mismatching types              *)
Definition eMaxSteps    : N := 3.   (* ErrExceedMaxSteps                                         *)
Definition eNoTasks     : N := 4.   (* "no tasks to execute"                                     *)
Definition eSkipEnd     : N := 5.   (* reportBranch: "unknown node: end" (END became skipped)    *)
Definition eUnknownNode : N := 6.   (* malformed model graph (never for compiled graphs)         *)
Definition eNestFuel    : N := 7.   (* model artefact: nesting fuel exhausted                    *)
Definition eLoopFuel    : N := 8.   (* model artefact: loop fuel exhausted (DAG loop has no bound in Go) *)
Definition eBranch      : N := 9.   (* branch returned a node that is not one of its end nodes   *)
Definition ePanic       : N := 10.  (* node body panicked (recovered by the executor)            *)
Definition eNodeBase    : N := 100.
Definition eNode (c : N) : N := eNodeBase + c.   (* the node's own error number c *)

Record err := { e_class : N; e_path : path }.
Definition mkerr (c : N) : err := {| e_class := c; e_path := [] |}.
Definition err_prefix (k : key) (e : err) : err := {| e_class := e_class e; e_path := k :: e_path e |}.

Definition memb (k : key) (l : list key) : bool := existsb (N.eqb k) l.
Notation alookup := nlist_get.
Notation ainsert := nlist_insert_sorted.
Definition akeys {A} (l : list (key * A)) : list key := map fst l.

(* ---------- graphs ---------- *)
Inductive mode := Pregel | Dag.

(* A branch: its end nodes, whether it carries data (Workflow branches do not), and its condition as a
   table: choice = table[size(input) mod |table|]; empty table = selects nothing. *)
Record branch := { b_ends : list key; b_nodata : bool; b_table : list (list key) }.

Inductive nkind := KLambda | KPass | KSub (idx : nat).

Record node := {
  n_key      : key;
  n_kind     : nkind;
  n_outkey   : option N;          (* WithOutputKey (chain Parallel): output o becomes {k: o}        *)
  n_dsucc    : list key;          (* data edges   (chanCall.writeTo)                                 *)
  n_csucc    : list key;          (* control edges (chanCall.controls)                               *)
  n_dmap     : list (key * N);    (* Workflow field mapping ToField(f) on the data edge to a target  *)
  n_branches : list branch;
}.

Record graph := {
  g_nodes : list node;            (* includes the START pseudo node (key 0); END is not a node       *)
  g_mode  : mode;
  g_eager : bool;                 (* Workflow                                                         *)
  g_max   : nat;                  (* WithMaxRunSteps; 0 = default                                     *)
}.
Definition forest := list graph.

Definition find_node (g : graph) (k : key) : option node :=
  find (fun n => N.eqb (n_key n) k) (g_nodes g).

Definition real_nodes (g : graph) : list node := filter (fun n => negb (N.eqb (n_key n) kSTART)) (g_nodes g).

(* graph.compile: maxRunSteps = len(chanSubscribeTo) + 10 *)
Definition default_limit_of (nnodes : nat) : nat := (nnodes + 10)%nat.
Definition max_steps (g : graph) : nat :=
  match g_max g with O => default_limit_of (List.length (real_nodes g)) | m => m end.

Definition branch_ends_of (n : node) (data_only : bool) : list key :=
  flat_map (fun b => if (data_only && b_nodata b)%bool then [] else b_ends b) (n_branches n).
Definition is_cpred (n : node) (k : key) : bool := memb k (n_csucc n) || memb k (branch_ends_of n false).
Definition is_dpred (n : node) (k : key) : bool := memb k (n_dsucc n) || memb k (branch_ends_of n true).
Definition cpreds (g : graph) (k : key) : list key := map n_key (filter (fun n => is_cpred n k) (g_nodes g)).
Definition dpreds (g : graph) (k : key) : list key := map n_key (filter (fun n => is_dpred n k) (g_nodes g)).
(* getSuccessors: writeTo ++ controls ++ all branch end nodes *)
Definition succs (n : node) : list key := n_dsucc n ++ n_csucc n ++ branch_ends_of n false.
(* a field-mapping converter is installed before node k iff some incoming data edge has a mapping *)
Definition has_mapping (g : graph) (k : key) : bool :=
  existsb (fun n => match alookup k (n_dmap n) with Some _ => true | None => false end) (g_nodes g).

Definition chan_keys (g : graph) : list key := map n_key (real_nodes g) ++ [kEND].

(* ---------- operations on values the engine needs ---------- *)
Record vops (V : Type) := {
  v_merge : list (key * V) -> res V;   (* mergeValues; >= 2 values, listed by ascending source key *)
  v_zero  : V;                         (* zero input of a node                                      *)
  v_wrap  : N -> V -> V;               (* {k: v}: output key, field mapping ToField(k)              *)
  v_norm  : V -> V;                    (* the field-mapping input converter (rebuilds the map)      *)
  v_size  : V -> N;                    (* what branch tables are indexed by                         *)
}.
Arguments v_merge {V}. Arguments v_zero {V}. Arguments v_wrap {V}. Arguments v_norm {V}. Arguments v_size {V}.

Inductive dep := Waiting | Ready | Skipped.
Definition dep_eqb a b :=
  match a, b with Waiting, Waiting | Ready, Ready | Skipped, Skipped => true | _, _ => false end.

Section Engine.
  Variable V : Type.
  Variable St : Type.
  Variable ops : vops V.

  (* ================= channels ================= *)
  Record chan := {
    c_ctrl    : list (key * dep);     (* dagChannel.ControlPredecessors                  *)
    c_data    : list (key * bool);    (* dagChannel.DataPredecessors                     *)
    c_skipped : bool;                 (* dagChannel.Skipped                              *)
    c_vals    : list (key * V);       (* Values (both channel kinds), keyed by source    *)
  }.
  Definition chans := list (key * chan).

  Definition chan_init (g : graph) (k : key) : chan :=
    match g_mode g with
    | Pregel => {| c_ctrl := []; c_data := []; c_skipped := false; c_vals := [] |}
    | Dag => {| c_ctrl := fold_right (fun p m => ainsert p Waiting m) [] (cpreds g k);
                c_data := fold_right (fun p m => ainsert p false m) [] (dpreds g k);
                c_skipped := false; c_vals := [] |}
    end.

  Definition set_vals (c : chan) (vs : list (key * V)) : chan :=
    {| c_ctrl := c_ctrl c; c_data := c_data c; c_skipped := c_skipped c; c_vals := vs |}.

  (* get: 0 values -> zero (DAG only), 1 value -> itself, otherwise mergeValues *)
  Definition get_merge (vals : list (key * V)) : res V :=
    match vals with
    | [] => Ok (v_zero ops)
    | [(_, v)] => Ok v
    | _ => v_merge ops vals
    end.

  (* --- pregelChannel --- *)
  Definition pregel_report_values (c : chan) (ins : list (key * V)) : chan :=
    set_vals c (fold_left (fun m kv => ainsert (fst kv) (snd kv) m) ins (c_vals c)).

  Definition pregel_get (c : chan) : res (option V * chan) :=
    match c_vals c with
    | [] => Ok (None, c)
    | vals => do v <- get_merge vals; Ok (Some v, set_vals c [])
    end.

  (* --- dagChannel --- *)
  Definition dag_report_values (c : chan) (ins : list (key * V)) : chan :=
    if c_skipped c then c else
    fold_left (fun c kv =>
      match alookup (fst kv) (c_data c) with
      | None => c
      | Some _ => {| c_ctrl := c_ctrl c; c_data := ainsert (fst kv) true (c_data c);
                     c_skipped := c_skipped c; c_vals := ainsert (fst kv) (snd kv) (c_vals c) |}
      end) ins c.

  Definition dag_report_deps (c : chan) (deps : list key) : chan :=
    if c_skipped c then c else
    fold_left (fun c d =>
      match alookup d (c_ctrl c) with
      | None => c
      | Some _ => {| c_ctrl := ainsert d Ready (c_ctrl c); c_data := c_data c;
                     c_skipped := c_skipped c; c_vals := c_vals c |}
      end) deps c.

  Definition all_skipped (ctrl : list (key * dep)) : bool := forallb (fun kd => dep_eqb (snd kd) Skipped) ctrl.

  Definition dag_report_skip (c : chan) (ks : list key) : chan * bool :=
    let c1 := fold_left (fun c k =>
      {| c_ctrl := match alookup k (c_ctrl c) with Some _ => ainsert k Skipped (c_ctrl c) | None => c_ctrl c end;
         c_data := match alookup k (c_data c) with Some _ => ainsert k true (c_data c) | None => c_data c end;
         c_skipped := c_skipped c; c_vals := c_vals c |}) ks c in
    let all := all_skipped (c_ctrl c1) in
    ({| c_ctrl := c_ctrl c1; c_data := c_data c1; c_skipped := all; c_vals := c_vals c1 |}, all).

  Definition dag_ready (c : chan) : bool :=
    negb (c_skipped c)
    && negb (existsb (fun kd => dep_eqb (snd kd) Waiting) (c_ctrl c))
    && negb (existsb (fun kb => negb (snd kb)) (c_data c)).

  Definition dag_reset (c : chan) : chan :=
    {| c_ctrl := map (fun kd => (fst kd, Waiting)) (c_ctrl c);
       c_data := map (fun kb => (fst kb, false)) (c_data c);
       c_skipped := c_skipped c; c_vals := [] |}.

  Definition dag_get (c : chan) : res (option V * chan) :=
    if dag_ready c then do v <- get_merge (c_vals c); Ok (Some v, dag_reset c)
    else Ok (None, c).

  Definition upd_chan (cs : chans) (k : key) (f : chan -> chan) : chans :=
    map (fun kc => if N.eqb (fst kc) k then (fst kc, f (snd kc)) else kc) cs.

  (* ================= skip propagation: channelManager.reportBranch =================
     [report_skip_to cs from targets]: report "from is skipped" to every target; returns the targets
     that became completely skipped by this report.  Deviation from the Go text, behaviour-preserving:
     a target that was already skipped before the report is not queued again (the Go code queues it
     again and repeats an idempotent report; with duplicate successor entries its work-list can grow
     exponentially). *)
  Definition report_skip_to (cs : chans) (from : key) (targets : list key) : chans * list key :=
    fold_left (fun acc t =>
      let '(cs0, nw) := acc in
      match alookup t cs0 with
      | None => acc
      | Some c =>
          let '(c', sk) := dag_report_skip c [from] in
          (upd_chan cs0 t (fun _ => c'), if (sk && negb (c_skipped c))%bool then nw ++ [t] else nw)
      end) targets (cs, []).

  Fixpoint propagate (g : graph) (fuel : nat) (work : list key) (cs : chans) : res chans :=
    match work with
    | [] => Ok cs
    | k :: work' =>
      match fuel with
      | O => Err eLoopFuel
      | S fuel' =>
        match find_node g k with
        | None => Err eSkipEnd        (* c.successors[key] missing: "unknown node" — END was skipped *)
        | Some n =>
          let '(cs', newly) := report_skip_to cs k (succs n) in
          propagate g fuel' (work' ++ newly) cs'
        end
      end
    end.

  Definition report_branch (g : graph) (from : key) (skipped : list key) (cs : chans) : res chans :=
    match g_mode g with
    | Pregel => Ok cs                                  (* pregelChannel.reportSkip is a no-op *)
    | Dag =>
      let '(cs', newly) := report_skip_to cs from skipped in
      propagate g (S (List.length (g_nodes g))) newly cs'
    end.

  (* initChannelManager, with the F-C02 repair: in DAG mode nodes without any predecessor are skipped
     up front (cm.reportBranch(START, unreachable)). [init_chans_v0] is the code before the repair. *)
  Definition init_chans_v0 (g : graph) : chans :=
    fold_right (fun k m => ainsert k (chan_init g k) m) [] (chan_keys g).

  Definition unreachable_nodes (g : graph) : list key :=
    map n_key (filter (fun n => match cpreds g (n_key n), dpreds g (n_key n) with [], [] => true | _, _ => false end)
                      (real_nodes g)).

  Definition init_chans (g : graph) : res chans :=
    match g_mode g with
    | Pregel => Ok (init_chans_v0 g)
    | Dag => report_branch g kSTART (unreachable_nodes g) (init_chans_v0 g)
    end.

  (* ================= one completed task: resolveCompletedTasks / calculateBranch ================= *)
  Definition choose (b : branch) (out : V) : list key :=
    match b_table b with
    | [] => []
    | t => nth (N.to_nat (v_size ops out mod N.of_nat (List.length t))) t []
    end.

  Definition subset (xs ys : list key) : bool := forallb (fun x => memb x ys) xs.

  (* selected end nodes of all branches (in branch order) and the nodes to report as skipped: the end nodes
     no branch selected, except the direct control successors (/repo 665541a: the edge triggers them) *)
  Definition eval_branches (n : node) (out : V) : res (list key * list key) :=
    let sels := map (fun b => (b, choose b out)) (n_branches n) in
    if forallb (fun bs => subset (snd bs) (b_ends (fst bs))) sels then
      let selected := flat_map snd sels in
      let unsel := flat_map (fun bs => filter (fun e => negb (memb e (snd bs))) (b_ends (fst bs))) sels in
      Ok (selected, nodup N.eq_dec (filter (fun e => negb (memb e selected) && negb (memb e (n_csucc n))) unsel))
    else Err eBranch.

  Definition edge_value (n : node) (t : key) (out : V) : V :=
    match alookup t (n_dmap n) with Some f => v_wrap ops f out | None => out end.

  (* writes : (target, (source, value)) ; deps : (target, source) *)
  Definition writes_t := list (key * (key * V)).
  Definition deps_t := list (key * key).

  Definition resolve_one (g : graph) (n : node) (out : V) (cs : chans) : res (chans * writes_t * deps_t) :=
    do sel_skip <- eval_branches n out;
    let '(selected, skipped) := sel_skip in
    do cs' <- report_branch g (n_key n) skipped cs;
    let targets := selected ++ n_dsucc n in
    Ok (cs', map (fun t => (t, (n_key n, edge_value n t out))) targets,
        map (fun t => (t, n_key n)) (n_csucc n ++ selected)).

  Fixpoint resolve_all (g : graph) (completed : list (key * V)) (cs : chans) : res (chans * writes_t * deps_t) :=
    match completed with
    | [] => Ok (cs, [], [])
    | (k, out) :: rest =>
      match find_node g k with
      | None => Err eUnknownNode
      | Some n =>
        do r1 <- resolve_one g n out cs;
        let '(cs1, w1, d1) := r1 in
        do r2 <- resolve_all g rest cs1;
        let '(cs2, w2, d2) := r2 in
        Ok (cs2, w1 ++ w2, d1 ++ d2)
      end
    end.

  (* channelManager.updateValues / updateDependencies: per target, only declared predecessors count *)
  Definition incoming_vals (g : graph) (t : key) (ws : writes_t) : list (key * V) :=
    map snd (filter (fun w => N.eqb (fst w) t && memb (fst (snd w)) (dpreds g t)) ws).
  Definition incoming_deps (g : graph) (t : key) (ds : deps_t) : list key :=
    map snd (filter (fun d => N.eqb (fst d) t && memb (snd d) (cpreds g t)) ds).

  Definition update_chan (g : graph) (ws : writes_t) (ds : deps_t) (kc : key * chan) : key * chan :=
    let '(k, c) := kc in
    match g_mode g with
    | Pregel => (k, pregel_report_values c (incoming_vals g k ws))
    | Dag => (k, dag_report_deps (dag_report_values c (incoming_vals g k ws)) (incoming_deps g k ds))
    end.

  Definition targets_exist (cs : chans) (ws : writes_t) (ds : deps_t) : bool :=
    forallb (fun w => memb (fst w) (akeys cs)) ws && forallb (fun d => memb (fst d) (akeys cs)) ds.

  Definition update_chans (g : graph) (ws : writes_t) (ds : deps_t) (cs : chans) : res chans :=
    if targets_exist cs ws ds then Ok (map (update_chan g ws ds) cs) else Err eUnknownNode.

  (* getFromReadyChannels (+ the pre-node field-mapping converter) *)
  Definition chan_get (g : graph) (c : chan) : res (option V * chan) :=
    match g_mode g with Pregel => pregel_get c | Dag => dag_get c end.

  Definition pre_node (g : graph) (k : key) (v : V) : V := if has_mapping g k then v_norm ops v else v.

  Fixpoint get_all (g : graph) (cs : chans) : res (chans * list (key * V)) :=
    match cs with
    | [] => Ok ([], [])
    | (k, c) :: cs' =>
      do r <- chan_get g c;
      let '(ov, c') := r in
      do rest <- get_all g cs';
      let '(cs'', ready) := rest in
      Ok ((k, c') :: cs'', match ov with Some v => (k, pre_node g k v) :: ready | None => ready end)
    end.

  (* calculateNextTasks (without the END test, which [step] performs on the ready list) *)
  Definition calc_next (g : graph) (cs : chans) (completed : list (key * V)) : res (chans * list (key * V)) :=
    do r <- resolve_all g completed cs;
    let '(cs1, ws, ds) := r in
    do cs2 <- update_chans g ws ds cs1;
    get_all g cs2.

  (* ================= the run loop ================= *)
  Definition event := (path * V)%type.                 (* (node path, input) *)
  Definition logentry := (path * list event)%type.     (* one superstep of the graph instance at a path *)
  Definition log := list logentry.

  Inductive outcome :=
  | Done (v : V) (l : log)
  | Fail (es : list err) (l : log).    (* es: non-empty; the error the implementation reports is one of
                                          them (which one depends on completion order); head = smallest key *)

  Definition outcome_log (o : outcome) : log := match o with Done _ l | Fail _ l => l end.

  Inductive tres := TOk (v : V) | TErr (es : list err).

  Record loopstate := {
    ls_step    : nat;                    (* the loop variable [step] of runner.run              *)
    ls_chans   : chans;                  (* cm.channels                                         *)
    ls_next    : list (key * V);         (* nextTasks: computed, not yet submitted (key, input) *)
    ls_running : list (key * tres);      (* submitted and executed, not yet collected by wait   *)
    ls_st      : St;
    ls_log     : log;
  }.

  Inductive step_result := Continue (ls : loopstate) | Finish (o : outcome) (s : St).

  Section Run.
    Variable exec : St -> path -> V -> res V * St.                 (* lambda bodies, by full node path       *)
    Variable sub  : nat -> path -> V -> St -> outcome * St.        (* runner of sub-graph [idx] at a path    *)
    Variable sched : nat -> list key -> nat.                     (* eager mode: index of the running task
                                                                    that completes next (step, running keys) *)

    Definition wrap_out (n : node) (o : V) : V :=
      match n_outkey n with Some k => v_wrap ops k o | None => o end.

    Definition run_task (p : path) (n : node) (v : V) (s : St) : tres * log * St :=
      match n_kind n with
      | KLambda =>
          let '(r, s') := exec s (p ++ [n_key n]) v in
          (match r with
           | Ok o => TOk (wrap_out n o)
           | Err c => TErr [ {| e_class := eNode c; e_path := [n_key n] |} ]
           | Panic => TErr [ {| e_class := ePanic; e_path := [n_key n] |} ]
           end, [], s')
      | KPass => (TOk (wrap_out n v), [], s)
      | KSub i =>
          let '(o, s') := sub i (p ++ [n_key n]) v s in
          match o with
          | Done r l => (TOk (wrap_out n r), l, s')
          | Fail es l => (TErr (map (err_prefix (n_key n)) es), l, s')
          end
      end.

    (* taskManager.submit: every task starts (and, in the model, runs) now *)
    Fixpoint submit (p : path) (g : graph) (tasks : list (key * V)) (s : St) : list (key * tres) * log * St :=
      match tasks with
      | [] => ([], [], s)
      | (k, v) :: rest =>
        match find_node g k with
        | None => let '(rs, l, s') := submit p g rest s in
                  ((k, TErr [mkerr eUnknownNode]) :: rs, l, s')     (* "node has not been registered" *)
        | Some n =>
          let '(r, l1, s1) := run_task p n v s in
          let '(rs, l2, s2) := submit p g rest s1 in
          ((k, r) :: rs, l1 ++ l2, s2)
        end
      end.

    Definition step_entry (p : path) (tasks : list (key * V)) : logentry :=
      (p, map (fun kv => (p ++ [fst kv], snd kv)) tasks).

    (* taskManager.wait: batch mode collects everything, eager mode one completion *)
    Fixpoint remove_nth {A} (i : nat) (l : list A) : list A :=
      match l, i with
      | [], _ => []
      | _ :: l', O => l'
      | a :: l', S i' => a :: remove_nth i' l'
      end.

    Definition wait_tasks (g : graph) (stepno : nat) (running : list (key * tres))
      : list (key * tres) * list (key * tres) :=
      if g_eager g then
        match running with
        | [] => ([], [])
        | _ => let i := (sched stepno (akeys running) mod List.length running)%nat in
               (match nth_error running i with Some t => [t] | None => [] end, remove_nth i running)
        end
      else (running, []).

    Definition task_errors (completed : list (key * tres)) : list err :=
      flat_map (fun kr => match snd kr with TErr es => es | TOk _ => [] end) completed.
    Definition task_outputs (completed : list (key * tres)) : list (key * V) :=
      flat_map (fun kr => match snd kr with TOk v => [(fst kr, v)] | TErr _ => [] end) completed.

    Definition step_limit_hit (g : graph) (stepno : nat) : bool :=
      match g_mode g with Pregel => Nat.leb (max_steps g) stepno | Dag => false end.

    (* one iteration of the `for step := 0; ; step++` loop of runner.run *)
    Definition step (p : path) (g : graph) (ls : loopstate) : step_result :=
      if step_limit_hit g (ls_step ls) then Finish (Fail [mkerr eMaxSteps] (ls_log ls)) (ls_st ls) else
      let '(results, sublog, s') := submit p g (ls_next ls) (ls_st ls) in
      let lg := ls_log ls ++ (match ls_next ls with [] => [] | _ => [step_entry p (ls_next ls)] end) ++ sublog in
      let '(completed, running') := wait_tasks g (ls_step ls) (ls_running ls ++ results) in
      match task_errors completed with
      | (_ :: _) as es => Finish (Fail es lg) s'
      | [] =>
        match completed with
        | [] => Finish (Fail [mkerr eNoTasks] lg) s'
        | _ =>
          match calc_next g (ls_chans ls) (task_outputs completed) with
          | Err e => Finish (Fail [mkerr e] lg) s'
          | Panic => Finish (Fail [mkerr ePanic] lg) s'
          | Ok (cs', ready) =>
            match alookup kEND ready with
            | Some v => Finish (Done v lg) s'
            | None => Continue {| ls_step := S (ls_step ls); ls_chans := cs'; ls_next := ready;
                                  ls_running := running'; ls_st := s'; ls_log := lg |}
            end
          end
        end
      end.

    Fixpoint iterate (p : path) (g : graph) (fuel : nat) (ls : loopstate) : outcome * St :=
      match fuel with
      | O => (Fail [mkerr eLoopFuel] (ls_log ls), ls_st ls)
      | S f =>
        match step p g ls with
        | Finish o s => (o, s)
        | Continue ls' => iterate p g f ls'
        end
      end.

    (* Pregel: the step limit ends the loop. DAG: the Go loop has no bound; every iteration collects at
       least one task and (theorem) every node runs at most once. *)
    Definition loop_fuel (g : graph) : nat :=
      match g_mode g with
      | Pregel => S (max_steps g)
      | Dag => S (S (List.length (g_nodes g)))
      end.

    (* every run of a graph instance starts its log with the marker entry (p, []) — the same sub-graph
       node can run several times (outer cycles); supersteps without a task are not logged *)
    Definition run_marker (p : path) : logentry := (p, []).

    Definition init_state (p : path) (cs : chans) (ready : list (key * V)) (s : St) : loopstate :=
      {| ls_step := 0; ls_chans := cs; ls_next := ready; ls_running := []; ls_st := s; ls_log := [run_marker p] |}.

    (* runner.run for a fresh run (no checkpoint) *)
    Definition run_flat (p : path) (g : graph) (x : V) (s : St) : outcome * St :=
      match init_chans g with
      | Err e => (Fail [mkerr e] [run_marker p], s)
      | Panic => (Fail [mkerr ePanic] [run_marker p], s)
      | Ok cs0 =>
        match calc_next g cs0 [(kSTART, x)] with
        | Err e => (Fail [mkerr e] [run_marker p], s)
        | Panic => (Fail [mkerr ePanic] [run_marker p], s)
        | Ok (cs1, ready) =>
          match alookup kEND ready with
          | Some v => (Done v [run_marker p], s)
          | None => iterate p g (loop_fuel g) (init_state p cs1 ready s)
          end
        end
      end.
  End Run.

  (* nested graphs: the forest is flat, a KSub node names an index; recursion on nesting fuel *)
  Fixpoint run_nest (exec : St -> path -> V -> res V * St) (sched : nat -> list key -> nat)
           (fuel : nat) (F : forest) (p : path) (g : graph) (x : V) (s : St) : outcome * St :=
    match fuel with
    | O => (Fail [mkerr eNestFuel] [], s)
    | S f =>
      run_flat exec
        (fun i p' v s' => match nth_error F i with
                          | Some g' => run_nest exec sched f F p' g' v s'
                          | None => (Fail [mkerr eUnknownNode] [], s')
                          end)
        sched p g x s
    end.

  (* run the graph at index 0 of the forest *)
  Definition run (exec : St -> path -> V -> res V * St) (sched : nat -> list key -> nat)
             (F : forest) (x : V) (s : St) : outcome * St :=
    match F with
    | [] => (Fail [mkerr eUnknownNode] [], s)
    | g :: _ => run_nest exec sched (S (List.length F)) F [] g x s
    end.

  (* the supersteps of the graph instance at path p *)
  Definition log_steps_at (p : path) (l : log) : list (list event) :=
    map snd (filter (fun e => if list_eq_dec N.eq_dec (fst e) p then true else false) l).
End Engine.

Arguments Done {V}. Arguments Fail {V}.
Arguments TOk {V}. Arguments TErr {V}.
Arguments Continue {V St}. Arguments Finish {V St}.

(* ================= instance: tree values (the harness nodes) ================= *)
Inductive value := VAtom (n : N) | VNil | VMap (kvs : list (N * value)).

Fixpoint vsize (v : value) : N :=
  match v with
  | VAtom _ => 1
  | VNil => 1
  | VMap kvs => 1 + (fix go (l : list (N * value)) : N :=
                       match l with [] => 0 | kv :: l' => vsize (snd kv) + go l' end) kvs
  end.

Fixpoint value_eqb (a b : value) : bool :=
  match a, b with
  | VAtom x, VAtom y => N.eqb x y
  | VNil, VNil => true
  | VMap xs, VMap ys =>
      (fix go (x y : list (N * value)) : bool :=
         match x, y with
         | [], [] => true
         | (k, v) :: x', (k', v') :: y' => N.eqb k k' && value_eqb v v' && go x' y'
         | _, _ => false
         end) xs ys
  | _, _ => false
  end.

(* mergeMap over map[string]any values: nil maps contribute nothing, the result is a fresh map *)
Definition merge_into (acc : list (N * value)) (kvs : list (N * value)) : res (list (N * value)) :=
  fold_left (fun r kv => do a <- r;
                         match alookup (fst kv) a with
                         | Some _ => Err eDupKey
                         | None => Ok (ainsert (fst kv) (snd kv) a)
                         end) kvs (Ok acc).

Definition tree_merge (vs : list (key * value)) : res value :=
  do m <- fold_left (fun r kv => do a <- r;
                                 match snd kv with
                                 | VMap kvs => merge_into a kvs
                                 | VNil => Ok a
                                 | VAtom _ => Err eMergeType
                                 end) vs (Ok []);
  Ok (VMap m).

Definition tree_norm (v : value) : value := match v with VNil => VMap [] | _ => v end.

Definition tree_ops : vops value :=
  {| v_merge := tree_merge; v_zero := VNil; v_wrap := fun k v => VMap [(k, v)];
     v_norm := tree_norm; v_size := vsize |}.

(* harness lambda: returns {<own key>: input}; fails when the table says so.
   fail table entry: (node path, modulus, residue, code): fail with [code] iff size(input) mod modulus = residue *)
Definition fail_entry := (path * N * N * N)%type.
Definition path_eqb (a b : path) : bool := if list_eq_dec N.eq_dec a b then true else false.

Definition tree_exec (fails : list fail_entry) (s : unit) (p : path) (v : value) : res value * unit :=
  match find (fun fe => let '(fp, m, r, _) := fe in path_eqb fp p && N.eqb (vsize v mod (N.max m 1)) r) fails with
  | Some (_, _, _, c) => (Err c, s)
  | None => (Ok (VMap [(last p 0, v)]), s)
  end.

Definition sched_first : nat -> list key -> nat := fun _ _ => O.

Definition tree_run (fails : list fail_entry) (F : forest) (x : value) : outcome value :=
  fst (run value unit tree_ops (tree_exec fails) sched_first F x tt).
