(* Model/React.v — the ReAct agent of flow/agent/react/react.go.

   Two executable definitions:

   (i)  [react_spec] — the property text as the obvious loop over rounds: call the model on the
        history; a message without tool calls is the answer; otherwise run the tools, and
        either return the result of the first return-directly tool or continue with
        history ++ [assistant message] ++ tool results.  Every node execution costs one step of
        the budget (model call, tools, direct-return), the step-limit error is raised when a
        node would have to run with no budget left.

   (ii) [agent_run] — what the graph built by NewAgent does, superstep by superstep
        (compose/graph_run.go: `for step := 0; ; step++ { if step >= maxSteps -> error; run the
        scheduled node; route its output }`):
          node chat   : state pre-handler  state.Messages = append(state.Messages, input...);
                        the model is called on state.Messages (through the message modifier);
                        its output (in Stream mode: a list of chunks) goes to the stream branch:
                        toolCallChecker(chunks) ? tools : END;
          node tools  : state pre-handler  state.Messages = append(state.Messages, msg) and
                        state.ReturnDirectlyToolCallID = id of the first call whose tool is in the
                        return-directly set ("" if none); the node itself is compose.ToolsNode;
                        if the return-directly set is non-empty its output is routed by a second
                        branch (ReturnDirectlyToolCallID != "" ? direct_return : chat), otherwise
                        by a plain edge to chat;
          node direct_return : the tool message at the stored position -> END.
        In Stream mode the data handed to the tools pre-handler / returned to the caller is the
        concatenation of the chunks; in Generate mode the model's message travels as one chunk.
        The tools node is a pair of parameters: [tn] = ToolsNode.Invoke (Generate mode) and [tns] =
        ToolsNode.Stream (Stream mode: the ids of the calls and the merged stream of sparse frames),
        Model/Tools.v's [tools_invoke] resp. [tools_stream_open] + [merge_run] in the
        correspondence.  The consumers of the tools node's output are modelled on that output:
        the chat node's pre-handler (and the callbacks feeding the message future) get the
        position-wise concatenation of the frames (schema.ConcatMessageArray, [concat_pos]),
        direct_return filters the stream FRAME BY FRAME (react.go buildReturnDirectly: a
        StreamReaderWithConvert that keeps the slot at the stored position and drops frames in
        which it is nil) and the caller concatenates what is left.

   Since fix a2b0142 the return-directly call is identified by its POSITION among the tool calls
   of the assistant message (state.ReturnDirectly / ReturnDirectlyToolCallIndex); before, it was
   identified by its tool-call id ([rd_call_id_v0] / [find_tcid_v0] / [direct_answer_v0] below keep
   that behaviour for the _refuted theorem).

   Messages carry what the property talks about: role, content, tool calls (id, name,
   arguments), tool call id. *)
From Eino Require Import Base.Util Model.Tools.
Local Open Scope string_scope.

Inductive role : Type := RSystem | RUser | RAssistant | RTool.

Record msg : Type := mkMsg { m_role : role; m_content : string; m_calls : list call; m_tcid : string }.

Definition assistant (content : string) (calls : list call) : msg := mkMsg RAssistant content calls "".
Definition tool_msg (t : tmsg) : msg := mkMsg RTool (fst t) [] (snd t).

(* model only: a tool stream that ended without a chunk leaves a nil message in the concatenated
   output of the tools node (Invoke fails with the empty-stream error instead): outside the domain,
   as in property C17 (zero_chunk_outside_domain); the theorems exclude it by hypothesis *)
Definition E_NILSLOT : N := 9.
(* model only: the code under which [ELate] reports that the chunks of the stream a run returned
   cannot be concatenated *)
Definition E_CONCAT : N := 10.

(* error classes of a run *)
Inductive rerr : Type :=
| EStepLimit                 (* compose.ErrExceedMaxSteps *)
| EModel                     (* the model call failed (scripted failure or script exhausted) *)
| ETools (e : N)             (* the tools node failed with this class *)
| EConcat                    (* the streamed chunks cannot be concatenated *)
| ENoDirect                  (* direct_return found no message at the stored position *)
| ELate (e : N).             (* Stream mode, return-directly: the graph run has ended and handed out
                                direct_return's stream; the caller meets the failure of a tool stream while
                                reading it (streams are lazy) *)

Inductive outcome : Type := Final (m : msg) | Failed (e : rerr).

(* what a run shows: every model call's input, the calls handed to the tools node per round, the
   messages produced on the way (every model reply, then the tool messages of its round, in call
   order — what react.WithMessageFuture hands out, flow/agent/react/option.go), the outcome *)
Record trace : Type := mkTrace { t_inputs : list (list msg); t_rounds : list (list call);
                                 t_emits : list msg; t_out : outcome }.

Definition tr_fail (e : rerr) : trace := mkTrace [] [] [] (Failed e).
Definition tr_final (m : msg) : trace := mkTrace [] [] [] (Final m).
Definition tr_input (h : list msg) (t : trace) : trace := mkTrace (h :: t_inputs t) (t_rounds t) (t_emits t) (t_out t).
Definition tr_round (cs : list call) (t : trace) : trace := mkTrace (t_inputs t) (cs :: t_rounds t) (t_emits t) (t_out t).
Definition tr_emit (ms : list msg) (t : trace) : trace := mkTrace (t_inputs t) (t_rounds t) (ms ++ t_emits t) (t_out t).

(* ---- streamed assistant messages -------------------------------------------------------- *)

(* a tool-call fragment: index of the call it belongs to, and the pieces it carries *)
Record frag : Type := mkFrag { f_index : N; f_id : string; f_name : string; f_args : string }.
Record chunk : Type := mkChunk { k_content : string; k_frags : list frag }.

Definition merge_field (a b : string) : option string :=
  if String.eqb a "" then Some b
  else if String.eqb b "" then Some a
  else if String.eqb a b then Some a else None.

(* schema.concatToolCalls: fragments with the same index are merged (id and name must agree
   when present, arguments are appended in arrival order), result sorted by index *)
Fixpoint upsert_frag (f : frag) (acc : list frag) : option (list frag) :=
  match acc with
  | [] => Some [f]
  | g :: acc' =>
      if N.ltb (f_index f) (f_index g) then Some (f :: g :: acc')
      else if N.eqb (f_index f) (f_index g) then
             match merge_field (f_id g) (f_id f), merge_field (f_name g) (f_name f) with
             | Some i, Some n => Some (mkFrag (f_index g) i n (f_args g ++ f_args f) :: acc')
             | _, _ => None
             end
           else option_map (cons g) (upsert_frag f acc')
  end.

Fixpoint merge_frags (fs : list frag) (acc : list frag) : option (list frag) :=
  match fs with
  | [] => Some acc
  | f :: fs' => match upsert_frag f acc with Some acc' => merge_frags fs' acc' | None => None end
  end.

Definition call_of_frag (f : frag) : call := mkCall (f_id f) (f_name f) (f_args f).

(* schema.ConcatMessages restricted to assistant chunks: (content, calls) *)
Definition concat_chunks (cs : list chunk) : option (string * list call) :=
  match merge_frags (flat_map k_frags cs) [] with
  | Some fs => Some (concat_strings (map k_content cs), map call_of_frag fs)
  | None => None
  end.

Definition has_frags (c : chunk) : bool := match k_frags c with [] => false | _ => true end.

(* firstChunkStreamToolCallChecker *)
Fixpoint default_checker (cs : list chunk) : bool :=
  match cs with
  | [] => false
  | c :: r =>
      if has_frags c then true
      else if String.eqb (k_content c) "" then default_checker r
      else false
  end.

(* the chunk lists on which the first-chunk checker goes wrong (known finding F-C18): a chunk
   with non-empty content and no tool-call fragment comes before the first chunk that carries one *)
Fixpoint content_before_toolcall (cs : list chunk) : bool :=
  match cs with
  | [] => false
  | c :: r =>
      if has_frags c then false
      else if String.eqb (k_content c) "" then content_before_toolcall r
      else existsb has_frags r
  end.

(* a checker that reads the whole stream *)
Definition exact_checker (cs : list chunk) : bool := existsb has_frags cs.

(* the whole message as the single chunk that travels in Generate mode *)
Definition whole_chunk (content : string) (calls : list call) : chunk :=
  mkChunk content (map (fun p => mkFrag (N.of_nat (fst p)) (c_id (snd p)) (c_name (snd p)) (c_args (snd p)))
                       (combine (seq 0 (List.length calls)) calls)).

(* ---- the script ------------------------------------------------------------------------ *)

(* one scripted model reply: failure, or a message given both whole (Generate) and as the
   chunks the model streams (Stream) *)
Inductive step : Type :=
| SFail
| SMsg (content : string) (calls : list call) (chunks : list chunk).

(* getReturnDirectlyToolCallIndex: the position of the first call to a return-directly tool *)
Fixpoint rd_call_index (rd : string -> bool) (calls : list call) : option nat :=
  match calls with
  | [] => None
  | c :: r => if rd (c_name c) then Some O else option_map S (rd_call_index rd r)
  end.

(* ---- what the tools node hands on ------------------------------------------------------- *)
(* ToolsNode.Invoke: the list of tool messages, one value.  ToolsNode.Stream: the merged stream
   of sparse frames - each frame has one slot per call and only the slot of the tool that produced
   the chunk is set (Model/Tools.v: [emitted] = that position and the chunk's content; the tool
   message in the slot carries the id of the call at that position, [ids]) *)
Inductive tout : Type :=
| TWhole (results : list tmsg)
| TFrames (ids : list string) (em : list emitted) (tail : option N).
(* [tail]: the merged stream ends with this error item (a tool whose stream failed after it had
   been opened) - streams are lazy: the tools node has long returned when a reader meets it *)

Fixpoint all_some {A} (l : list (option A)) : option (list A) :=
  match l with
  | [] => Some []
  | Some a :: r => option_map (cons a) (all_some r)
  | None :: _ => None
  end.

(* a consumer that needs the whole value (the chat node's state pre-handler, the tool callbacks
   of the message future): the frames are concatenated position by position *)
Definition tout_results (o : tout) : res (list tmsg) :=
  match o with
  | TWhole rs => Ok rs
  | TFrames ids em (Some e) => Err e
  | TFrames ids em None =>
      match concat_pos ids em with
      | Ok slots => match all_some slots with Some rs => Ok rs | None => Err E_NILSLOT end
      | Err e => Err e
      | Panic => Panic
      end
  end.

(* direct_return (a transformable lambda: it converts its input stream frame by frame; an invoked
   tools node's output is a stream of one frame): the slot at position [i] of every frame, frames
   in which it is nil dropped; the caller concatenates what is left (nothing left = no answer) and
   meets the error item, if there is one *)
Definition tout_direct (i : nat) (o : tout) : res (option tmsg) :=
  match o with
  | TWhole rs => Ok (nth_error rs i)
  | TFrames ids em (Some e) => Err e
  | TFrames ids em None =>
      match proj i em, nth_error ids i with
      | c :: cs, Some id => Ok (Some (concat_strings (c :: cs), id))
      | _, _ => Ok None
      end
  end.

(* ---- v0: the return-directly call identified by its id (before fix a2b0142) --------------- *)
Fixpoint rd_call_id_v0 (rd : string -> bool) (calls : list call) : string :=
  match calls with
  | [] => ""
  | c :: r => if rd (c_name c) then c_id c else rd_call_id_v0 rd r
  end.
Fixpoint find_tcid_v0 (id : string) (rs : list tmsg) : option tmsg :=
  match rs with
  | [] => None
  | r :: rs' => if String.eqb (snd r) id then Some r else find_tcid_v0 id rs'
  end.
(* None = the run does not return directly (the branch tested the stored id for emptiness);
   Some a = direct_return's answer: the first message with that id (Invoke), the concatenation of
   every frame whose message carries that id (Stream) *)
Definition direct_answer_v0 (rd : string -> bool) (calls : list call) (o : tout) : option (option tmsg) :=
  let id := rd_call_id_v0 rd calls in
  if String.eqb id "" then None
  else Some match o with
            | TWhole rs => find_tcid_v0 id rs
            | TFrames ids em _ =>
                match filter (fun e => match nth_error ids (fst e) with
                                       | Some i => String.eqb i id
                                       | None => false
                                       end) em with
                | [] => None
                | sel => Some (concat_strings (map snd sel), id)
                end
            end.
(* the same question for the code as it is now *)
Definition direct_answer (rd : string -> bool) (calls : list call) (o : tout) : option (option tmsg) :=
  match rd_call_index rd calls with
  | None => None
  | Some i => Some (match tout_direct i o with Ok a => a | _ => None end)
  end.

Inductive mode : Type := Generate | Stream.

Section React.
  Variable tn : list call -> res (list tmsg).    (* the tools node on the calls of one assistant message: Invoke *)
  Variable tns : list call -> res (list string * list emitted * option N).
                                                 (* ... Stream: call ids, merged frames, final error item *)
  Variable rd : string -> bool.                  (* ToolReturnDirectly *)
  Variable rd_nonempty : bool.                   (* len(ToolReturnDirectly) > 0 *)
  Variable modifier : list msg -> list msg.      (* MessageModifier (identity if none) *)
  Variable visible : call -> bool.               (* the call is answered by a tool component (its callbacks feed
                                                    the message future); false for a call answered by the
                                                    UnknownToolsHandler, which has no callbacks *)

  (* the tool messages of a round that the message future hands out *)
  Definition emitted_results (calls : list call) (results : list tmsg) : list msg :=
    map (fun p => tool_msg (snd p)) (filter (fun p => visible (fst p)) (combine calls results)).

  Definition tools_err {A} (r : res A) : rerr :=
    match r with Err e => ETools e | _ => ETools E_PANIC end.

  (* ---- (i) the specification: the obvious loop ---- *)
  Fixpoint react_spec (script : list step) (budget : nat) (hist : list msg) : trace :=
    match budget with
    | O => tr_fail EStepLimit
    | S b1 =>
        tr_input (modifier hist)
          match script with
          | [] => tr_fail EModel
          | SFail :: _ => tr_fail EModel
          | SMsg content calls _ :: script' =>
              tr_emit [assistant content calls]
              match calls with
              | [] => tr_final (assistant content [])
              | _ =>
                  match b1 with
                  | O => tr_fail EStepLimit
                  | S b2 =>
                      tr_round calls
                        match tn calls with
                        | Ok results =>
                            tr_emit (emitted_results calls results)
                            match (if rd_nonempty then rd_call_index rd calls else None) with
                            | None =>
                              react_spec script' b2 (hist ++ assistant content calls :: map tool_msg results)
                            | Some i =>
                              match b2 with
                              | O => tr_fail EStepLimit
                              | S _ =>
                                  match nth_error results i with
                                  | Some r => tr_final (tool_msg r)
                                  | None => tr_fail ENoDirect
                                  end
                              end
                            end
                        | r => tr_fail (tools_err r)
                        end
                  end
              end
          end
    end.

  (* ---- (ii) the graph, superstep by superstep ---- *)
  Variable checker : list chunk -> bool.         (* StreamToolCallChecker *)

  (* s_rd: state.ReturnDirectly / ReturnDirectlyToolCallIndex *)
  Record state : Type := mkState { s_messages : list msg; s_rd : option nat }.

  Inductive task : Type :=
  | TChat (input : res (list msg))   (* the caller's messages, or the tools node's output as the chat node's
                                        pre-processing concatenates it (which fails if the stream does) *)
  | TTools (input : msg)
  | TDirect (input : tout)
  | TToolsBad.                       (* the tools node scheduled on a model output whose chunks cannot be
                                        concatenated (a malformed stream): its pre-processing fails *)

  (* the tools node's output in the given mode *)
  Definition tools_out (md : mode) (calls : list call) : res tout :=
    match md with
    | Generate => res_map TWhole (tn calls)
    | Stream => res_map (fun p => TFrames (fst (fst p)) (snd (fst p)) (snd p)) (tns calls)
    end.

  (* what the model emits for a scripted message in the given mode *)
  Definition emitted_chunks (md : mode) (content : string) (calls : list call) (chunks : list chunk) : list chunk :=
    match md with Generate => [whole_chunk content calls] | Stream => chunks end.

  (* the message that reaches the consumer of the model's output *)
  Definition delivered (md : mode) (content : string) (calls : list call) (chunks : list chunk) : option msg :=
    match md with
    | Generate => Some (assistant content calls)
    | Stream => match concat_chunks chunks with
                | Some (c, cl) => Some (assistant c cl)
                | None => None
                end
    end.

  (* [fuel] = maxSteps - step *)
  Fixpoint agent_loop (md : mode) (fuel : nat) (script : list step) (t : task) (s : state) : trace :=
    match fuel with
    | O => tr_fail EStepLimit
    | S fuel' =>
        match t with
        | TChat (Err e) => tr_fail (ETools e)
        | TChat Panic => tr_fail (ETools E_PANIC)
        | TChat (Ok input) =>
            let s1 := mkState (s_messages s ++ input) (s_rd s) in
            tr_input (modifier (s_messages s1))
              match script with
              | [] => tr_fail EModel
              | SFail :: _ => tr_fail EModel
              | SMsg content calls chunks :: script' =>
                  match delivered md content calls chunks with
                  | None =>
                      (* a stream whose chunks do not concatenate: streams are lazy, the chat node has
                         returned it; the branch reads the chunks one by one and routes it - to the tools
                         node, whose pre-processing fails on it in the next superstep, or to END: the run
                         returns it and the caller fails reading it *)
                      if checker (emitted_chunks md content calls chunks)
                      then agent_loop md fuel' script' TToolsBad s1
                      else tr_fail (ELate E_CONCAT)
                  | Some m =>
                      tr_emit [m]
                      (if checker (emitted_chunks md content calls chunks)
                       then agent_loop md fuel' script' (TTools m) s1
                       else tr_final m)
                  end
              end
        | TTools m =>
            let s1 := mkState (s_messages s ++ [m])
                              (if rd_nonempty then rd_call_index rd (m_calls m) else None) in
            tr_round (m_calls m)
              match tools_out md (m_calls m) with
              | Ok o =>
                  (* the node has returned; whoever reads its output to the end meets a stream failure:
                     the callbacks of the message future here, the next node in the next superstep *)
                  let rr := tout_results o in
                  tr_emit (match rr with Ok results => emitted_results (m_calls m) results | _ => [] end)
                  (if rd_nonempty then
                    match s_rd s1 with
                    | None => agent_loop md fuel' script (TChat (res_map (map tool_msg) rr)) s1
                    | Some _ => agent_loop md fuel' script (TDirect o) s1
                    end
                  else agent_loop md fuel' script (TChat (res_map (map tool_msg) rr)) s1)
              | r => tr_fail (tools_err r)
              end
        | TToolsBad => tr_fail EConcat
        | TDirect o =>
            match s_rd s with
            | Some i =>
                match tout_direct i o with
                | Ok (Some r) => tr_final (tool_msg r)
                | Ok None => tr_fail ENoDirect
                | Err e => tr_fail (ELate e)
                | Panic => tr_fail (ELate E_PANIC)
                end
            | None => tr_fail ENoDirect
            end
        end
    end.

  Definition agent_run (md : mode) (max_steps : nat) (script : list step) (input : list msg) : trace :=
    agent_loop md max_steps script (TChat (Ok input)) (mkState [] None).
End React.

(* how the message future of a run ends (flow/agent/react/option.go: the graph's OnEnd / OnError
   callbacks): closed when the graph run ended normally - also when the stream it handed out fails
   later in the caller's hands -, with an error item when the run failed *)
Definition future_closed (t : trace) : bool :=
  match t_out t with
  | Final _ => true
  | Failed (ELate _) => true
  | Failed _ => false
  end.

(* compose/graph.go: maxRunSteps == 0 -> len(nodes) + 10 ; nodes = chat, tools [, direct_return] *)
Definition effective_max_steps (max_step : nat) (rd_nonempty : bool) : nat :=
  match max_step with
  | O => if rd_nonempty then 13 else 12
  | _ => max_step
  end.

(* compose/graph_run.go: a call option WithRuntimeMaxSteps(n), n > 0, replaces the compiled limit
   (handed through agent.WithComposeOptions / agent.GetComposeOptions, flow/agent/agent_option.go) *)
Definition call_max_steps (max_step runtime_max : nat) (rd_nonempty : bool) : nat :=
  match runtime_max with
  | O => effective_max_steps max_step rd_nonempty
  | _ => runtime_max
  end.

(* ---- message modifiers of the harness (any function is allowed by the theorems) ----------- *)
(* react.NewPersonaModifier *)
Definition mod_persona (p : string) (h : list msg) : list msg := mkMsg RSystem p [] "" :: h.
(* replaces the first message of the slice it is given by a prefixed copy, in place *)
Definition mod_rewrite (h : list msg) : list msg :=
  match h with
  | [] => []
  | m :: r => mkMsg (m_role m) ("R:" ++ m_content m) (m_calls m) (m_tcid m) :: r
  end.
(* keeps the last n messages (shifting them to the front of the slice it is given, in place) *)
Definition mod_window (n : nat) (h : list msg) : list msg := skipn (List.length h - n) h.

(* ---- compose.ToolsNode.Stream as the agent graph's nodes see it ---------------------------- *)
(* Model/Tools.v: the tool streams are opened (the calls complete in the order [pi]; a panic is
   recovered by the graph's task executor), merged (interleaving [sched_of]: from which stream the
   next frame is taken); an error item ends the merged stream with that error *)
Definition tools_stream_frames (kind_of : string -> option tkind) (inv : string -> string -> tres)
           (str : string -> string -> sres) (handler : option (string -> string -> tres))
           (pi : list nat) (sched_of : list (list string * option N) -> list nat) (calls : list call)
  : res (list string * list emitted * option N) :=
  match in_graph (tools_stream_open kind_of inv str handler pi true calls) with
  | Ok ss =>
      let srcs := stream_srcs ss in
      Ok (stream_ids ss, fst (merge_run (sched_of srcs) srcs), snd (merge_run (sched_of srcs) srcs))
  | Err e => Err e
  | Panic => Panic
  end.
