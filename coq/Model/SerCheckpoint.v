(* Model/SerCheckpoint.v — the record shapes compose registers for checkpoints
   (compose/checkpoint.go: checkpoint, nilChunk, init(); compose/dag.go: dagChannel,
   dependencyState, init(); compose/pregel.go: pregelChannel; compose/graph_manager.go: channel).
   Unexported fields (dagChannel.zeroValue, emptyStream) are skipped by the encoder and
   are not part of the serialised value. *)
From Coq Require Import List NArith String.
From Eino Require Import Base.Util Base.Universe Model.Ser.
Import ListNotations.
Local Open Scope string_scope.

Definition S_CHECKPOINT : N := 9000.
Definition S_DAG : N := 9001.
Definition S_PREGEL : N := 9002.
Definition S_NILCHUNK : N := 9003.   (* compose/checkpoint.go: nilChunk, a struct without fields (fix 5464095) *)
Definition I_CHANNEL : N := 9000.
Definition N_DEPSTATE : N := 9000.

Definition t_string := TBase BString.
Definition t_checkpoint_ptr := TPtr (TStruct S_CHECKPOINT).

Definition ckpt_env : senv :=
  [ (S_CHECKPOINT,
     [ ("Channels", TMap t_string (TIface I_CHANNEL));
       ("Inputs", TMap t_string TAny);
       ("State", TAny);
       ("SkipPreHandler", TMap t_string (TBase BBool));
       ("SubGraphs", TMap t_string t_checkpoint_ptr) ]);
    (S_DAG,
     [ ("ControlPredecessors", TMap t_string (TNamed N_DEPSTATE BUint8));
       ("Values", TMap t_string TAny);
       ("DataPredecessors", TMap t_string (TBase BBool));
       ("Skipped", TBase BBool) ]);
    (S_PREGEL, [ ("Values", TMap t_string TAny) ]);
    (S_NILCHUNK, []) ].

Definition ckpt_registry : registry :=
  [ ("_eino_nil_chunk", TStruct S_NILCHUNK);
    ("_eino_channel", TIface I_CHANNEL);
    ("_eino_checkpoint", TStruct S_CHECKPOINT);
    ("_eino_dag_channel", TStruct S_DAG);
    ("_eino_pregel_channel", TStruct S_PREGEL);
    ("_eino_dependency_state", TNamed N_DEPSTATE BUint8) ].

(* the registry of a process that uses compose: serialization.init, compose's init
   (dag.go), then the user's registrations; and the struct environment.  The
   correspondence check evaluates every case with these (see [mk] in the generated
   cases files). *)
Definition ckpt_reg (ureg : registry) : registry := (builtin_registry ++ ckpt_registry ++ ureg)%list.
Definition ckpt_senv (uenv : senv) : senv := (ckpt_env ++ uenv)%list.

(* a small checkpoint: one DAG channel, one Pregel channel, a pending input, a state
   held in [any], a nested sub-graph checkpoint *)
Definition vstr (s : string) : val := VBase BString (LStr s).
Definition sample_checkpoint : val :=
  VPtr (VStruct S_CHECKPOINT
    [ ("Channels", VMap t_string (TIface I_CHANNEL) (Some
        [ (vstr "a", VIface (TIface I_CHANNEL) (Some (VPtr (VStruct S_DAG
             [ ("ControlPredecessors", VMap t_string (TNamed N_DEPSTATE BUint8)
                                         (Some [(vstr "start", VNamed N_DEPSTATE BUint8 (LInt 1))]));
               ("Values", VMap t_string TAny
                            (Some [(vstr "start", VIface TAny (Some (vstr "hello")))]));
               ("DataPredecessors", VMap t_string (TBase BBool) (Some [(vstr "start", VBase BBool (LBool true))]));
               ("Skipped", VBase BBool (LBool false)) ]))));
          (vstr "b", VIface (TIface I_CHANNEL) (Some (VPtr (VStruct S_PREGEL
             [ ("Values", VMap t_string TAny None) ])))) ]));
      ("Inputs", VMap t_string TAny (Some [(vstr "b", VIface TAny (Some (VBase BInt (LInt 7))))]));
      ("State", VIface TAny (Some (VPtr (VSlice (TBase BInt) (Some [VBase BInt (LInt 1); VBase BInt (LInt 2)])))));
      ("SkipPreHandler", VMap t_string (TBase BBool) (Some [(vstr "b", VBase BBool (LBool true))]));
      ("SubGraphs", VMap t_string t_checkpoint_ptr (Some
        [ (vstr "sub", VPtr (VStruct S_CHECKPOINT
             [ ("Channels", VMap t_string (TIface I_CHANNEL) None);
               ("Inputs", VMap t_string TAny None);
               ("State", VIface TAny None);
               ("SkipPreHandler", VMap t_string (TBase BBool) None);
               ("SubGraphs", VMap t_string t_checkpoint_ptr None) ])) ])) ]).
