(* Model/StateLockLTS.v — C11, part 3: the transition system.

   One lock per state object (Go's sync.Mutex inside compose.internalState: at most one
   holder, Lock blocks while held — assumed, not proved). A critical section (state
   pre-handler, state post-handler, ProcessState callback) is NOT atomic here: it is four
   steps — acquire, load the shared value into a local copy, store the value computed from
   that copy, release — so that a lost update is expressible and its absence is a theorem.

   Who runs what, as in the code:
     run-loop goroutine of a graph instance (runner.run):
        calculateNextTasks  : a waiting node whose predecessors are all final becomes ready
                              with the merge of their final outputs           (PWait -> PReady)
        taskManager.submit  : the pre-handler of every ready node, one after the other,
                              its result becomes the task's input             (PReady -> PPred)
                              then the nodes are spawned                      (PPred -> PRun | PSub)
        taskManager.waitOne : collects finished nodes in completion order and runs the
                              post-handler, its result becomes the output     (PDone -> PFin)
     node goroutine (taskManager.executor):
        lambda: ProcessState calls one after the other                        (PRun j -> PRun (j+1))
        nested graph: a new instance of the inner graph on this goroutine; if the inner
        graph declares state its generator is called (fresh object), otherwise the instance
        sees the object of its parent (context inheritance)                  (PSub)
   [pstep] is the transition function without scheduling constraints; [guard] adds the
   constraints of the run loop (a single goroutine: handlers never overlap each other, all
   pre-handlers of a batch before its spawns, collection in completion order, batch modes
   wait for all nodes before the next step). [step] = guard + pstep. Every theorem is proved
   for [pstep] (every interleaving, with or without the run loop's constraints), hence holds
   for [step]. The first task of a batch runs on the run-loop goroutine itself
   (graph_manager.go:311); the model treats it as a spawned goroutine, which only adds
   interleavings.

   Resume (ChResume): the checkpoint carries the value of the state object; resume puts
   m(value) — m the caller's StateModifier, identity if none — into a NEW object with a new
   lock and every instance that saw the old object now sees the new one.

   Ghost state (never read by a transition): [c_acq] is the log of lock acquisitions,
   [c_trace] the log of completed user functions (appended at the store, with the value
   that went in, the state that was loaded and the value that came out), [c_gens] the log
   of generator calls, [o_init]/[o_inst]/[o_origin] remember where an object came from.

   Generic in the state type S, the value type X and the user functions. *)
From Eino Require Import Base.Util Model.StateLock.

Fixpoint upd {A} (l : list A) (i : nat) (a : A) : list A :=
  match l, i with
  | [], _ => []
  | _ :: l', O => a :: l'
  | b :: l', S i' => b :: upd l' i' a
  end.

Section LTS.
  Variables (S X : Type).
  Variable gen : nat -> S.                        (* state generator of graph g *)
  Variable hfun : kind -> N -> X -> S -> X * S.   (* user function of a critical section *)
  Variable lout : N -> X -> X.                    (* what a lambda returns for its final register *)
  Variable mrg : list X -> X.                     (* fan-in *)
  Variable f : forest.
  Variable x0 : X.                                (* input of every run *)

  Inductive csph := CsAcq | CsLoaded (l : S) | CsStored.

  Inductive pos :=
  | PWait
  | PReady (x : X)          (* task created, pre-handler not yet run *)
  | PPred (x : X)           (* pre-handled, waiting for the spawn *)
  | PRun (x : X) (j : nat)  (* lambda running, j ProcessState calls done, x = its register *)
  | PSub (ci : nat)         (* nested graph running as instance ci *)
  | PDone (y : X)           (* finished, waiting to be collected *)
  | PFin (y : X).           (* collected and post-handled: final output *)

  Record nstat := mkNs { ns_pos : pos; ns_cs : option csph }.

  Record inst := mkInst {
    i_run : N; i_graph : nat; i_parent : option nat; i_obj : option nat; i_in : X;
    i_ns : list (N * nstat); i_doneq : list N }.

  (* where an object comes from: the generator of graph g, or the checkpointed value of
     object o passed through the caller's modifier m *)
  Inductive origin := OGen (g : nat) | OResumed (o : nat) (m : S -> S).

  Record objrec := mkObj {
    o_val : S; o_holder : option (nat * N); o_init : S; o_inst : nat; o_origin : origin }.

  (* ghost log of completed user functions, oldest first: object, instance, node, kind,
     value that went in, state that was loaded, value that came out *)
  Record tentry := mkT {
    t_obj : nat; t_inst : nat; t_node : node; t_kind : kind; t_x : X; t_seen : S; t_out : X }.
  (* ghost log of lock acquisitions, oldest first *)
  Record aentry := mkA { a_obj : nat; a_inst : nat; a_node : N; a_kind : kind }.

  Record config := mkCfg {
    c_insts : list inst; c_objs : list objrec; c_trace : list tentry; c_acq : list aentry;
    c_gens : list nat }.

  Definition init_cfg : config := mkCfg [] [] [] [] [].

  (* which critical section comes next at this position, if any *)
  Definition next_cs (a : node) (p : pos) : option kind :=
    match p with
    | PReady _ => if n_pre a then Some KPre else None
    | PRun _ j => match n_sub a with
                  | Some _ => None
                  | None => if Nat.ltb j (n_ps a) then Some (KBody j) else None
                  end
    | PDone _ => if n_post a then Some KPost else None
    | _ => None
    end.

  Definition pos_x (p : pos) : option X :=
    match p with
    | PReady x | PPred x | PRun x _ | PDone x | PFin x => Some x
    | _ => None
    end.
  Definition set_x (p : pos) (x : X) : pos :=
    match p with
    | PReady _ => PReady x | PPred _ => PPred x | PRun _ j => PRun x j
    | PDone _ => PDone x | PFin _ => PFin x | q => q
    end.
  (* position after the release *)
  Definition after_cs (p : pos) : pos :=
    match p with
    | PReady x => PPred x | PRun x j => PRun x (Datatypes.S j) | PDone y => PFin y | q => q
    end.

  Definition get_ns (J : inst) (n : N) : option nstat := nlist_get n (i_ns J).
  Definition set_ns (J : inst) (n : N) (s : nstat) : inst :=
    mkInst (i_run J) (i_graph J) (i_parent J) (i_obj J) (i_in J) (nlist_set n s (i_ns J)) (i_doneq J).
  Definition set_doneq (J : inst) (q : list N) : inst :=
    mkInst (i_run J) (i_graph J) (i_parent J) (i_obj J) (i_in J) (i_ns J) q.
  Definition set_iobj (J : inst) (o : option nat) : inst :=
    mkInst (i_run J) (i_graph J) (i_parent J) o (i_in J) (i_ns J) (i_doneq J).

  Definition set_inst (c : config) (i : nat) (J : inst) : config :=
    mkCfg (upd (c_insts c) i J) (c_objs c) (c_trace c) (c_acq c) (c_gens c).
  Definition set_obj (c : config) (o : nat) (r : objrec) : config :=
    mkCfg (c_insts c) (upd (c_objs c) o r) (c_trace c) (c_acq c) (c_gens c).
  Definition add_trace (c : config) (e : tentry) : config :=
    mkCfg (c_insts c) (c_objs c) (c_trace c ++ [e]) (c_acq c) (c_gens c).
  Definition add_acq (c : config) (e : aentry) : config :=
    mkCfg (c_insts c) (c_objs c) (c_trace c) (c_acq c ++ [e]) (c_gens c).
  Definition with_holder (r : objrec) (h : option (nat * N)) : objrec :=
    mkObj (o_val r) h (o_init r) (o_inst r) (o_origin r).
  Definition with_val (r : objrec) (v : S) : objrec :=
    mkObj v (o_holder r) (o_init r) (o_inst r) (o_origin r).

  Definition init_ns (g : graph) : list (N * nstat) :=
    map (fun a => (n_id a, mkNs PWait None)) (g_nodes g).

  (* a new instance of graph g for run r; a graph that declares state gets a fresh object
     from its generator, otherwise it sees [inherited] *)
  Definition new_inst (c : config) (r : N) (g : nat) (G : graph) (parent : option nat)
             (inherited : option nat) (x : X) : config :=
    let i := List.length (c_insts c) in
    if g_state G then
      let o := List.length (c_objs c) in
      mkCfg (c_insts c ++ [mkInst r g parent (Some o) x (init_ns G) []])
            (c_objs c ++ [mkObj (gen g) None (gen g) i (OGen g)]) (c_trace c) (c_acq c) (c_gens c ++ [g])
    else
      mkCfg (c_insts c ++ [mkInst r g parent inherited x (init_ns G) []])
            (c_objs c) (c_trace c) (c_acq c) (c_gens c).

  (* what a node fed by predecessors receives: the merge of their final outputs — or, for the
     re-execution of a node that interrupted itself, the zero value *)
  Definition join_val (a : node) (ys : list X) : X := if n_zero a then mrg [] else mrg ys.

  Definition final_of (J : inst) (n : N) : option X :=
    match get_ns J n with
    | Some (mkNs (PFin y) None) => Some y
    | _ => None
    end.

  Fixpoint omapM {A B} (g : A -> option B) (l : list A) : option (list B) :=
    match l with
    | [] => Some []
    | a :: l' => match g a with
                 | Some b => match omapM g l' with Some bs => Some (b :: bs) | None => None end
                 | None => None
                 end
    end.

  Inductive choice :=
  | ChStart (r : N)               (* a caller invokes the compiled top-level graph *)
  | ChAcq (i : nat) (n : N)       (* Lock *)
  | ChLoad (i : nat) (n : N)      (* the user function reads the state *)
  | ChStore (i : nat) (n : N)     (* ... and writes what it computed from what it read *)
  | ChRel (i : nat) (n : N)       (* Unlock *)
  | ChAdv (i : nat) (n : N)       (* every other move of node n of instance i *)
  | ChResume (o : nat) (m : S -> S).

  (* node n of instance i with its description and status *)
  Definition lookup (c : config) (i : nat) (n : N) : option (inst * node * nstat) :=
    match nth_error (c_insts c) i with
    | None => None
    | Some J =>
      match nth_error f (i_graph J) with
      | None => None
      | Some G =>
        match find_in_graph n (g_nodes G), get_ns J n with
        | Some a, Some s => Some (J, a, s)
        | _, _ => None
        end
      end
    end.

  (* resume: an instance that saw object o now sees o' *)
  Definition remap (o o' : nat) (J : inst) : inst :=
    match i_obj J with
    | Some o1 => if Nat.eqb o1 o then set_iobj J (Some o') else J
    | None => J
    end.

  Definition pstep (c : config) (ch : choice) : option config :=
    match ch with
    | ChStart r =>
        match nth_error f 0 with
        | Some G => Some (new_inst c r 0 G None None x0)
        | None => None
        end
    | ChAcq i n =>
        match lookup c i n with
        | Some (J, a, mkNs p None) =>
          match next_cs a p, pos_x p, i_obj J with
          | Some k, Some x, Some o =>
            match nth_error (c_objs c) o with
            | Some r =>
                match o_holder r with
                | None => Some (set_inst (add_acq (set_obj c o (with_holder r (Some (i, n)))) (mkA o i n k)) i
                                         (set_ns J n (mkNs p (Some CsAcq))))
                | Some _ => None          (* Lock blocks *)
                end
            | None => None
            end
          | _, _, _ => None          (* no state visible: ProcessState fails, the run fails *)
          end
        | _ => None
        end
    | ChLoad i n =>
        match lookup c i n with
        | Some (J, a, mkNs p (Some CsAcq)) =>
          match i_obj J with
          | Some o => match nth_error (c_objs c) o with
                      | Some r => Some (set_inst c i (set_ns J n (mkNs p (Some (CsLoaded (o_val r))))))
                      | None => None
                      end
          | None => None
          end
        | _ => None
        end
    | ChStore i n =>
        match lookup c i n with
        | Some (J, a, mkNs p (Some (CsLoaded l))) =>
          match next_cs a p, pos_x p, i_obj J with
          | Some k, Some x, Some o =>
            match nth_error (c_objs c) o with
            | Some r =>
                let '(x', s') := hfun k (n_id a) x l in
                Some (set_inst (add_trace (set_obj c o (with_val r s')) (mkT o i a k x l x')) i
                               (set_ns J n (mkNs (set_x p x') (Some CsStored))))
            | None => None
            end
          | _, _, _ => None
          end
        | _ => None
        end
    | ChRel i n =>
        match lookup c i n with
        | Some (J, a, mkNs p (Some CsStored)) =>
          match i_obj J with
          | Some o =>
            match nth_error (c_objs c) o with
            | Some r =>
                let J' := set_ns J n (mkNs (after_cs p) None) in
                let J'' := match p with PDone _ => set_doneq J' (remove N.eq_dec n (i_doneq J')) | _ => J' end in
                Some (set_inst (set_obj c o (with_holder r None)) i J'')
            | None => None
            end
          | None => None
          end
        | _ => None
        end
    | ChAdv i n =>
        match lookup c i n with
        | Some (J, a, mkNs p None) =>
          match next_cs a p with
          | Some _ => None                 (* a critical section is due: ChAcq *)
          | None =>
            match p with
            | PWait =>
                match n_preds a with
                | [] => Some (set_inst c i (set_ns J n (mkNs (PReady (i_in J)) None)))
                | ps => match omapM (final_of J) ps with
                        | Some ys => Some (set_inst c i (set_ns J n (mkNs (PReady (join_val a ys)) None)))
                        | None => None
                        end
                end
            | PReady x => Some (set_inst c i (set_ns J n (mkNs (PPred x) None)))
            | PPred x =>
                match n_sub a with
                | None => Some (set_inst c i (set_ns J n (mkNs (PRun x 0) None)))
                | Some g =>
                    match nth_error f g with
                    | Some G =>
                        let ci := List.length (c_insts c) in
                        let c1 := new_inst c (i_run J) g G (Some i) (i_obj J) x in
                        Some (set_inst c1 i (set_ns J n (mkNs (PSub ci) None)))
                    | None => None
                    end
                end
            | PRun x j =>
                match n_sub a with
                | Some _ => None
                | None => Some (set_inst c i (set_doneq (set_ns J n (mkNs (PDone (lout (n_id a) x)) None))
                                                        (i_doneq J ++ [n])))
                end
            | PSub ci =>
                match nth_error (c_insts c) ci with
                | Some CI =>
                    match nth_error f (i_graph CI) with
                    | Some CG =>
                        match omapM (fun s => final_of CI (n_id s)) (sinks CG) with
                        | Some ys => Some (set_inst c i (set_doneq (set_ns J n (mkNs (PDone (mrg ys)) None))
                                                                   (i_doneq J ++ [n])))
                        | None => None
                        end
                    | None => None
                    end
                | None => None
                end
            | PDone y => Some (set_inst c i (set_doneq (set_ns J n (mkNs (PFin y) None))
                                                       (remove N.eq_dec n (i_doneq J))))
            | PFin _ => None
            end
          end
        | _ => None
        end
    | ChResume o m =>
        match nth_error (c_objs c) o with
        | Some r =>
            match o_holder r with
            | None => Some (mkCfg (map (remap o (List.length (c_objs c))) (c_insts c))
                                  (c_objs c ++ [mkObj (m (o_val r)) None (m (o_val r)) (o_inst r) (OResumed o m)])
                                  (c_trace c) (c_acq c) (c_gens c))
            | Some _ => None
            end
        | None => None
        end
    end.

  (* the same system with a lock that does not block (what a handler that forgets the mutex
     amounts to): used only to show that the theorems depend on the lock
     (no_lost_update_without_lock_refuted) *)
  Definition clear_holders (c : config) : config :=
    mkCfg (c_insts c) (map (fun r => with_holder r None) (c_objs c)) (c_trace c) (c_acq c) (c_gens c).
  Definition pstep_nolock (c : config) (ch : choice) : option config :=
    match ch with
    | ChAcq _ _ => pstep (clear_holders c) ch
    | _ => pstep c ch
    end.

  (* ---------------------------------------------------------------- run-loop constraints *)

  Definition rl_busy (J : inst) : bool :=       (* the run loop is inside a handler *)
    existsb (fun ns => match snd ns with
                       | mkNs (PReady _) (Some _) | mkNs (PDone _) (Some _) => true
                       | _ => false end) (i_ns J).
  Definition has_pos (J : inst) (q : pos -> bool) : bool :=
    existsb (fun ns => q (ns_pos (snd ns))) (i_ns J).
  Definition is_ready p := match p with PReady _ => true | _ => false end.
  Definition is_pred p := match p with PPred _ => true | _ => false end.
  Definition in_flight p := match p with PRun _ _ | PSub _ | PDone _ => true | _ => false end.
  Definition triggerable (G : graph) (J : inst) : bool :=
    existsb (fun a => match get_ns J (n_id a) with
                      | Some (mkNs PWait _) =>
                          match omapM (final_of J) (n_preds a) with Some _ => true | None => false end
                      | _ => false end) (g_nodes G).
  Definition eager (G : graph) : bool := match g_mode G with MEager => true | _ => false end.

  Definition guard (c : config) (ch : choice) : bool :=
    match ch with
    | ChStart r => negb (existsb (fun J => N.eqb (i_run J) r) (c_insts c))
    | ChLoad _ _ | ChStore _ _ | ChRel _ _ => true
    | ChResume o _ =>
        (* interrupts are taken when nothing of the instances that see o is running *)
        forallb (fun J => match i_obj J with
                          | Some o1 => negb (Nat.eqb o1 o) || negb (has_pos J (fun p => in_flight p || is_pred p))
                          | None => true end) (c_insts c)
    | ChAcq i n | ChAdv i n =>
        match lookup c i n with
        | Some (J, a, mkNs p _) =>
          match nth_error f (i_graph J) with
          | None => false
          | Some G =>
            match p with
            | PWait => negb (rl_busy J) && negb (has_pos J is_pred)
                       && (eager G || negb (has_pos J in_flight))
            | PReady _ => negb (rl_busy J) && negb (triggerable G J)
            | PPred _ => negb (rl_busy J) && negb (has_pos J is_ready) && negb (triggerable G J)
            | PRun _ _ | PSub _ => true
            | PDone _ => negb (rl_busy J) && negb (has_pos J is_ready) && negb (has_pos J is_pred)
                         && (negb (eager G) || negb (triggerable G J))
                         && match i_doneq J with q :: _ => N.eqb q n | [] => false end
            | PFin _ => false
            end
          end
        | None => false
        end
    end.

  Definition step (c : config) (ch : choice) : option config :=
    if guard c ch then pstep c ch else None.

  Fixpoint run_steps (stp : config -> choice -> option config) (c : config) (l : list choice) : option config :=
    match l with
    | [] => Some c
    | ch :: l' => match stp c ch with Some c' => run_steps stp c' l' | None => None end
    end.

  Inductive preach : config -> Prop :=
  | preach_init : preach init_cfg
  | preach_step : forall c ch c', preach c -> pstep c ch = Some c' -> preach c'.

  Inductive reach : config -> Prop :=
  | reach_init : reach init_cfg
  | reach_step : forall c ch c', reach c -> step c ch = Some c' -> reach c'.

  (* ---------------------------------------------------------------- observations on a configuration *)

  (* node n of instance i is inside a critical section on object o *)
  Definition in_cs (c : config) (i : nat) (n : N) (o : nat) : Prop :=
    exists J s ph, nth_error (c_insts c) i = Some J /\ get_ns J n = Some s /\
                   ns_cs s = Some ph /\ i_obj J = Some o.

  (* effect of a logged critical section on the state: the user function applied to the
     value that went in (and to whatever state it finds) *)
  Definition eff (e : tentry) : S -> S := fun s => snd (hfun (t_kind e) (n_id (t_node e)) (t_x e) s).
  Definition hist (c : config) (o : nat) : list tentry :=
    filter (fun e => Nat.eqb (t_obj e) o) (c_trace c).
  Definition apply_all (l : list tentry) (s : S) : S := fold_left (fun s e => eff e s) l s.

  Definition stateful (J : inst) : bool :=
    match nth_error f (i_graph J) with Some G => g_state G | None => false end.

  (* kinds of the critical sections of node n of instance i in a piece of the log *)
  Definition kinds_in (i : nat) (n : N) (t : list tentry) : list kind :=
    map t_kind (filter (fun e => Nat.eqb (t_inst e) i && N.eqb (n_id (t_node e)) n) t).
  (* kinds of the critical sections of node n of instance i completed so far, oldest first *)
  Definition node_tr (c : config) (i : nat) (n : N) : list kind := kinds_in i n (c_trace c).

  (* the critical sections one execution of node a performs, in the order the property demands:
     pre-handler, the ProcessState calls of the body one after the other, post-handler *)
  Definition pre_k (a : node) : list kind := if n_pre a then [KPre] else [].
  Definition bodies (j : nat) : list kind := map KBody (seq 0 j).
  Definition body_k (a : node) : list kind :=
    match n_sub a with Some _ => [] | None => bodies (n_ps a) end.
  Definition post_k (a : node) : list kind := if n_post a then [KPost] else [].
  Definition full_kinds (a : node) : list kind := pre_k a ++ body_k a ++ post_k a.

  Definition kind_before (k1 k2 : kind) : Prop :=
    match k1, k2 with
    | KPre, KBody _ | KPre, KPost | KBody _, KPost => True
    | KBody i, KBody j => (i < j)%nat
    | _, _ => False
    end.


  (* ---- value flow (specification side): which value a critical section / a node must
     receive, in terms of what the handlers returned (logged [t_out]) and of final outputs *)

  (* y is the final output of node n of instance i *)
  Definition fin (c : config) (i : nat) (n : N) (y : X) : Prop :=
    exists J, nth_error (c_insts c) i = Some J /\ final_of J n = Some y.
  (* the critical section of kind k of node n of instance i returned x *)
  Definition ret (c : config) (i : nat) (n : N) (k : kind) (x : X) : Prop :=
    exists e, In e (c_trace c) /\ t_inst e = i /\ n_id (t_node e) = n /\ t_kind e = k /\ t_out e = x.
  (* x is what the predecessors (or the graph's input) deliver to node a *)
  Definition is_in (c : config) (i : nat) (a : node) (x : X) : Prop :=
    exists J, nth_error (c_insts c) i = Some J /\
      match n_preds a with
      | [] => x = i_in J
      | ps => exists ys, Forall2 (fin c i) ps ys /\ x = join_val a ys
      end.
  (* x is the node's input: what the pre-handler returned if there is one *)
  Definition is_pre (c : config) (i : nat) (a : node) (x : X) : Prop :=
    if n_pre a then ret c i (n_id a) KPre x else is_in c i a x.
  (* x is what the j-th ProcessState callback of the lambda must receive *)
  Definition is_bodyin (c : config) (i : nat) (a : node) (j : nat) (x : X) : Prop :=
    match j with
    | O => is_pre c i a x
    | Datatypes.S j' => ret c i (n_id a) (KBody j') x
    end.
  (* ci is the instance node a of instance i started: a nested run of graph g on the node's input *)
  Definition child_of (c : config) (i : nat) (a : node) (ci : nat) : Prop :=
    exists CI g, n_sub a = Some g /\ nth_error (c_insts c) ci = Some CI /\ i_parent CI = Some i /\
                 i_graph CI = g /\ is_pre c i a (i_in CI).
  (* y is the node's own output (before the post-handler) *)
  Definition is_out (c : config) (i : nat) (a : node) (y : X) : Prop :=
    match n_sub a with
    | None => exists x, is_bodyin c i a (n_ps a) x /\ y = lout (n_id a) x
    | Some g => exists ci G ys, child_of c i a ci /\ nth_error f g = Some G /\
                                Forall2 (fin c ci) (map n_id (sinks G)) ys /\ y = mrg ys
    end.
  (* y is what the successors receive: what the post-handler returned if there is one *)
  Definition is_final (c : config) (i : nat) (a : node) (y : X) : Prop :=
    if n_post a then ret c i (n_id a) KPost y else is_out c i a y.
  Definition exp_in (c : config) (i : nat) (a : node) (k : kind) (x : X) : Prop :=
    match k with
    | KPre => is_in c i a x
    | KBody j => is_bodyin c i a j x
    | KPost => is_out c i a x
    end.


  (* per object: who acquired its lock, in acquisition order / whose user function completed,
     in completion order *)
  Definition akey (e : aentry) : nat * N * kind := (a_inst e, a_node e, a_kind e).
  Definition tkey (e : tentry) : nat * N * kind := (t_inst e, n_id (t_node e), t_kind e).
  Definition acq_of (c : config) (o : nat) : list (nat * N * kind) :=
    map akey (filter (fun e => Nat.eqb (a_obj e) o) (c_acq c)).
  Definition done_of (c : config) (o : nat) : list (nat * N * kind) := map tkey (hist c o).

  Definition is_stored (cs : option csph) : bool :=
    match cs with Some CsStored => true | _ => false end.

  (* what the register of node a holds at position p (st: the user function of the critical
     section in progress has already returned) *)
  Definition reg_ok (c : config) (i : nat) (a : node) (p : pos) (cs : option csph) : Prop :=
    match p with
    | PWait => True
    | PReady x => if is_stored cs then ret c i (n_id a) KPre x else is_in c i a x
    | PPred x => is_pre c i a x
    | PRun x j => if is_stored cs then ret c i (n_id a) (KBody j) x else is_bodyin c i a j x
    | PSub ci => child_of c i a ci
    | PDone y => if is_stored cs then ret c i (n_id a) KPost y else is_out c i a y
    | PFin y => is_final c i a y
    end.

  (* generator calls an object stands for *)
  Definition ogen (r : objrec) : list nat :=
    match o_origin r with OGen g => [g] | OResumed _ _ => [] end.

  (* no instance sees object o (any more) *)
  Definition dead (c : config) (o : nat) : Prop :=
    forall i J, nth_error (c_insts c) i = Some J -> i_obj J <> Some o.

  (* ---------------------------------------------------------------- a scheduler (for examples) *)

  Definition candidates (c : config) : list choice :=
    flat_map (fun iJ => let i := fst iJ in
                flat_map (fun ns => let n := fst ns in
                            [ChRel i n; ChStore i n; ChLoad i n; ChAcq i n; ChAdv i n]) (i_ns (snd iJ)))
             (combine (seq 0 (List.length (c_insts c))) (c_insts c)).

  Definition enabled (c : config) : list (choice * config) :=
    flat_map (fun ch => match step c ch with Some c' => [(ch, c')] | None => [] end) (candidates c).

  (* picks: the k-th enabled choice (mod the number enabled) at each step; stops when
     nothing is enabled or the picks are used up *)
  Fixpoint run_sched (c : config) (picks : list nat) : config :=
    match picks with
    | [] => c
    | k :: picks' =>
      match enabled c with
      | [] => c
      | e :: es => run_sched (snd (nth (Nat.modulo k (Datatypes.S (List.length es))) (e :: es) e)) picks'
      end
    end.

  (* ---------------------------------------------------------------- replay helpers (Corr/C11.v)
     Silent moves (ChAdv) are never enabled while a critical section is due at that node,
     they never touch a state object, and they only enable more moves: performing all of
     them eagerly loses no behaviour of [pstep]. *)

  Definition adv_candidates (c : config) : list choice :=
    flat_map (fun iJ => map (fun ns => ChAdv (fst iJ) (fst ns)) (i_ns (snd iJ)))
             (combine (seq 0 (List.length (c_insts c))) (c_insts c)).

  (* one pass over all nodes; the flag tells whether anything moved *)
  Definition adv_pass (c : config) : config * bool :=
    fold_left (fun cb ch => match pstep (fst cb) ch with
                            | Some c' => (c', true)
                            | None => cb
                            end) (adv_candidates c) (c, false).

  Fixpoint saturate (fuel : nat) (c : config) : config :=
    match fuel with
    | O => c
    | Datatypes.S k => let '(c', moved) := adv_pass c in if moved then saturate k c' else c'
    end.

  (* one whole critical section of node n of instance i *)
  Definition do_cs (c : config) (i : nat) (n : N) : option config :=
    match pstep c (ChAcq i n) with
    | Some c1 => match pstep c1 (ChLoad i n) with
                 | Some c2 => match pstep c2 (ChStore i n) with
                              | Some c3 => pstep c3 (ChRel i n)
                              | None => None end
                 | None => None end
    | None => None
    end.

  (* first instance of graph g that belongs to run r *)
  Fixpoint find_inst_from (k : nat) (l : list inst) (r : N) (g : nat) : option nat :=
    match l with
    | [] => None
    | J :: l' => if N.eqb (i_run J) r && Nat.eqb (i_graph J) g then Some k
                 else find_inst_from (Datatypes.S k) l' r g
    end.
  Definition find_inst (c : config) (r : N) (g : nat) : option nat := find_inst_from 0 (c_insts c) r g.

  Definition ensure_run (c : config) (r : N) : option config :=
    match find_inst c r 0 with
    | Some _ => Some c
    | None => pstep c (ChStart r)
    end.

  (* result of the run whose top-level instance is i: merge of the final outputs of the sinks *)
  Definition inst_result (c : config) (i : nat) : option X :=
    match nth_error (c_insts c) i with
    | Some J => match nth_error f (i_graph J) with
                | Some G => match omapM (fun s => final_of J (n_id s)) (sinks G) with
                            | Some ys => Some (mrg ys)
                            | None => None end
                | None => None end
    | None => None
    end.

  Definition all_final (c : config) : bool :=
    forallb (fun J => forallb (fun ns => match snd ns with mkNs (PFin _) None => true | _ => false end) (i_ns J))
            (c_insts c).
End LTS.

Arguments CsAcq {S}.
Arguments CsStored {S}.
Arguments CsLoaded {S} l.
Arguments PWait {X}.
Arguments PSub {X} ci.
Arguments PReady {X} x.
Arguments PPred {X} x.
Arguments PRun {X} x j.
Arguments PDone {X} y.
Arguments PFin {X} y.
Arguments mkNs {S X} ns_pos ns_cs.
Arguments ns_pos {S X} n.
Arguments ns_cs {S X} n.
Arguments mkInst {S X} i_run i_graph i_parent i_obj i_in i_ns i_doneq.
Arguments i_run {S X} i.
Arguments i_graph {S X} i.
Arguments i_parent {S X} i.
Arguments i_obj {S X} i.
Arguments i_in {S X} i.
Arguments i_ns {S X} i.
Arguments i_doneq {S X} i.
Arguments OGen {S} g.
Arguments OResumed {S} o m.
Arguments mkObj {S} o_val o_holder o_init o_inst o_origin.
Arguments o_val {S} o.
Arguments o_holder {S} o.
Arguments o_init {S} o.
Arguments o_inst {S} o.
Arguments o_origin {S} o.
Arguments mkT {S X} t_obj t_inst t_node t_kind t_x t_seen t_out.
Arguments t_obj {S X} t.
Arguments t_inst {S X} t.
Arguments t_node {S X} t.
Arguments t_kind {S X} t.
Arguments t_x {S X} t.
Arguments t_seen {S X} t.
Arguments t_out {S X} t.
Arguments mkCfg {S X} c_insts c_objs c_trace c_acq c_gens.
Arguments c_insts {S X} c.
Arguments c_objs {S X} c.
Arguments c_trace {S X} c.
Arguments c_acq {S X} c.
Arguments c_gens {S X} c.
Arguments ChStart {S} r.
Arguments ChAcq {S} i n.
Arguments ChLoad {S} i n.
Arguments ChStore {S} i n.
Arguments ChRel {S} i n.
Arguments ChAdv {S} i n.
Arguments ChResume {S} o m.
