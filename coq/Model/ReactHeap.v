(* Model/ReactHeap.v — the message history of the ReAct agent as the Go slice it is
   (flow/agent/react/react.go, the two state pre-handlers), over a heap of backing arrays.

     state generator   state.Messages = make([]*schema.Message, 0, config.MaxStep+1)
     modelPreHandle    state.Messages = append(state.Messages, input...)
                       no MessageModifier: the model is handed state.Messages ITSELF (the slice header:
                       same backing array as the state);
                       with one: modifiedInput := make(.., len(state.Messages)); copy(modifiedInput,
                       state.Messages); the modifier gets modifiedInput and may write into it
     toolsNodePreHandle state.Messages = append(state.Messages, input)

   Messages are pointers (numbers here).  A slice header is (backing array, length); its capacity is
   the length of the array (every slice of this code starts at offset 0).  [append] is Go's built-in:
   in place - into the shared backing array - while the capacity suffices, otherwise a new array of a
   capacity chosen by the growth policy [pol], which is left arbitrary (every Go version's growslice).

   Proofs/ReactHeap.v: whatever the policy, the step limit, the modifier and the sequence of
   pre-handler executions, (1) the state's history is exactly the messages appended so far, in order -
   nothing a modifier writes into its slice reaches it -, and (2) no slice handed to the model is
   ever modified afterwards: it reads in the final heap what it read when it was handed over. *)
From Coq Require Import List Arith NArith Bool.
Import ListNotations.

Definition heap := list (list N).
Record slice : Type := mkSlice { sl_arr : nat; sl_len : nat }.

Definition arr_of (h : heap) (s : slice) : list N := nth (sl_arr s) h [].
Definition read (h : heap) (s : slice) : list N := firstn (sl_len s) (arr_of h s).

Fixpoint set_arr (h : heap) (i : nat) (a : list N) : heap :=
  match h, i with
  | [], _ => []
  | _ :: h', O => a :: h'
  | x :: h', S i' => x :: set_arr h' i' a
  end.

(* growth policy: old capacity -> old length -> number of appended elements -> proposed capacity *)
Definition policy := nat -> nat -> nat -> nat.

Definition append (pol : policy) (h : heap) (s : slice) (xs : list N) : heap * slice :=
  let a := arr_of h s in
  let n := sl_len s + length xs in
  if n <=? length a then
    (set_arr h (sl_arr s) (firstn (sl_len s) a ++ xs ++ skipn n a), mkSlice (sl_arr s) n)
  else
    let c := Nat.max (pol (length a) (sl_len s) (length xs)) n in
    (h ++ [firstn (sl_len s) a ++ xs ++ repeat 0%N (c - n)], mkSlice (length h) n).

(* the executions of the two state pre-handlers during a run, in order *)
Inductive hop : Type :=
| HChat (input : list N)     (* modelPreHandle on the caller's messages / the tool messages of a round *)
| HTools (m : N).            (* toolsNodePreHandle on the assistant message *)

Record hstate : Type := mkH {
  h_heap : heap;
  h_msgs : slice;                        (* state.Messages *)
  h_handed : list (slice * list N) }.    (* every slice handed to the model, with what it read then *)

Section Run.
  Variable pol : policy.
  Variable modifier : option (list N -> list N).

  Definition hstep (st : hstate) (op : hop) : hstate :=
    match op with
    | HChat input =>
        let '(h1, s1) := append pol (h_heap st) (h_msgs st) input in
        match modifier with
        | None => mkH h1 s1 (h_handed st ++ [(s1, read h1 s1)])
        | Some f =>
            (* make + copy + the modifier (which may write into the copy it is given and return it, a
               prefix of it, or a slice of its own): the model is handed a slice of an array that was
               allocated here, holding whatever the modifier made of the history *)
            let edited := f (read h1 s1) in
            let c := mkSlice (length h1) (length edited) in
            mkH (h1 ++ [edited]) s1 (h_handed st ++ [(c, edited)])
        end
    | HTools m =>
        let '(h1, s1) := append pol (h_heap st) (h_msgs st) [m] in
        mkH h1 s1 (h_handed st)
    end.

  Definition hinit (max_step : nat) : hstate :=
    mkH [repeat 0%N (max_step + 1)] (mkSlice 0 0) [].

  Definition hrun (max_step : nat) (ops : list hop) : hstate := fold_left hstep ops (hinit max_step).
End Run.

Definition appended (ops : list hop) : list N :=
  flat_map (fun op => match op with HChat i => i | HTools m => [m] end) ops.

(* executable form of "no handed slice was modified" (evaluated by the correspondence check) *)
Fixpoint list_N_eqb (a b : list N) : bool :=
  match a, b with
  | [], [] => true
  | x :: a', y :: b' => N.eqb x y && list_N_eqb a' b'
  | _, _ => false
  end.
Definition handed_intact (st : hstate) : bool :=
  forallb (fun p => list_N_eqb (read (h_heap st) (fst p)) (snd p)) (h_handed st).
