(* Model/StreamSelTable.v — property C08: what Model/Stream.v assumes about schema/select.go,
   as tables that tools/go2v regenerates from the source on every run (Gen/StreamSelTable.v;
   Proofs/GenAgreeStream.v proves the two equal).

   Model/Stream.v treats a merged reader over k live sources as "receive from any one ready
   source among the chosen ones and report THAT source" ([RMul] in [recv_reader]), whatever k
   is.  In the code this is two mechanisms: reflect.Select for k > maxSelectNum and the
   hand-unrolled [receiveN] table for 1 <= k <= maxSelectNum.  The model's treatment is right
   for the table iff entry k has exactly k cases, case j receives from chosenList[j] and reports
   chosenList[j] ([receive_table] below is that diagonal table), and the two places that choose
   between the mechanisms fit together ([select_mechanisms_ok] below).  Definitions only. *)
From Eino Require Import Base.Util Model.Stream.
Local Open Scope string_scope.

Definition max_select_num : nat := maxSelectNum.

(* entry for arity k: cases (j, j) for j < k *)
Definition receive_row (k : nat) : list (nat * nat) := map (fun j => (j, j)) (seq 0 k).
Definition receive_table : list (list (nat * nat)) := map receive_row (seq 1 max_select_num).

(* newMultiStreamReader builds the reflect cases iff len(sts) > maxSelectNum; recv uses them iff
   len(chosenList) > maxSelectNum.  As functions of n = len(sts) (all sources of the merged reader)
   and k = len(chosenList) (the sources that have not ended yet), the way tools/go2v regenerates them
   (round 5) from whichever function of schema/stream.go holds the comparison (recv itself or a
   private helper it calls; `>` or the mirrored `<=` with the branches swapped): *)
Definition builds_reflect_cases (n k : nat) : bool := Nat.ltb max_select_num n.
Definition recv_uses_reflect (n k : nat) : bool := Nat.ltb max_select_num k.

(* What Model/Stream.v needs of them (it does not need the particular threshold): in every state a
   merged reader can be in (1 <= k <= n: the loop of recv runs while k > 0, and chosenList only
   shrinks), (a) reflect.Select is only run on select cases that newMultiStreamReader has built
   (on a nil case list it would block for ever), and (b) otherwise receiveN is only asked for an
   arity that its table has an entry for (beyond it: index out of range).  With the diagonal shape of
   the table (Proofs/GenAgreeStream.v, receive_table_diagonal) both mechanisms then are "receive
   from any ready source among the remaining ones and report that source" — the [RMul] case of
   [recv_reader]. *)
Definition select_mechanisms_ok (table : list (list (nat * nat))) (builds uses : nat -> nat -> bool) : Prop :=
  forall n k, 1 <= k <= n ->
    (uses n k = true -> builds n k = true) /\
    (uses n k = false -> k <= List.length table).
