(* Model/StreamSelTable.v — property C08: what Model/Stream.v assumes about schema/select.go,
   as tables that tools/go2v regenerates from the source on every run (Gen/StreamSelTable.v;
   Proofs/GenAgreeStream.v proves the two equal).

   Model/Stream.v treats a merged reader over k live sources as "receive from any one ready
   source among the chosen ones and report THAT source" ([RMul] in [recv_reader]), whatever k
   is.  In the code this is two mechanisms: reflect.Select for k > maxSelectNum and the
   hand-unrolled [receiveN] table for 1 <= k <= maxSelectNum.  The model's treatment is right
   for the table iff entry k has exactly k cases, case j receives from chosenList[j] and reports
   chosenList[j] ([receive_table] below is that diagonal table), and both places that choose
   between the mechanisms compare with the same operator.  Definitions only. *)
From Eino Require Import Base.Util Model.Stream.
Local Open Scope string_scope.

Definition max_select_num : nat := maxSelectNum.

(* entry for arity k: cases (j, j) for j < k *)
Definition receive_row (k : nat) : list (nat * nat) := map (fun j => (j, j)) (seq 0 k).
Definition receive_table : list (list (nat * nat)) := map receive_row (seq 1 max_select_num).

(* newMultiStreamReader builds the reflect cases iff len(sts) > maxSelectNum; recv uses them
   iff len(chosenList) > maxSelectNum *)
Definition select_threshold_ops : list string := [ "len(sts)>"; "len(msr.chosenList)>" ].
