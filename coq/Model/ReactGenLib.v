(* Model/ReactGenLib.v — the vocabulary of the Gallina text that tools/go2v (extractor "react",
   tools/go2v/c18_react.go) emits for flow/agent/react/react.go: what a Go value of that file is on
   the model's data, and what the few built-ins used there mean.  Definitions only; part of the
   trusted base of the translator tie (Proofs/GenAgreeReact.v proves the emitted functions equal to
   the definitions of Model/React.v / Model/ReactGraph.v / Model/ReactHeap.v).

     *schema.Message (a chunk read from the model's stream)   chunk      (Model/React.v)
         .Content  -> k_content      .ToolCalls -> k_frags
     *schema.Message (the assistant message at the tools node) msg
         .Content  -> m_content      .ToolCalls -> m_calls
     schema.ToolCall                                           call       (Model/Tools.v)
         .ID -> c_id   .Function.Name -> c_name   .Function.Arguments -> c_args
     *state (react.go:29)                                      gstate
     map[string]struct{} (ToolReturnDirectly)                  a pair: number of keys, membership test
     []*schema.Message as one frame of the tools node's stream list (option tmsg)   (nil slot = None)
     node keys                                                 gkey
     the graph construction calls                              gitem
   A field of one of these Go types that the model does not have is emitted as an application of
   the extra parameter [unk] (so that no agreement can be proved about a function consulting it). *)
From Eino Require Import Base.Util Model.Tools Model.Graph Model.React Model.ReactGraph Model.ReactHeap.
Local Open Scope string_scope.

(* ---- react's state struct --------------------------------------------------------------- *)
Record gstate : Type := mkG { g_messages : list msg; g_rd : bool; g_rd_index : nat }.

Definition gl_set_Messages (s : gstate) (v : list msg) : gstate := mkG v (g_rd s) (g_rd_index s).
Definition gl_set_ReturnDirectly (s : gstate) (v : bool) : gstate := mkG (g_messages s) v (g_rd_index s).
Definition gl_set_ReturnDirectlyToolCallIndex (s : gstate) (v : nat) : gstate := mkG (g_messages s) (g_rd s) v.

(* the model's state (Model/React.v: s_messages, s_rd : option nat) read off the struct *)
Definition gl_rd (s : gstate) : option nat := if g_rd s then Some (g_rd_index s) else None.

(* ---- built-ins --------------------------------------------------------------------------- *)
(* calling a func value that may be nil *)
Definition gl_call_fn {A B} (f : option (A -> B)) (x : A) : res B :=
  match f with Some g => Ok (g x) | None => Panic end.
Definition gl_is_none {A} (o : option A) : bool := match o with None => true | Some _ => false end.

(* s[i] on a slice: out of range panics; the continuation gets the element *)
Definition gl_index {A R} (l : list A) (i : nat) (panic : R) (k : A -> R) : R :=
  match nth_error l i with Some v => k v | None => panic end.

(* ---- the result of direct_return's per-frame converter ----------------------------------- *)
Inductive gconv : Type :=
| GVal (m : tmsg)       (* the frame yields this message *)
| GNoValue              (* schema.ErrNoValue: the frame is dropped *)
| GPanic.               (* index out of range *)

(* one frame of ToolsNode.Stream's merged stream: as many slots as calls, only the slot of the
   tool that produced the chunk set (Model/Tools.v [emitted] = that position and the content; the
   message carries the id of the call at that position) *)
Definition gl_frame (ids : list string) (e : emitted) : list (option tmsg) :=
  map (fun p => if Nat.eqb (fst p) (fst e) then Some (snd e, snd p) else None)
      (combine (seq 0 (List.length ids)) ids).

(* what the reader of direct_return's stream obtains: the converted frames, the dropped ones
   skipped, concatenated (content appended, the id of the first) - None when nothing is left *)
Fixpoint gl_collect (rs : list gconv) : res (option tmsg) :=
  match rs with
  | [] => Ok None
  | GPanic :: _ => Panic
  | GNoValue :: r => gl_collect r
  | GVal m :: r =>
      match gl_collect r with
      | Ok None => Ok (Some m)
      | Ok (Some m') => Ok (Some (fst m ++ fst m', snd m))
      | x => x
      end
  end.

(* ---- node keys and the graph construction calls ------------------------------------------- *)
Inductive gkey : Type := GStart | GEnd | GKey (s : string).

Definition gl_key (k : gkey) : key :=
  match k with
  | GStart => kSTART
  | GEnd => kEND
  | GKey s => if String.eqb s "chat" then kChat
              else if String.eqb s "tools" then kTools
              else if String.eqb s "direct_return" then kDirect
              else 99%N
  end.

Definition gkey_eqb (a b : gkey) : bool :=
  match a, b with
  | GStart, GStart => true
  | GEnd, GEnd => true
  | GKey x, GKey y => String.eqb x y
  | _, _ => false
  end.

Inductive gitem : Type :=
| GNode (k : gkey) (component : string) (pre_handler : string)   (* graph.Add<component>Node(k, .., WithStatePreHandler(pre_handler)) *)
| GEdge (a b : gkey)                                             (* graph.AddEdge(a, b) *)
| GBranch (from : gkey) (ends : list gkey) (decide : bool -> gkey).
                                                                 (* graph.AddBranch(from, NewStreamGraphBranch(cond, ends)); [decide] =
                                                                    the condition as a function of the one thing it consults *)

(* the engine model's node list of a graph built by these calls: START first, then the nodes in the
   order they were added; data successors and branches in the order of the calls; a branch's table is
   indexed by what its condition consults (0 = false, 1 = true), as in Model/ReactGraph.v *)
Definition gl_node_of (items : list gitem) (k : gkey) : node :=
  {| n_key := gl_key k; n_kind := KLambda; n_outkey := None;
     n_dsucc := flat_map (fun it => match it with
                                    | GEdge a b => if gkey_eqb a k then [gl_key b] else []
                                    | _ => []
                                    end) items;
     n_csucc := []; n_dmap := [];
     n_branches := flat_map (fun it => match it with
                                       | GBranch a ends decide =>
                                           if gkey_eqb a k
                                           then [ {| b_ends := map gl_key ends; b_nodata := false;
                                                     b_table := [[gl_key (decide false)]; [gl_key (decide true)]] |} ]
                                           else []
                                       | _ => []
                                       end) items |}.

Definition gl_build (items : list gitem) : list node :=
  map (gl_node_of items)
      (GStart :: flat_map (fun it => match it with GNode k _ _ => [k] | _ => [] end) items).

(* compose.WithNodeTriggerMode *)
Definition gl_trigger_mode (name : string) : option Graph.mode :=
  if String.eqb name "AnyPredecessor" then Some Pregel
  else if String.eqb name "AllPredecessor" then Some Dag
  else None.

(* ---- agent.ChatModelWithTools (flow/agent/utils.go) ---------------------------------------- *)
(* which model NewAgent ends up with: the ToolCallingModel (a copy that has the tools, WithTools) when
   one is given - the deprecated Model field is then neither bound nor called -, otherwise the
   deprecated Model after BindTools, whose failure makes NewAgent fail; no model: NewAgent fails *)
Inductive gmodel : Type := GUseToolCallingModel | GUseBoundModel | GBindError | GNoModelError.

Definition gl_choose_model (has_model has_tool_calling_model bind_ok : bool) : gmodel :=
  if has_tool_calling_model then GUseToolCallingModel
  else if has_model then (if bind_ok then GUseBoundModel else GBindError)
  else GNoModelError.

(* which component each node is, and which state pre-handler is attached to it (Model/ReactGraph.v: [exec_chat]
   runs modelPreHandle then the model, [exec_tools] toolsNodePreHandle then the tools node, [exec_direct] has none) *)
Definition gl_node_table (items : list gitem) : list (gkey * string * string) :=
  flat_map (fun it => match it with GNode k c p => [(k, c, p)] | _ => [] end) items.

Definition gl_react_node_table (rd_nonempty : bool) : list (gkey * string * string) :=
  [(GKey "chat", "ChatModel", "modelPreHandle"); (GKey "tools", "Tools", "toolsNodePreHandle")]
  ++ (if rd_nonempty then [(GKey "direct_return", "Lambda", "")] else []).

(* ---- the MessageModifier on the heap of Model/ReactHeap.v ----------------------------------- *)
(* calling the modifier on a slice: it may write anything into the backing array of the slice it is given
   and returns a slice of it - afterwards that array holds what the modifier made of what it read, and the
   result is the slice over it (Model/ReactHeap.v [hstep]: "an array … holding whatever the modifier made of
   the history") *)
Definition gl_heap_modify (f : list N -> list N) (h : heap) (x : slice) : heap * slice :=
  let edited := f (read h x) in
  (set_arr h (sl_arr x) edited, mkSlice (sl_arr x) (List.length edited)).
