(* Model/BuilderDagGenLib.v — property C20: the vocabulary of the translation of validateDAG and of the loops of
   graph.compile that build controlPredecessors (compose/graph.go) made by tools/go2v, extractor "c20dag" ->
   Gen/C20Dag.v.  Go maps are association lists in insertion order:
     m[k] = z                       [m_put]     (insert or overwrite)
     m[k]--  /  m[k] -= 1           [m_add k (-1)]  (a missing key counts as 0 and is inserted, as in Go)
     m[k]                           [m_get]     (0 when missing)
     cp[k] = append(cp[k], v) / cp[k] = []string{v} when missing     [mm_append]
     for hasChanged { hasChanged = false; … }                       [while_changed fuel]: the loop body returns the
                                     new map and the flag; [fuel] bounds the number of rounds (the agreement theorem
                                     is stated for the number of nodes + 1, which the loop never exceeds: every
                                     round but the last retires a node)
   Definitions only. *)
From Eino Require Import Base.Util Model.Builder.
Local Open Scope string_scope.
Local Open Scope list_scope.

Definition cmap : Type := list (string * Z).
Definition m_get (k : string) (m : cmap) : Z := zget k m.
Definition m_put (k : string) (z : Z) (m : cmap) : cmap := alist_set k z m.
Definition m_add (k : string) (d : Z) (m : cmap) : cmap := alist_set k (zget k m + d)%Z m.

Definition pmap : Type := list (string * list string).
Definition mm_append (k v : string) (m : pmap) : pmap :=
  match alist_get k m with
  | Some l => alist_set k (l ++ [v]) m
  | None => alist_set k [v] m
  end.

Fixpoint while_changed (fuel : nat) (round : cmap -> cmap * bool) (m : cmap) : cmap :=
  match fuel with
  | O => m
  | S f => let '(m', changed) := round m in if changed then while_changed f round m' else m'
  end.

(* chanSubscribeTo[node].controls / .writeToBranches[i].endNodes for the chanCall compile builds for a node *)
Definition controls_of (g : gstate) (node : string) : list string :=
  map snd (filter (fun p => String.eqb (fst p) node) (g_ctrl g)).
Definition branch_ends_of (g : gstate) (node : string) : list (list string) :=
  map (fun b => fst (snd b)) (filter (fun b => String.eqb (fst b) node) (g_branches g)).
