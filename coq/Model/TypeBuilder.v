(* Model/TypeBuilder.v — property C07: graph construction as a state machine
   (compose/graph.go: addNode, addEdgeWithMappings, addBranch, addToValidateMap,
   updateToValidateMap, compile) and the run-time typing of a compiled graph
   (compose/graph_run.go, graph_manager.go, runnable.go, branch.go, generic_helper.go).

   Only what the property talks about is kept: declared / inferred types, the pending
   list toValidateMap, the run-time converters installed on may-assignable edges and
   branches, the sticky build error, and at run time the dynamic type of every value.

   Nondeterminism.  Go iterates [g.toValidateMap] (a map) and [branch.endNodes] (a map)
   in arbitrary order.  Every function below that stands for such a loop takes an
   oracle giving a priority list of keys; [order_keys] turns it into an order of the
   actual keys.  All theorems quantify over every oracle.

   This is the code after the repairs F-C07a (addBranch infers the type of a
   passthrough start node only while it is unknown), F-C07c (updateToValidateMap reads
   the start node's type for every entry), F-C07b (assertType accepts nil for
   interface types) and F-C07d (addBranch propagates the type it inferred at once).  The old
   behaviours are kept as switches ([ow], [noprop] of [add_branch], [stale] of the
   update loop, [assert_type_v0]) used only by the *_refuted witnesses. *)
From Eino Require Import Base.Util Model.Types.

Definition key := N.
Definition kSTART : key := 0%N.
Definition kEND : key := 1%N.

(* a state pre/post handler: the state type it was declared with, its value type, and what
   it returns at run time ([None]: its argument unchanged; [Some d]: always the value d) *)
Record hspec : Type := { h_state : N; h_ty : ty; h_ret : option dyn }.

Record node : Type := {
  n_pass : bool;            (* ComponentOfPassthrough *)
  n_in : option ty;         (* cr.inputType  (nil = not yet inferred, passthrough only) *)
  n_out : option ty;        (* cr.outputType *)
  n_pre : option ty;        (* value type of the state pre handler *)
  n_post : option ty;       (* value type of the state post handler *)
  n_pre_ret : option dyn;   (* run time: what the pre handler returns *)
  n_post_ret : option dyn   (* run time: what the post handler returns *)
}.

Record branch : Type := {
  b_ty : ty;                (* branch.inputType *)
  b_ends : list key;        (* branch.endNodes *)
  b_choice : list key;      (* run time: what the condition returns (fixed per case) *)
  b_conv : list ty          (* handlerPreBranch[start][idx]: [] or [b_ty] *)
}.

Record gstate : Type := {
  g_in : ty;                          (* expectedInputType  *)
  g_out : ty;                         (* expectedOutputType *)
  g_st : option N;                    (* stateType (None: no state generator) *)
  g_nodes : list (key * node);
  g_data : list (key * key);          (* dataEdges, insertion order *)
  g_ctrl : list (key * key);          (* controlEdges *)
  g_branches : list (key * branch);   (* branches, insertion order *)
  g_tvm : list (key * key);           (* toValidateMap, flattened; per start node in insertion order *)
  g_hedge : list (key * key * ty);    (* handlerOnEdges: run-time converters *)
  g_has_start : bool;                 (* len(startNodes) > 0 *)
  g_has_end : bool;                   (* len(endNodes) > 0 *)
  g_err : bool;                       (* buildError != nil *)
  g_compiled : bool
}.

Definition init_graph (i o : ty) (s : option N) : gstate :=
  {| g_in := i; g_out := o; g_st := s; g_nodes := []; g_data := []; g_ctrl := [];
     g_branches := []; g_tvm := []; g_hedge := []; g_has_start := false; g_has_end := false;
     g_err := false; g_compiled := false |}.

(* ---- field updates *)
Definition set_nodes (st : gstate) (ns : list (key * node)) : gstate :=
  {| g_in := g_in st; g_out := g_out st; g_st := g_st st; g_nodes := ns; g_data := g_data st;
     g_ctrl := g_ctrl st; g_branches := g_branches st; g_tvm := g_tvm st; g_hedge := g_hedge st;
     g_has_start := g_has_start st; g_has_end := g_has_end st; g_err := g_err st;
     g_compiled := g_compiled st |}.
Definition set_tvm (st : gstate) (t : list (key * key)) : gstate :=
  {| g_in := g_in st; g_out := g_out st; g_st := g_st st; g_nodes := g_nodes st; g_data := g_data st;
     g_ctrl := g_ctrl st; g_branches := g_branches st; g_tvm := t; g_hedge := g_hedge st;
     g_has_start := g_has_start st; g_has_end := g_has_end st; g_err := g_err st;
     g_compiled := g_compiled st |}.
Definition set_hedge (st : gstate) (h : list (key * key * ty)) : gstate :=
  {| g_in := g_in st; g_out := g_out st; g_st := g_st st; g_nodes := g_nodes st; g_data := g_data st;
     g_ctrl := g_ctrl st; g_branches := g_branches st; g_tvm := g_tvm st; g_hedge := h;
     g_has_start := g_has_start st; g_has_end := g_has_end st; g_err := g_err st;
     g_compiled := g_compiled st |}.
Definition set_data (st : gstate) (d : list (key * key)) : gstate :=
  {| g_in := g_in st; g_out := g_out st; g_st := g_st st; g_nodes := g_nodes st; g_data := d;
     g_ctrl := g_ctrl st; g_branches := g_branches st; g_tvm := g_tvm st; g_hedge := g_hedge st;
     g_has_start := g_has_start st; g_has_end := g_has_end st; g_err := g_err st;
     g_compiled := g_compiled st |}.
Definition set_ctrl (st : gstate) (c : list (key * key)) : gstate :=
  {| g_in := g_in st; g_out := g_out st; g_st := g_st st; g_nodes := g_nodes st; g_data := g_data st;
     g_ctrl := c; g_branches := g_branches st; g_tvm := g_tvm st; g_hedge := g_hedge st;
     g_has_start := g_has_start st; g_has_end := g_has_end st; g_err := g_err st;
     g_compiled := g_compiled st |}.
Definition set_branches (st : gstate) (b : list (key * branch)) : gstate :=
  {| g_in := g_in st; g_out := g_out st; g_st := g_st st; g_nodes := g_nodes st; g_data := g_data st;
     g_ctrl := g_ctrl st; g_branches := b; g_tvm := g_tvm st; g_hedge := g_hedge st;
     g_has_start := g_has_start st; g_has_end := g_has_end st; g_err := g_err st;
     g_compiled := g_compiled st |}.
Definition mark_ends (st : gstate) (s e : key) : gstate :=
  {| g_in := g_in st; g_out := g_out st; g_st := g_st st; g_nodes := g_nodes st; g_data := g_data st;
     g_ctrl := g_ctrl st; g_branches := g_branches st; g_tvm := g_tvm st; g_hedge := g_hedge st;
     g_has_start := g_has_start st || N.eqb s kSTART; g_has_end := g_has_end st || N.eqb e kEND;
     g_err := g_err st; g_compiled := g_compiled st |}.
Definition set_err (st : gstate) : gstate :=
  {| g_in := g_in st; g_out := g_out st; g_st := g_st st; g_nodes := g_nodes st; g_data := g_data st;
     g_ctrl := g_ctrl st; g_branches := g_branches st; g_tvm := g_tvm st; g_hedge := g_hedge st;
     g_has_start := g_has_start st; g_has_end := g_has_end st; g_err := true;
     g_compiled := g_compiled st |}.
Definition set_compiled (st : gstate) : gstate :=
  {| g_in := g_in st; g_out := g_out st; g_st := g_st st; g_nodes := g_nodes st; g_data := g_data st;
     g_ctrl := g_ctrl st; g_branches := g_branches st; g_tvm := g_tvm st; g_hedge := g_hedge st;
     g_has_start := g_has_start st; g_has_end := g_has_end st; g_err := g_err st;
     g_compiled := true |}.

(* ---- lookups *)
Definition get_node (st : gstate) (k : key) : option node := nlist_get k (g_nodes st).
Definition has_node (st : gstate) (k : key) : bool :=
  match get_node st k with Some _ => true | None => false end.

(* getNodeInputType / getNodeOutputType *)
Definition in_ty (st : gstate) (k : key) : option ty :=
  if N.eqb k kSTART then Some (g_in st)
  else if N.eqb k kEND then Some (g_out st)
  else match get_node st k with Some n => n_in n | None => None end.
Definition out_ty (st : gstate) (k : key) : option ty :=
  if N.eqb k kSTART then Some (g_in st)
  else if N.eqb k kEND then Some (g_out st)
  else match get_node st k with Some n => n_out n | None => None end.

Definition pair_eqb (a b : key * key) : bool := N.eqb (fst a) (fst b) && N.eqb (snd a) (snd b).
Definition mem_pair (p : key * key) (l : list (key * key)) : bool := existsb (pair_eqb p) l.

(* cr.inputType = cr.outputType = t (the three inference sites assign both, and the
   generic helper with them) *)
Definition retype (t : ty) (n : node) : node :=
  {| n_pass := n_pass n; n_in := Some t; n_out := Some t; n_pre := n_pre n; n_post := n_post n;
     n_pre_ret := n_pre_ret n; n_post_ret := n_post_ret n |}.
Fixpoint map_node (k : key) (f : node -> node) (l : list (key * node)) : list (key * node) :=
  match l with
  | [] => []
  | (k', n) :: l' => if N.eqb k k' then (k', f n) :: l' else (k', n) :: map_node k f l'
  end.
Definition set_pass_ty (st : gstate) (k : key) (t : ty) : gstate :=
  set_nodes st (map_node k (retype t) (g_nodes st)).

(* ---- arbitrary iteration order of a Go map *)
Fixpoint dedupN (l : list N) : list N :=
  match l with
  | [] => []
  | x :: l' => if memN x l' then dedupN l' else x :: dedupN l'
  end.
(* the keys of [prio] (first occurrences... any fixed choice) that exist, then the rest *)
Definition order_keys (prio : list key) (ks : list key) : list key :=
  filter (fun k => memN k ks) (dedupN prio) ++ filter (fun k => negb (memN k prio)) ks.

Section Builder.
  Variable u : univ.

  (* one entry of toValidateMap, types read at this moment (repair F-C07c) *)
  Inductive presult : Type :=
  | PKeep                    (* both types unknown: stays pending *)
  | PDone (st : gstate)      (* removed from the pending list *)
  | PFail.                   (* mismatch: the Add* call fails *)

  Definition process_types (st : gstate) (s e : key) (a b : option ty) : presult :=
    match a, b with
    | None, None => PKeep
    | Some ta, None => PDone (set_pass_ty st e ta)
    | None, Some tb => PDone (set_pass_ty st s tb)
    | Some ta, Some tb =>
        match check_assignable u (Some ta) (Some tb) with
        | MustNot => PFail
        | May => PDone (set_hedge st (g_hedge st ++ [(s, e, tb)]))
        | Must => PDone st
        end
    end.

  Definition process_entry (st : gstate) (s e : key) : presult :=
    process_types st s e (out_ty st s) (in_ty st e).

  (* one iteration of the outer [for] of updateToValidateMap over the entries in the
     order [todo]; returns the new state, the entries still pending and hasChanged *)
  Fixpoint pass (st : gstate) (todo : list (key * key)) : option (gstate * list (key * key) * bool) :=
    match todo with
    | [] => Some (st, [], false)
    | (s, e) :: rest =>
        match process_entry st s e with
        | PKeep =>
            match pass st rest with
            | Some (st', kept, ch) => Some (st', (s, e) :: kept, ch)
            | None => None
            end
        | PDone st1 =>
            match pass st1 rest with
            | Some (st', kept, _) => Some (st', kept, true)
            | None => None
            end
        | PFail => None
        end
    end.

  (* the pending entries grouped by start node, groups in the order given by [prio],
     every group in insertion order *)
  Definition group_order (prio : list key) (tvm : list (key * key)) : list (key * key) :=
    flat_map (fun k => filter (fun p => N.eqb (fst p) k) tvm)
             (order_keys prio (dedupN (map fst tvm))).

  Inductive ures : Type :=
  | UOk (st : gstate)
  | UFail              (* type mismatch *)
  | UFuel.             (* the bound on the number of passes was too small (never happens, see
                          Proofs/TypesBuilder.v update_fuel_enough) *)

  Fixpoint update (fuel : nat) (orc : nat -> list key) (n : nat) (st : gstate) : ures :=
    match fuel with
    | O => UFuel
    | S f =>
        match pass st (group_order (orc n) (g_tvm st)) with
        | None => UFail
        | Some (st', kept, ch) =>
            let st'' := set_tvm st' kept in
            if ch then update f orc (S n) st'' else UOk st''
        end
    end.

  Definition update_tvm (orc : nat -> list key) (st : gstate) : ures :=
    update (S (List.length (g_tvm st))) orc 0 st.

  (* ---- pre-repair variant of the pass (F-C07c): the start node's type is read once per
     group and reused for all its entries *)
  Fixpoint pass_group_v0 (st : gstate) (s : key) (a0 : option ty) (es : list key)
    : option (gstate * list (key * key) * bool) :=
    match es with
    | [] => Some (st, [], false)
    | e :: rest =>
        match process_types st s e a0 (in_ty st e) with
        | PKeep =>
            match pass_group_v0 st s a0 rest with
            | Some (st', kept, ch) => Some (st', (s, e) :: kept, ch)
            | None => None
            end
        | PDone st1 =>
            match pass_group_v0 st1 s a0 rest with
            | Some (st', kept, _) => Some (st', kept, true)
            | None => None
            end
        | PFail => None
        end
    end.
  Fixpoint pass_v0 (st : gstate) (tvm : list (key * key)) (groups : list key)
    : option (gstate * list (key * key) * bool) :=
    match groups with
    | [] => Some (st, [], false)
    | s :: gs =>
        match pass_group_v0 st s (out_ty st s) (map snd (filter (fun p => N.eqb (fst p) s) tvm)) with
        | None => None
        | Some (st1, kept1, ch1) =>
            match pass_v0 st1 tvm gs with
            | None => None
            | Some (st2, kept2, ch2) => Some (st2, kept1 ++ kept2, ch1 || ch2)
            end
        end
    end.
  Fixpoint update_v0 (fuel : nat) (orc : nat -> list key) (n : nat) (st : gstate) : ures :=
    match fuel with
    | O => UFuel
    | S f =>
        match pass_v0 st (g_tvm st) (order_keys (orc n) (dedupN (map fst (g_tvm st)))) with
        | None => UFail
        | Some (st', kept, ch) =>
            let st'' := set_tvm st' kept in
            if ch then update_v0 f orc (S n) st'' else UOk st''
        end
    end.

  (* [stale = true] selects the pre-repair loop *)
  Definition update_sel (stale : bool) (orc : nat -> list key) (st : gstate) : ures :=
    if stale then update_v0 (S (List.length (g_tvm st))) orc 0 st else update_tvm orc st.

  (* ---------------------------------------------------------------- Add* calls.
     Result: the new state and whether the call returned nil.  After a sticky error only
     [g_err] matters (every later call and Compile return the build error), so the other
     fields are left as they were. *)

  Definition handler_ok (st : gstate) (declared : option ty) (h : option hspec) : bool :=
    match h with
    | None => true
    | Some hs =>
        match g_st st with
        | None => false                                    (* needState, no state generator *)
        | Some s =>
            N.eqb s (h_state hs) &&
            match declared with
            | None => ty_eqb (h_ty hs) TAny                (* passthrough: handler must be any *)
            | Some t => ty_eqb t (h_ty hs)
            end
        end
    end.

  Definition add_node (st : gstate) (k : key) (isp : bool) (i o : option ty)
             (pre post : option hspec) : gstate * bool :=
    if g_err st then (st, false)
    else if g_compiled st then (st, false)
    else if N.eqb k kSTART || N.eqb k kEND then (set_err st, false)
    else if has_node st k then (set_err st, false)
    else if negb (handler_ok st i pre) then (set_err st, false)
    else if negb (handler_ok st o post) then (set_err st, false)
    else
      let n := {| n_pass := isp; n_in := i; n_out := o;
                  n_pre := option_map h_ty pre; n_post := option_map h_ty post;
                  n_pre_ret := match pre with Some h => h_ret h | None => None end;
                  n_post_ret := match post with Some h => h_ret h | None => None end |} in
      (set_nodes st (g_nodes st ++ [(k, n)]), true).

  Definition add_edge (stale : bool) (orc : nat -> nat -> list key) (st : gstate) (s e : key) : gstate * bool :=
    if g_err st then (st, false)
    else if g_compiled st then (st, false)
    else if N.eqb s kEND then (set_err st, false)
    else if N.eqb e kSTART then (set_err st, false)
    else if negb (has_node st s) && negb (N.eqb s kSTART) then (set_err st, false)
    else if negb (has_node st e) && negb (N.eqb e kEND) then (set_err st, false)
    else if mem_pair (s, e) (g_ctrl st) then (set_err st, false)
    else
      let st1 := mark_ends (set_ctrl st (g_ctrl st ++ [(s, e)])) s e in
      if mem_pair (s, e) (g_data st1) then (set_err st, false)
      else
        match update_sel stale (orc 0%nat) (set_tvm st1 (g_tvm st1 ++ [(s, e)])) with
        | UOk st2 => (set_data st2 (g_data st2 ++ [(s, e)]), true)
        | _ => (set_err st, false)
        end.

  (* the loop over branch.endNodes *)
  Fixpoint branch_ends (stale : bool) (orc : nat -> nat -> list key) (j : nat) (st : gstate) (s : key)
           (ends : list key) : option gstate :=
    match ends with
    | [] => Some st
    | e :: rest =>
        if negb (has_node st e) && negb (N.eqb e kEND) then None
        else
          match update_sel stale (orc (S j)) (set_tvm st (g_tvm st ++ [(s, e)])) with
          | UOk st1 => branch_ends stale orc (S j) (mark_ends st1 s e) s rest
          | _ => None
          end
    end.

  Definition is_pass (st : gstate) (k : key) : bool :=
    match get_node st k with Some n => n_pass n | None => false end.

  (* AddBranch on a passthrough start node: the node takes the condition's type while its own
     type is unknown, and (repair F-C07d) the new type is propagated along the pending
     entries at once.
     [ow = true] is the pre-repair behaviour F-C07a: the type is overwritten even when
     already known; [noprop = true] the pre-repair behaviour F-C07d: no propagation here. *)
  Definition branch_pre (ow stale noprop : bool) (orc : nat -> list key) (st : gstate) (s : key) (t : ty) : ures :=
    if negb (N.eqb s kSTART) && is_pass st s &&
       (ow || match out_ty st s with None => true | Some _ => false end)
    then if noprop then UOk (set_pass_ty st s t)
         else update_sel stale orc (set_pass_ty st s t)
    else UOk st.

  Definition add_branch (ow stale noprop : bool) (orc : nat -> nat -> list key) (st : gstate) (s : key) (t : ty)
             (ends choice : list key) : gstate * bool :=
    if g_err st then (st, false)
    else if g_compiled st then (st, false)
    else if N.eqb s kEND then (set_err st, false)
    else if negb (has_node st s) && negb (N.eqb s kSTART) then (set_err st, false)
    else if Nat.eqb (List.length ends) 1 then (set_err st, false)
    else
      match branch_pre ow stale noprop (fun n => orc 0%nat (S n)) st s t with
      | UOk st1 =>
          match check_assignable u (out_ty st1 s) (Some t) with
          | MustNot => (set_err st, false)
          | r =>
              let conv := match r with May => [t] | _ => [] end in
              match branch_ends stale orc 0 st1 s (order_keys (orc 0%nat 0%nat) ends) with
              | None => (set_err st, false)
              | Some st2 =>
                  let b := {| b_ty := t; b_ends := ends; b_choice := choice; b_conv := conv |} in
                  (set_branches st2 (g_branches st2 ++ [(s, b)]), true)
              end
          end
      | _ => (set_err st, false)
      end.

  Definition compile (st : gstate) : gstate * bool :=
    if g_err st then (st, false)
    else if negb (g_has_start st) then (st, false)
    else if negb (g_has_end st) then (st, false)
    else match g_tvm st with
         | [] =>
             (* a passthrough node that was never connected still has no type: Compile does not
                succeed (today: nil dereference in compile, reported to property C20) *)
             if existsb (fun p => match n_in (snd p) with None => true | Some _ => false end) (g_nodes st)
             then (st, false)
             else (set_compiled st, true)
         | _ :: _ => (st, false)
         end.

  Inductive op : Type :=
  | OpNode (k : key) (i o : ty) (pre post : option hspec)     (* AddLambdaNode *)
  | OpPass (k : key) (pre post : option hspec)                (* AddPassthroughNode *)
  | OpEdge (s e : key)                                        (* AddEdge *)
  | OpBranch (s : key) (t : ty) (ends choice : list key)      (* AddBranch(NewGraphMultiBranch) *)
  | OpCompile.

  (* switches: (ow, stale, noprop); the current code is (false, false, false) *)
  Definition step_sel (ow stale noprop : bool) (orc : nat -> nat -> list key) (st : gstate) (o : op) : gstate * bool :=
    match o with
    | OpNode k i ot pre post => add_node st k false (Some i) (Some ot) pre post
    | OpPass k pre post => add_node st k true None None pre post
    | OpEdge s e => add_edge stale orc st s e
    | OpBranch s t ends choice => add_branch ow stale noprop orc st s t ends choice
    | OpCompile => compile st
    end.
  Definition step := step_sel false false false.

  (* a whole construction sequence; [orcs i] resolves the nondeterminism of call i *)
  Fixpoint run_ops_sel (ow stale noprop : bool) (orcs : nat -> nat -> nat -> list key) (i : nat) (st : gstate)
           (ops : list op) : gstate * list bool :=
    match ops with
    | [] => (st, [])
    | o :: rest =>
        let '(st1, ok) := step_sel ow stale noprop (orcs i) st o in
        let '(st2, oks) := run_ops_sel ow stale noprop orcs (S i) st1 rest in
        (st2, ok :: oks)
    end.
  Definition run_ops := run_ops_sel false false false.

  (* ================================================================== run time *)

  Inductive outcome : Type :=
  | ROk (d : dyn)     (* Invoke returned a value of this dynamic type *)
  | RTypeErr          (* ordinary error of a run-time converter ("runtime type check fail") *)
  | RPanicRec         (* failing assertion at a node entry: panic recovered into a node error *)
  | RPanicEsc         (* failing assertion in a branch condition / state handler / final output: panic escapes *)
  | ROther            (* any other ordinary error: step limit, no tasks, bad branch result *)
  | RMerge.           (* two values reached one node in the same superstep (fan-in merge): not predicted here *)

  Section Run.
    (* the assertion function: [assert_type u] for the current code *)
    Variable asrt : dyn -> ty -> bool.
    (* what a lambda with an interface output type returns in this run *)
    Variable emit : list (key * dyn).

    Definition emit_of (st : gstate) (k : key) : dyn :=
      match out_ty st k with
      | Some (TConc c) => DVal c
      | _ => match nlist_get k emit with Some d => d | None => DNil end
      end.

    Definition conv_all (d : dyn) (cs : list ty) : bool := forallb (asrt d) cs.

    Definition branches_of (st : gstate) (s : key) : list branch :=
      map snd (filter (fun p => N.eqb (fst p) s) (g_branches st)).
    Definition succ_of (st : gstate) (s : key) : list key :=
      map snd (filter (fun p => N.eqb (fst p) s) (g_data st)).
    Definition hedge_of (st : gstate) (s e : key) : list ty :=
      map snd (filter (fun p => pair_eqb (fst p) (s, e)) (g_hedge st)).

    (* calculateBranch for one completed task *)
    Fixpoint eval_branches (d : dyn) (bs : list branch) : outcome + list key :=
      match bs with
      | [] => inr []
      | b :: r =>
          if negb (conv_all d (b_conv b)) then inl RTypeErr
          else if negb (asrt d (b_ty b)) then inl RPanicEsc
          else if negb (subsetN (b_choice b) (b_ends b)) then inl ROther
          else match eval_branches d r with
               | inr ts => inr (b_choice b ++ ts)
               | inl o => inl o
               end
      end.

    (* resolveCompletedTasks: (to, from, value) for every completed task *)
    Fixpoint resolve (st : gstate) (done : list (key * dyn)) : outcome + list (key * key * dyn) :=
      match done with
      | [] => inr []
      | (s, d) :: rest =>
          match eval_branches d (branches_of st s) with
          | inl o => inl o
          | inr ts =>
              match resolve st rest with
              | inl o => inl o
              | inr ws => inr (map (fun t => (t, s, d)) (ts ++ succ_of st s) ++ ws)
              end
          end
      end.

    (* updateValues: the converters on every written edge *)
    Definition edges_ok (st : gstate) (ws : list (key * key * dyn)) : bool :=
      forallb (fun w => match w with (t, s, d) => conv_all d (hedge_of st s t) end) ws.

    (* writeChannelValues[to][from]: one value per (to, from) *)
    Definition froms (t : key) (ws : list (key * key * dyn)) : list key :=
      dedupN (map (fun w => snd (fst w)) (filter (fun w => N.eqb (fst (fst w)) t) ws)).
    Definition value_for (t : key) (ws : list (key * key * dyn)) : dyn :=
      match filter (fun w => N.eqb (fst (fst w)) t) ws with
      | w :: _ => snd w
      | [] => DNil
      end.
    Definition targets (ws : list (key * key * dyn)) : list key := dedupN (map (fun w => fst (fst w)) ws).
    Definition fan_in (ws : list (key * key * dyn)) : bool :=
      existsb (fun t => Nat.ltb 1 (List.length (froms t ws))) (targets ws).

    (* taskManager.submit / wait for the tasks of one superstep:
       1. the state pre handler of every task runs on the caller's goroutine, one task after the
          other: its entry assertion (failure: the panic escapes), the handler itself, and for a
          passthrough node (whose handlers are declared for any) the conversion of the result back
          to the node's inferred type (failure: ordinary run-time type error, repair F-C07f);
       2. every node runs under recover (assertion failure at the node entry: node error);
       3. waitAll runs the post handler of every task that has no error, again on the
          caller's goroutine (assertion failure escapes; conversion failure: node error) --
          before any node error is looked at;
       4. then the first node error ends the run. *)
    Inductive hres : Type :=
    | HVal (d : dyn)      (* the value handed on *)
    | HPanic              (* the handler's entry assertion failed *)
    | HErr.               (* the result is not of the passthrough node's type *)
    Definition run_handler (hty : option ty) (ret : option dyn) (conv : option ty) (d : dyn) : hres :=
      match hty with
      | None => HVal d
      | Some t0 =>
          if negb (asrt d t0) then HPanic
          else let d1 := match ret with Some r => r | None => d end in
               match conv with
               | Some tc => if asrt d1 tc then HVal d1 else HErr
               | None => HVal d1
               end
      end.
    Definition pre_res (st : gstate) (t : key * dyn) : hres :=
      match get_node st (fst t) with
      | None => HVal (snd t)
      | Some n => run_handler (n_pre n) (n_pre_ret n) (if n_pass n then n_in n else None) (snd t)
      end.
    (* the pre handlers of all tasks, in order; the first failure ends the run *)
    Fixpoint pre_all (st : gstate) (tasks : list (key * dyn)) : outcome + list (key * dyn) :=
      match tasks with
      | [] => inr []
      | t :: rest =>
          match pre_res st t with
          | HPanic => inl RPanicEsc
          | HErr => inl RTypeErr
          | HVal d =>
              match pre_all st rest with
              | inl o => inl o
              | inr l => inr ((fst t, d) :: l)
              end
          end
      end.
    (* None: the node entry assertion failed *)
    Definition node_out (st : gstate) (t : key * dyn) : option dyn :=
      match get_node st (fst t) with
      | None => None
      | Some n =>
          if n_pass n then Some (snd t)
          else match n_in n with
               | Some ty0 => if asrt (snd t) ty0 then Some (emit_of st (fst t)) else None
               | None => None
               end
      end.
    (* what one task ends with *)
    Inductive tres : Type :=
    | TVal (d : dyn)
    | TNodePanic          (* recovered panic of the node entry assertion *)
    | TTypeErr.           (* post handler result not of the passthrough node's type *)
    (* None: the post handler's entry assertion failed (the panic escapes) *)
    Definition post_res (st : gstate) (k : key) (o : option dyn) : option tres :=
      match o with
      | None => Some TNodePanic
      | Some d =>
          match get_node st k with
          | None => Some (TVal d)
          | Some n =>
              match run_handler (n_post n) (n_post_ret n) (if n_pass n then n_out n else None) d with
              | HVal d1 => Some (TVal d1)
              | HPanic => None
              | HErr => Some TTypeErr
              end
          end
      end.
    Fixpoint collect_outs (tasks : list (key * dyn)) (outs : list (option tres)) : outcome + list (key * dyn) :=
      match tasks, outs with
      | (k, _) :: ts, Some (TVal d) :: os =>
          match collect_outs ts os with inr l => inr ((k, d) :: l) | inl o => inl o end
      | _ :: _, Some TNodePanic :: _ => inl RPanicRec
      | _ :: _, Some TTypeErr :: _ => inl RTypeErr
      | [], [] => inr []
      | _, _ => inl ROther
      end.
    Definition exec_all (st : gstate) (tasks : list (key * dyn)) : outcome + list (key * dyn) :=
      if negb (forallb (fun t => has_node st (fst t)) tasks) then inl ROther   (* createTasks: node has not been registered *)
      else match pre_all st tasks with
           | inl o => inl o
           | inr tasks1 =>
               let posts := map (fun t => post_res st (fst t) (node_out st t)) tasks1 in
               if negb (forallb (fun r => match r with Some _ => true | None => false end) posts) then inl RPanicEsc
               else collect_outs tasks1 posts
           end.

    (* calculateNextTasks after the tasks [done] completed: either the run ends or the
       next tasks *)
    Definition next (st : gstate) (done : list (key * dyn)) : outcome + list (key * dyn) :=
      match resolve st done with
      | inl o => inl o
      | inr ws =>
          if negb (edges_ok st ws) then inl RTypeErr
          else if fan_in ws then inl RMerge
          else if memN kEND (targets ws) then
            (* END reached (reported separately from the value since ff3e750: nil is a legal result of
               an interface-typed graph); toGenericRunnable: assertType[O], else the plain out.(O) panics *)
            let d := value_for kEND ws in
            if assert_type u d (g_out st) then inl (ROk d) else inl RPanicEsc
          else inr (map (fun t => (t, value_for t ws)) (targets ws))
      end.

    (* the superstep loop: [steps] = maxRunSteps *)
    Fixpoint loop (st : gstate) (steps : nat) (tasks : list (key * dyn)) : outcome :=
      match steps with
      | O => ROther                               (* ErrExceedMaxSteps *)
      | S n =>
          match tasks with
          | [] => ROther                          (* no tasks to execute *)
          | _ =>
              match exec_all st tasks with
              | inl o => o
              | inr done =>
                  match next st done with
                  | inl o => o
                  | inr tasks' => loop st n tasks'
                  end
              end
          end
      end.

    Definition max_steps (st : gstate) : nat := (List.length (g_nodes st) + 10)%nat.

    (* Invoke(input) on the compiled graph *)
    Definition run (st : gstate) (input : dyn) : outcome :=
      match next st [(kSTART, input)] with
      | inl o => o
      | inr tasks => loop st (max_steps st) tasks
      end.
  End Run.
End Builder.
