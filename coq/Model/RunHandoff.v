(* Model/RunHandoff.v — property C03: the two models composed into one transition system.

   A state is a pair (protocol state of Model/TaskMgr.v, run-loop state): the executors and the
   collector move as in the hand-off LTS, and the run loop of compose/graph_run.go (runner.run
   :270-390 without interrupts) is the component that decides when tasks are submitted, when the
   collector starts waiting and what is done with what it hands back (Model/Confluence.v):

     submit (graph_manager.go:302-331): the tasks computed by calculateNextTasks are handed to the
       task manager one by one, each on a goroutine of its own or synchronously on the run loop's
       (the code executes tasks[0] synchronously, after the others were spawned, if nothing is
       outstanding and there is one task or the manager is in needAll mode; which task comes first in
       that slice is Go map iteration order; nothing the property states depends on the choice, so the
       composed system allows any task to be handed over in either way, in any order);
     wait: needAll (Graph: batch) = waitOne until nothing is outstanding, then the whole step is
       resolved in the order the tasks were collected; otherwise (Workflow: eager) one waitOne,
       the collected task is resolved at once; no task outstanding = "no tasks to execute";
     a collected task that failed ends the run; END ready ends the run; in eager mode the tasks
       that are still running then stay behind in the task manager.

   Every interleaving of executors, collector and run loop is a path of [cstep]; the executable
   replay [conf_run] (used by Corr/C03.v on every recorded trace) follows one such path and fails
   when the recorded events are not what the run loop of the model does next.
   Definitions only; proofs in Proofs/RunHandoff*.v. *)
From Eino Require Import Base.Util Model.TaskMgr Model.Confluence.

(* how the body of a node ends: behaviour 3 = the body succeeds and the node's post-processor (state
   post-handler, run by waitOne after the hand-off) fails - the task goes through the protocol as a
   success and is a failed task for the run loop ([failed]) *)
Definition bres_of (n : node) : bres :=
  match n_fail n with 0%N | 3%N => BOk | 1%N => BErr | _ => BPanic end.
Definition flag_of (x : node * val) : bool := err_of (bres_of (fst x)).
Definition bres_eqb (a b : bres) : bool :=
  match a, b with BOk, BOk | BErr, BErr | BPanic, BPanic => true | _, _ => false end.

Definition tid (t : node * val) : nid := n_id (fst t).

Inductive phase := PWait | PGot.

Record rl := mkrl {
  r_ch : cstate;                          (* the channels *)
  r_exp : list (node * val);              (* tasks still to be handed to the task manager *)
  r_run : list (node * val);              (* tasks created and not yet resolved *)
  r_col : list entry;                     (* the collected entries that have been resolved *)
  r_log : exec_log;                       (* every execution created so far *)
  r_fuel : nat;                           (* steps left (batch mode: maxRunSteps) *)
  r_ph : phase;                           (* PGot = inside the single waitOne of an eager iteration *)
  r_res : option outcome;                 (* Some = the run has returned *)
}.

Definition set_exp (r : rl) q := mkrl (r_ch r) q (r_run r) (r_col r) (r_log r) (r_fuel r) (r_ph r) (r_res r).
Definition set_ph (r : rl) p := mkrl (r_ch r) (r_exp r) (r_run r) (r_col r) (r_log r) (r_fuel r) p (r_res r).
Definition set_res (r : rl) o := mkrl (r_ch r) (r_exp r) (r_run r) (r_col r) (r_log r) (r_fuel r) (r_ph r) (Some o).

(* the next iteration of the run loop: [rest] = the tasks that stay in flight (eager mode).
   submit (graph_manager.go:306-317) first runs the state pre-handlers of all new tasks: when one of
   them fails ([prefail], behaviour 4) it returns that node's error before any of the new tasks is
   handed over - the run returns, nothing of the step is started or logged, [rest] stays in flight *)
Definition enter (needAll : bool) (n : nat) (ch : cstate) (rest ts : list (node * val))
           (col : list entry) (log : exec_log) (fuel : nat) : rl :=
  if needAll then
    match fuel with
    | O => mkrl ch [] [] col log O PWait (Some OFuel)
    | S f => if existsb prefail ts then mkrl ch [] [] col log f PWait (Some OFail)
             else mkrl ch ts ts col (log ++ log_of ts) f PWait None
    end
  else if existsb prefail ts then mkrl ch [] rest col log fuel PWait (Some OFail)
       else mkrl ch ts (rest ++ ts) col (log ++ log_of ts) fuel PWait None.

Definition rl_init (needAll : bool) (m : mode) (g : graph) (fuel : nat) : rl :=
  match start_next m g with
  | NReturn v => mkrl cinit [] [] [] [] fuel PWait (Some (ODone v))
  | NTasks ts ch => enter needAll 0 ch [] ts [] [] fuel
  end.

(* the task manager's side of one hand-over *)
Definition submit1 (sy : bool) (t : node * val) (s : st) : st :=
  mk (l s) (done s) (lock s) (epcs s ++ [(tid t, (ERun, bres_of (fst t)))])
     (if sy then CSync (tid t) else CIdle) (S (num s)) (collected s).
Definition await_st (s : st) (n : nat) : st :=
  mk (l s) (done s) (lock s) (epcs s) CWait n (collected s).

(* find a task by its node key; the others in their order *)
Fixpoint split_task (t : nid) (run : list (node * val)) : option ((node * val) * list (node * val)) :=
  match run with
  | [] => None
  | x :: run' =>
      if N.eqb t (tid x) then Some (x, run')
      else match split_task t run' with
           | Some (y, rest) => Some (y, x :: rest)
           | None => None
           end
  end.

Fixpoint lookup_all (es : list entry) (run : list (node * val)) : option (list (node * val)) :=
  match es with
  | [] => Some []
  | (t, e) :: es' =>
      match split_task t run, lookup_all es' run with
      | Some (x, _), Some xs => if Bool.eqb e (flag_of x) then Some (x :: xs) else None
      | _, _ => None
      end
  end.

(* what the collector has handed back since the last resolve, oldest first *)
Definition new_col (s : st) (r : rl) : list entry :=
  rev (firstn (List.length (collected s) - List.length (r_col r)) (collected s)).

(* batch mode: waitAll has returned (nothing outstanding): the step is resolved in collection order *)
Definition resolve_batch (m : mode) (g : graph) (s : st) (r : rl) : option rl :=
  match lookup_all (new_col s r) (r_run r) with
  | None => None
  | Some cts =>
      if negb (Nat.eqb (List.length cts) (List.length (r_run r))) then None else
      let fin o := mkrl (r_ch r) [] [] (collected s) (r_log r) (r_fuel r) PWait (Some o) in
      if existsb failed cts then Some (fin OFail) else
      match cts with
      | [] => Some (fin OFail)                         (* "no tasks to execute" *)
      | _ =>
          match calc_next m g (r_ch r) (map run_task cts) with
          | NReturn v => Some (fin (ODone v))
          | NTasks ts ch' => Some (enter true (num s) ch' [] ts (collected s) (r_log r) (r_fuel r))
          end
      end
  end.

(* eager mode: the one task waitOne has just handed back is resolved *)
Definition resolve_eager (g : graph) (s : st) (r : rl) : option rl :=
  match new_col s r with
  | [(t, e)] =>
      match split_task t (r_run r) with
      | None => None
      | Some (x, rest) =>
          if negb (Bool.eqb e (flag_of x)) then None else
          let fin o := mkrl (r_ch r) [] rest (collected s) (r_log r) (r_fuel r) PWait (Some o) in
          if failed x then Some (fin OFail) else
          match calc_next Dag g (r_ch r) [run_task x] with
          | NReturn v => Some (fin (ODone v))
          | NTasks ts ch' => Some (enter false (num s) ch' rest ts (collected s) (r_log r) (r_fuel r))
          end
      end
  | _ => None
  end.

(* ---- the composed transition system: every interleaving of executors, collector and run loop ---- *)
Inductive cstep (needAll : bool) (m : mode) (g : graph) : st * rl -> st * rl -> Prop :=
| c_proto s s' r :                       (* an executor or the collector moves *)
    step s s' -> num s' = num s -> cstep needAll m g (s, r) (s', r)
| c_sub s r sy t q :                     (* the run loop hands one of the new tasks to the task manager *)
    r_res r = None -> split_task (tid t) (r_exp r) = Some (t, q) -> cp s = CIdle ->
    get_pc (tid t) (epcs s) = None ->
    cstep needAll m g (s, r) (submit1 sy t s, set_exp r q)
| c_await s r n :                        (* the run loop starts a waitOne *)
    r_res r = None -> r_exp r = [] -> r_ph r = PWait -> cp s = CIdle -> num s = S n ->
    cstep needAll m g (s, r) (await_st s n, set_ph r (if needAll then PWait else PGot))
| c_none s r :                           (* eager mode: nothing is outstanding *)
    needAll = false -> r_res r = None -> r_exp r = [] -> r_ph r = PWait -> cp s = CIdle -> num s = O ->
    cstep needAll m g (s, r) (s, set_res r OFail)
| c_resolve_b s r r' :                   (* batch mode: waitAll has returned *)
    needAll = true -> r_res r = None -> r_exp r = [] -> r_ph r = PWait -> cp s = CIdle -> num s = O ->
    resolve_batch m g s r = Some r' ->
    cstep needAll m g (s, r) (s, r')
| c_resolve_e s r r' :                   (* eager mode: waitOne has returned *)
    needAll = false -> r_res r = None -> r_ph r = PGot -> cp s = CIdle ->
    resolve_eager g s r = Some r' ->
    cstep needAll m g (s, r) (s, r').

Inductive creach (needAll : bool) (m : mode) (g : graph) (fuel : nat) : st * rl -> Prop :=
| cr_init : creach needAll m g fuel (init, rl_init needAll m g fuel)
| cr_step x y : creach needAll m g fuel x -> cstep needAll m g x y -> creach needAll m g fuel y.

(* ---- executable replay of a recorded trace on the composed system ---- *)
Definition is_none_o {A} (o : option A) : bool := match o with None => true | Some _ => false end.
Definition ph_wait (p : phase) : bool := match p with PWait => true | PGot => false end.

Definition conf_ev (needAll : bool) (m : mode) (g : graph)
           (x : (st * option entry) * rl) (e : ev) : option ((st * option entry) * rl) :=
  let '(sp, r) := x in
  match e with
  | EvSpawn t b | EvSync t b =>
      match split_task t (r_exp r), r_res r with
      | Some (nt, q), None =>
          if bres_eqb b (bres_of (fst nt))
          then match exec_ev2 sp e with Some sp' => Some (sp', set_exp r q) | None => None end
          else None
      | _, _ => None
      end
  | EvAwait =>
      if is_none_o (r_res r) && is_nil (r_exp r) && ph_wait (r_ph r)
      then match exec_ev2 sp e with
           | Some sp' => Some (sp', set_ph r (if needAll then PWait else PGot))
           | None => None
           end
      else None
  | EvEmpty =>
      if is_none_o (r_res r) && is_nil (r_exp r) && ph_wait (r_ph r)
      then match exec_ev2 sp e with
           | Some sp' =>
               if needAll
               then match resolve_batch m g (fst sp') r with Some r' => Some (sp', r') | None => None end
               else Some (sp', set_res r OFail)
           | None => None
           end
      else None
  | EvUnlockC =>
      match exec_ev2 sp e with
      | Some sp' =>
          if needAll then Some (sp', r)
          else if is_none_o (r_res r) && negb (ph_wait (r_ph r))
               then match resolve_eager g (fst sp') r with Some r' => Some (sp', r') | None => None end
               else None
      | None => None
      end
  | _ => match exec_ev2 sp e with Some sp' => Some (sp', r) | None => None end
  end.

Fixpoint conf_trace (needAll : bool) (m : mode) (g : graph) (x : (st * option entry) * rl) (tr : list ev)
  : option ((st * option entry) * rl) :=
  match tr with
  | [] => Some x
  | e :: tr' => match conf_ev needAll m g x e with Some x' => conf_trace needAll m g x' tr' | None => None end
  end.

(* the verdict on one recorded trace: the final protocol state and what the run loop of the model
   returned, logged and left in flight; None = the trace is not a path of the composed system *)
Definition conf_run (needAll : bool) (m : mode) (g : graph) (fuel : nat) (tr : list ev)
  : option (st * (option outcome * exec_log * list nid)) :=
  match conf_trace needAll m g ((init, None), rl_init needAll m g fuel) (normalize tr) with
  | Some ((s, None), r) => Some (s, (r_res r, r_log r, ids_of (r_run r)))
  | _ => None
  end.
