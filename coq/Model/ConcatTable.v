(* Model/ConcatTable.v — the registry of chunk-concatenation functions as the model
   assumes it (internal/concat.go: concatFuncs; schema/message.go: init).  The same two
   tables are regenerated from the Go sources on every run (tools/go2v -> Gen/ConcatTable.v)
   and Proofs/GenAgreeConcat.v proves the two copies equal by reflexivity. *)
From Eino Require Import Base.Util.

Inductive cfun : Type :=
| FConcatStrings      (* concatStrings: join in arrival order *)
| FUseLast            (* useLast[T]: the last chunk *)
| FUseFirst.          (* not used by the code today; recognised by the extractor so that such a change is a *different* table *)

(* Go type name -> registered function, sorted by name *)
Definition table : list (string * cfun) :=
  [ ("bool"%string, FUseLast);
    ("float32"%string, FUseLast);
    ("float64"%string, FUseLast);
    ("int"%string, FUseLast);
    ("int16"%string, FUseLast);
    ("int32"%string, FUseLast);
    ("int64"%string, FUseLast);
    ("int8"%string, FUseLast);
    ("string"%string, FConcatStrings);
    ("time.Duration"%string, FUseLast);
    ("time.Time"%string, FUseLast);
    ("uint"%string, FUseLast);
    ("uint16"%string, FUseLast);
    ("uint32"%string, FUseLast);
    ("uint64"%string, FUseLast);
    ("uint8"%string, FUseLast) ].

(* chunk type -> function registered by package schema at init (Model/ConcatMsg.v models both) *)
Definition schema_registrations : list (string * string) :=
  [ ("*Message"%string, "ConcatMessages"%string);
    ("[]*Message"%string, "concatMessageArray"%string) ].
