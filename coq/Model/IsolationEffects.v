(* Model/IsolationEffects.v — property C09: the write effects of the run path on anything that
   outlives a run, as tools/go2v (extractor "c09effects") reads them off the source on every check,
   the review of every one of them, and an abstract machine that gives the table a meaning.

   The theorems of C09 about the engine hold for a system in which the compiled record is a
   parameter of the step function.  That the Go code has this structure is hypothesis H of
   props/C09.json ("a run writes nothing that any run reads except its own per-run state"): H1 of
   runs_non_interfering_general.  It is sampled by the correspondence check, and — since round 4 —
   read off the source syntactically: the extractor lists, for every function of package compose
   reachable from runner.run, for every closure that takes a context (node functions, handlers,
   converters: built once, run per call) of compose, flow/agent/react, flow/agent/multiagent/host,
   for flow/agent's option helpers and internal/callbacks' manager (since round 5 also the methods of
   the checkPointer: the checkpoint STORE is the caller's and is reached through an interface, but
   the checkPointer itself is part of the compiled record),

     assign / incdec / delete / copy / send / append   a store through (an append onto) an expression
                 whose root is not a local or per-run object: the receiver or a parameter of a
                 record type, a parameter of slice / map / pointer type (it may alias anything), a
                 variable of the constructor captured by the closure, what a context carries, a
                 package-level variable — or a local bound to one of these, or a field of a per-run
                 object that refers to one (task.call, channelManager.successors, manager.handlers);
     (calls)     a function or method of the package that stores into the container of one of its own
                 parameters (a slot of the slice / map, the variable behind the pointer, the backing
                 array) is followed BY PROVENANCE (round 5), as if its body stood at the call site: the
                 store is the caller's, into whatever it hands over there — nothing when that is an
                 object the caller allocated itself or a per-run object, an effect of the caller when
                 it refers to shared data, summarised in turn when it is the caller's own parameter;
                 the first result of a function that returns (part of) a parameter's object / its
                 receiver's / a package-level variable's refers to what the caller handed over.  So a
                 loop body extracted into a private helper, or inlined again, leaves the table as it
                 is.  Functions whose callers are not all known (entry points, exported functions,
                 functions used as values) and stores THROUGH an element of a parameter are reported
                 at the function itself, by the parameter's type;
     call:<name> (round 5) a store that is not written as an assignment: a call of a function of another
                 package that writes into what its first argument refers to (sort.Strings, sort.Slice,
                 atomic.AddInt32 …) or of a method of a type of another package that modifies its
                 receiver (sync.Map.Store / LoadOrStore / Delete, sync.Pool.Put, sync.Once.Do,
                 bytes.Buffer.Write / Reset, list.PushBack …) on such a root — a memo in a sync.Map of
                 the runner, a buffer kept in the checkPointer, an edge list sorted in place;
     link        a per-run object one of whose fields is made to refer to shared data;
     pkgvar      any mention of a package-level variable other than an error value made by errors.New /
                 fmt.Errorf (sentinels: compared with errors.Is, never written);

   and where the fields of the two per-run managers come from.  Everything the extractor finds on
   the unchanged tree is reviewed below ([reviewed_effects]); Proofs/GenAgreeC09.v proves that what it
   finds on the tree under check IS this table — so an edit that adds a store into shared data, an
   append onto a shared slice, a pool, a lazily filled cache or a package-level variable on the run
   path breaks a proof obligation even when no generated case reaches the edit.

   Limits (trusted base): syntactic, no type checker; aliasing is followed through local bindings,
   range variables, link fields (by field name) and context values only, not through function
   values, interfaces or calls into other packages (the result of a call of a function of the
   package is what the function's return statements say, by provenance; any other call's result
   counts as fresh unless the callee is a method of a package-level variable).  Definitions only. *)
From Eino Require Import Base.Util Model.Isolation.
Local Open Scope string_scope.

(* where the root of a stored-to expression lives *)
Inductive eclass : Type :=
| CLocal       (* allocated by the function itself (or the result of a call)                  *)
| CRun         (* a per-run object: taskManager, task, channelManager, channel, checkpoint, …  *)
| CParam       (* a parameter of slice / map / pointer type: may alias anything               *)
| CCaptured    (* a variable of the constructor captured by a run-time closure; a context value *)
| CRecord      (* the compiled record / the caller's option values (receiver or parameter of a record type) *)
| CPkg.        (* a package-level variable                                                    *)

Record effect : Type := Eff { e_fn : string; e_kind : string; e_class : eclass; e_path : string }.

Definition eclass_eqb (a b : eclass) : bool :=
  match a, b with
  | CLocal, CLocal | CRun, CRun | CParam, CParam | CCaptured, CCaptured | CRecord, CRecord | CPkg, CPkg => true
  | _, _ => false
  end.

Definition effect_eqb (a b : effect) : bool :=
  String.eqb (e_fn a) (e_fn b) && String.eqb (e_kind a) (e_kind b)
  && eclass_eqb (e_class a) (e_class b) && String.eqb (e_path a) (e_path b).

(* kinds that store something (a mention of a package-level variable and a reference taken do not) *)
Definition is_store (e : effect) : bool :=
  negb (String.eqb (e_kind e) "pkgvar") && negb (String.eqb (e_kind e) "link").

(* ---- the review *)

Inductive verdict : Type :=
| ReadOnly       (* nothing is stored: a sentinel error compared with errors.Is, a table that is only
                    read, a reference from a per-run object into the record                      *)
| CallersLocal   (* the parameter written through is, at every call site on the run path, an object
                    the calling run allocated itself.  Until round 4 five effects carried this verdict
                    by hand (calculateBranch's input copies, the three locals of run filled by
                    resolveInterruptCompletedTasks, uniqueKeys' argument); since round 5 the extractor
                    decides it itself at every call site (provenance of the argument) and reports such
                    a store only where the object handed over is NOT the caller's own — the verdict
                    remains for functions whose callers are not all known                          *)
| BuildTime      (* the closure takes a context but is called by Compile, on objects of that call *)
| Unreviewed.    (* not in the table: counts as a store into shared data                          *)

(* every effect found on the unchanged tree, in the extractor's order (sorted by scope, kind, path).
   Since round 5 an effect carries the SCOPE in which it was found (the package, and whether the code is a
   run-time closure of a constructor) instead of the function's name: renaming a private function or moving
   a statement from one function into another leaves the table as it is.  The functions are listed in the
   comments (and beside every effect in Gen/C09Effects.v, run_path_effects_named, so that a broken agreement
   names the function); a link or a mention of a package-level variable is listed once per scope however
   many functions have it, a store once per function that has it. *)
Definition reviewed_effects : list (effect * verdict) := [
  (* callbacks:managerFromCtx *)
  (Eff "callbacks"%string "link"%string CCaptured "manager.globalHandlers <- ctx.Value().globalHandlers"%string, ReadOnly);
  (* callbacks:manager.withRunInfo *)
  (Eff "callbacks"%string "link"%string CRecord "manager.globalHandlers <- manager.globalHandlers"%string, ReadOnly);
  (* callbacks:managerFromCtx *)
  (Eff "callbacks"%string "link"%string CCaptured "manager.handlers <- ctx.Value().handlers"%string, ReadOnly);
  (* callbacks:manager.withRunInfo *)
  (Eff "callbacks"%string "link"%string CRecord "manager.handlers <- manager.handlers"%string, ReadOnly);
  (* callbacks:AppendHandlers, InitCallbacks *)
  (Eff "callbacks"%string "link"%string CRecord "manager.handlers <- param(...Handler)"%string, ReadOnly);
  (* callbacks:managerFromCtx *)
  (Eff "callbacks"%string "link"%string CCaptured "manager.runInfo <- ctx.Value().runInfo"%string, ReadOnly);
  (* callbacks:AppendHandlers, InitCallbacks, ReuseHandlers *)
  (Eff "callbacks"%string "link"%string CRecord "manager.runInfo <- param(*RunInfo)"%string, ReadOnly);
  (* callbacks:newManager *)
  (Eff "callbacks"%string "pkgvar"%string CPkg "GlobalHandlers"%string, ReadOnly);
  (* checkPointer.convertCheckPoint *)
  (Eff "compose"%string "assign"%string CParam "param(map[string]any)[]"%string, CallersLocal);
  (* checkPointer.restoreCheckPoint *)
  (Eff "compose"%string "assign"%string CParam "param(map[string]any)[]"%string, CallersLocal);
  (* runner.initChannelManager *)
  (Eff "compose"%string "link"%string CRecord "channelManager.edgeHandlerManager <- runner.edgeHandlerManager"%string, ReadOnly);
  (* runner.initChannelManager *)
  (Eff "compose"%string "link"%string CRecord "channelManager.preNodeHandlerManager <- runner.preNodeHandlerManager"%string, ReadOnly);
  (* runner.initChannelManager *)
  (Eff "compose"%string "link"%string CRecord "channelManager.successors <- runner.successors"%string, ReadOnly);
  (* runner.handleInterrupt, runner.handleInterruptWithSubGraphAndRerunNodes *)
  (Eff "compose"%string "link"%string CCaptured "checkpoint.State <- ctx.Value().state"%string, ReadOnly);
  (* runner.createTasks, runner.restoreTasks *)
  (Eff "compose"%string "link"%string CRecord "task.call <- runner.chanSubscribeTo[]"%string, ReadOnly);
  (* runner.initTaskManager *)
  (Eff "compose"%string "link"%string CRecord "taskManager.needAll <- runner.eager"%string, ReadOnly);
  (* runner.invoke, runner.run, runner.transform *)
  (Eff "compose"%string "link"%string CRecord "taskManager.opts <- param(...Option)"%string, ReadOnly);
  (* ToolsNode.Invoke, ToolsNode.Stream: the task of one tool call refers to the node's tool tuple (round 6: the link is
     seen whether the task is filled field by field or written as a literal) *)
  (Eff "compose"%string "link"%string CRecord "toolCallTask.meta <- ToolsNode.tuple.meta[]"%string, ReadOnly);
  (* ToolsNode.Invoke, ToolsNode.Stream *)
  (Eff "compose"%string "link"%string CRecord "toolCallTask.r <- ToolsNode.tuple.rps[]"%string, ReadOnly);
  (* convert, isMappedFragment, pairWrittenToTarget, restore *)
  (Eff "compose"%string "pkgvar"%string CPkg "mappedFragmentConvertPair"%string, ReadOnly);
  (* graphNode.beforeChildGraphCompile$closure *)
  (Eff "compose$closure"%string "assign"%string CRecord "captured(parameter key2SubGraphs)[]"%string, BuildTime);
  (* host:addHostAgent$closure *)
  (Eff "host$closure"%string "link"%string CParam "state.msgs <- param([]*schema.Message)"%string, ReadOnly)

].

Definition expected_effects : list effect := map fst reviewed_effects.

(* where the fields of the per-run managers come from (runner.initTaskManager / initChannelManager,
   compose/graph_run.go): freshly allocated, or a read-only reference to the record / the call's options *)
Definition expected_task_manager_alloc : list (string * eclass) := [
  ("done", CLocal); ("l", CLocal); ("mu", CLocal);
  ("needAll", CRecord); ("opts", CRecord); ("runWrapper", CRecord)
].
Definition expected_channel_manager_alloc : list (string * eclass) := [
  ("channels", CLocal); ("controlPredecessors", CLocal); ("dataPredecessors", CLocal);
  ("edgeHandlerManager", CRecord); ("isStream", CLocal); ("preNodeHandlerManager", CRecord);
  ("successors", CRecord)
].
(* the fields through which the managers refer to the record: read-only links, listed as such above *)
Definition manager_links : list string :=
  ["needAll"; "opts"; "runWrapper"; "edgeHandlerManager"; "preNodeHandlerManager"; "successors"].

(* a review is consistent when ReadOnly is only said of effects that store nothing *)
Definition consistent (ev : effect * verdict) : bool :=
  match snd ev with
  | ReadOnly => negb (is_store (fst ev))
  | CallersLocal => is_store (fst ev)
  | BuildTime => is_store (fst ev)
  | Unreviewed => false
  end.

Fixpoint verdict_of (tab : list (effect * verdict)) (e : effect) : verdict :=
  match tab with
  | [] => Unreviewed
  | (e', v) :: tab' => if effect_eqb e e' then v else verdict_of tab' e
  end.

Definition review (effs : list effect) : list (effect * verdict) :=
  map (fun e => (e, verdict_of reviewed_effects e)) effs.

(* ---- the abstract machine of the table.  A store is a family of counters indexed by path; one
   step of a run performs every extracted effect once: a reviewed store into a caller's local bumps
   the run's own counters, a build-time store does not happen during a run, an unreviewed store (or
   one mis-reviewed as read-only) bumps the SHARED counters. *)
Definition counters : Type := list (string * N).
Definition bump (k : string) (m : counters) : counters :=
  alist_set k (N.succ (match alist_get k m with Some n => n | None => 0%N end)) m.

Definition exec1 (ev : effect * verdict) (g : counters * counters) : counters * counters :=
  let (e, v) := ev in
  if is_store e then
    match v with
    | CallersLocal => (fst g, bump (e_path e) (snd g))
    | BuildTime => g
    | ReadOnly | Unreviewed => (bump (e_path e) (fst g), snd g)
    end
  else g.

Definition exec_effects (evs : list (effect * verdict)) (g : counters * counters) : counters * counters :=
  fold_left (fun g ev => exec1 ev g) evs g.

(* the step function of the product system of Model/Isolation.v: the shared store, the run's own *)
Definition effect_step (effs : list effect) (sh r : counters) : option (counters * counters) :=
  Some (exec_effects (review effs) (sh, r)).

Definition writes_shared (ev : effect * verdict) : bool :=
  is_store (fst ev) && match snd ev with ReadOnly | Unreviewed => true | _ => false end.
