(* Model/CallbacksStream.v — the stream payload handed to callback handlers (property C10).

   Anchors: internal/callbacks/inject.go OnWithStreamHandle (n handlers => cpy(n+1): handler i
   reads copy i, the flow continues with copy n), schema/stream.go copyStreamReaders /
   parentStreamReader.peek / close (children of one parent: a shared, lazily filled list of
   the items pulled from the source so far, one cursor per child, nil = closed).

   Definitions only. *)
From Coq Require Import List Arith NArith Bool.
From Eino Require Import Base.Util Base.GoSlice.
Import ListNotations.

(* source items not yet pulled, items pulled so far, per child: Some k = next item to read is
   the k-th pulled one, None = closed *)
Record copies := { cp_src : list N; cp_buf : list N; cp_cur : list (option nat) }.

Inductive cact := CRecv (i : nat) | CClose (i : nat).

(* sr.Copy(n) *)
Definition copy_n (src : list N) (n : nat) : copies :=
  {| cp_src := src; cp_buf := []; cp_cur := repeat (Some 0) n |}.

(* one action; returns the item received (None: end of stream / closed reader / a close) *)
Definition cstep (c : copies) (a : cact) : copies * option N :=
  match a with
  | CClose i => ({| cp_src := cp_src c; cp_buf := cp_buf c; cp_cur := set_nth (cp_cur c) i None |}, None)
  | CRecv i =>
      match nth_error (cp_cur c) i with
      | Some (Some k) =>
          match nth_error (cp_buf c) k with
          | Some v => ({| cp_src := cp_src c; cp_buf := cp_buf c; cp_cur := set_nth (cp_cur c) i (Some (S k)) |}, Some v)
          | None =>
              match cp_src c with
              | v :: src' => ({| cp_src := src'; cp_buf := cp_buf c ++ [v];
                                 cp_cur := set_nth (cp_cur c) i (Some (S k)) |}, Some v)
              | [] => (c, None)
              end
          end
      | _ => (c, None)
      end
  end.

(* the reader an action belongs to *)
Definition act_reader (a : cact) : nat := match a with CRecv j => j | CClose j => j end.
Definition own (i : nat) (a : cact) : bool := Nat.eqb (act_reader a) i.

(* what child i has received over a sequence of actions (of all children, in any order) *)
Fixpoint received (c : copies) (i : nat) (acts : list cact) : list N :=
  match acts with
  | [] => []
  | a :: acts' =>
      let r := cstep c a in
      match snd r with
      | Some v => if own i a then v :: received (fst r) i acts' else received (fst r) i acts'
      | None => received (fst r) i acts'
      end
  end.

(* what child i sees as a function of the original stream and of ITS OWN actions only
   ([cur] = its cursor) *)
Fixpoint view (orig : list N) (cur : option nat) (i : nat) (acts : list cact) : list N :=
  match acts with
  | [] => []
  | a :: acts' =>
      if own i a then
        match a, cur with
        | CRecv _, Some k =>
            match nth_error orig k with
            | Some v => v :: view orig (Some (S k)) i acts'
            | None => view orig cur i acts'
            end
        | CRecv _, None => view orig None i acts'
        | CClose _, _ => view orig None i acts'
        end
      else view orig cur i acts'
  end.

(* all children at once: what every reader received *)
Definition received_all (src : list N) (n : nat) (acts : list cact) : list (list N) :=
  map (fun i => received (copy_n src n) i acts) (seq 0 n).

(* whether all children are closed at the end (then the parent closes the source) *)
Fixpoint run_acts (c : copies) (acts : list cact) : copies :=
  match acts with [] => c | a :: acts' => run_acts (fst (cstep c a)) acts' end.
Definition all_closed (c : copies) : bool :=
  forallb (fun x => match x with None => true | Some _ => false end) (cp_cur c).
