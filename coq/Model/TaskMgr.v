(* Model/TaskMgr.v — property C03, hand-off protocol of compose/graph_manager.go (taskManager).

   Shared state: the overflow list [l] and the one-slot channel [done] (a Go channel of
   capacity 1 = an option), the mutex [lock], the run-loop-owned counter [num].
   Executors (one per submitted task; the first task of a batch runs the same code inline on
   the run-loop goroutine, which is the collector state [CSync]):
       ERun --lock--> ELk --push--> ETop --send*--> (l = [] | full -> EOut) --unlock--> EDone
   Collector (waitOne; waitAll is waitOne in a loop, the run loop decides when to stop):
       CIdle --await (num>0, num--)--> CWait --recv--> CGot --lock--> CTop --send*-->
             (l = [] | full -> CFull) --unlock--> CIdle (task collected)
   A panic of the node body is the [BPanic] outcome: the deferred function recovers it, sets the
   task's error and goes through the very same hand-off, so the entry that is pushed carries
   [err_of b].

   Assumed (not modelled further): Go's channel and sync.Mutex semantics — a buffered channel
   of capacity 1 behaves as a one-slot option with non-blocking send (select/default) and
   blocking receive, a mutex makes the sections atomic with respect to each other.

   Definitions only (executable trace checker [accepts]); proofs are in Proofs/TaskMgr*.v. *)
From Eino Require Import Base.Util.

Definition task := N.

Inductive bres := BOk | BErr | BPanic.
Definition err_of (b : bres) : bool := match b with BOk => false | _ => true end.

Definition entry := (task * bool)%type.          (* finished task, error flag *)

Inductive holder := HNone | HExec (t : task) | HColl.
Inductive stage := ERun | ELk | ETop | EOut | EDone.
Inductive cpc := CIdle | CSync (t : task) | CWait | CGot (x : entry) | CTop (x : entry) | CFull (x : entry).

Record st := mk {
  l : list entry;
  done : option entry;
  lock : holder;
  epcs : list (task * (stage * bres));     (* submitted tasks, in submission order *)
  cp : cpc;
  num : nat;
  collected : list entry;
}.

Definition init : st := mk [] None HNone [] CIdle 0 [].

Fixpoint get_pc (t : task) (m : list (task * (stage * bres))) : option (stage * bres) :=
  match m with
  | [] => None
  | (t', p) :: m' => if N.eqb t t' then Some p else get_pc t m'
  end.

Fixpoint set_st (t : task) (p : stage) (m : list (task * (stage * bres))) : list (task * (stage * bres)) :=
  match m with
  | [] => []
  | (t', (p', b)) :: m' => if N.eqb t t' then (t', (p, b)) :: m' else (t', (p', b)) :: set_st t p m'
  end.

Inductive step : st -> st -> Prop :=
| s_spawn s t b :
    cp s = CIdle -> get_pc t (epcs s) = None ->
    step s (mk (l s) (done s) (lock s) (epcs s ++ [(t, (ERun, b))]) CIdle (S (num s)) (collected s))
| s_sync s t b :
    cp s = CIdle -> get_pc t (epcs s) = None ->
    step s (mk (l s) (done s) (lock s) (epcs s ++ [(t, (ERun, b))]) (CSync t) (S (num s)) (collected s))
| s_syncret s t b :
    cp s = CSync t -> get_pc t (epcs s) = Some (EDone, b) ->
    step s (mk (l s) (done s) (lock s) (epcs s) CIdle (num s) (collected s))
| s_await s n :
    cp s = CIdle -> num s = S n ->
    step s (mk (l s) (done s) (lock s) (epcs s) CWait n (collected s))
| s_exec_lock s t b :
    get_pc t (epcs s) = Some (ERun, b) -> lock s = HNone ->
    step s (mk (l s) (done s) (HExec t) (set_st t ELk (epcs s)) (cp s) (num s) (collected s))
| s_exec_push s t b :
    lock s = HExec t -> get_pc t (epcs s) = Some (ELk, b) ->
    step s (mk (l s ++ [(t, err_of b)]) (done s) (lock s) (set_st t ETop (epcs s)) (cp s) (num s) (collected s))
| s_exec_send s t b x xs :
    lock s = HExec t -> get_pc t (epcs s) = Some (ETop, b) -> l s = x :: xs -> done s = None ->
    step s (mk xs (Some x) (lock s) (epcs s) (cp s) (num s) (collected s))
| s_exec_full s t b :
    lock s = HExec t -> get_pc t (epcs s) = Some (ETop, b) -> l s <> [] -> done s <> None ->
    step s (mk (l s) (done s) (lock s) (set_st t EOut (epcs s)) (cp s) (num s) (collected s))
| s_exec_unlock s t b p :
    lock s = HExec t -> get_pc t (epcs s) = Some (p, b) ->
    (p = ETop /\ l s = [] \/ p = EOut) ->
    step s (mk (l s) (done s) HNone (set_st t EDone (epcs s)) (cp s) (num s) (collected s))
| s_recv s x :
    cp s = CWait -> done s = Some x ->
    step s (mk (l s) None (lock s) (epcs s) (CGot x) (num s) (collected s))
| s_coll_lock s x :
    cp s = CGot x -> lock s = HNone ->
    step s (mk (l s) (done s) HColl (epcs s) (CTop x) (num s) (collected s))
| s_coll_send s x y ys :
    cp s = CTop x -> l s = y :: ys -> done s = None ->
    step s (mk ys (Some y) (lock s) (epcs s) (cp s) (num s) (collected s))
| s_coll_full s x :
    cp s = CTop x -> l s <> [] -> done s <> None ->
    step s (mk (l s) (done s) (lock s) (epcs s) (CFull x) (num s) (collected s))
| s_coll_unlock s x :
    (cp s = CTop x /\ l s = [] \/ cp s = CFull x) ->
    step s (mk (l s) (done s) HNone (epcs s) CIdle (num s) (x :: collected s)).

Inductive reach : st -> Prop :=
| r_init : reach init
| r_step s s' : reach s -> step s s' -> reach s'.

(* the steps of the protocol itself: everything but the run loop handing in new tasks *)
Inductive dstep : st -> st -> Prop :=
| d_step s s' : step s s' -> List.length (epcs s') = List.length (epcs s) -> dstep s s'.

(* ---------------------------------------------------------------- trace conformance *)

Inductive ev :=
| EvSpawn (t : task) (b : bres) | EvSync (t : task) (b : bres) | EvSyncRet (t : task)
| EvAwait | EvEmpty
| EvLockE (t : task) | EvPush (t : task) (e : bool) | EvSend (t : task) | EvFull | EvUnlockE (t : task)
| EvRecv (t : task) (e : bool) | EvLockC | EvUnlockC.

Definition is_nil {A} (x : list A) : bool := match x with [] => true | _ => false end.
Definition is_none {A} (x : option A) : bool := match x with None => true | _ => false end.

Definition exec_ev (s : st) (e : ev) : option st :=
  match e with
  | EvSpawn t b =>
      match cp s, get_pc t (epcs s) with
      | CIdle, None => Some (mk (l s) (done s) (lock s) (epcs s ++ [(t, (ERun, b))]) CIdle (S (num s)) (collected s))
      | _, _ => None
      end
  | EvSync t b =>
      match cp s, get_pc t (epcs s) with
      | CIdle, None => Some (mk (l s) (done s) (lock s) (epcs s ++ [(t, (ERun, b))]) (CSync t) (S (num s)) (collected s))
      | _, _ => None
      end
  | EvSyncRet t =>
      match cp s, get_pc t (epcs s) with
      | CSync t', Some (EDone, _) =>
          if N.eqb t t' then Some (mk (l s) (done s) (lock s) (epcs s) CIdle (num s) (collected s)) else None
      | _, _ => None
      end
  | EvAwait =>
      match cp s, num s with
      | CIdle, S n => Some (mk (l s) (done s) (lock s) (epcs s) CWait n (collected s))
      | _, _ => None
      end
  | EvEmpty =>
      match cp s, num s with
      | CIdle, O => Some s
      | _, _ => None
      end
  | EvLockE t =>
      match get_pc t (epcs s), lock s with
      | Some (ERun, _), HNone =>
          Some (mk (l s) (done s) (HExec t) (set_st t ELk (epcs s)) (cp s) (num s) (collected s))
      | _, _ => None
      end
  | EvPush t e =>
      match lock s, get_pc t (epcs s) with
      | HExec t', Some (ELk, b) =>
          if N.eqb t t' && Bool.eqb e (err_of b)
          then Some (mk (l s ++ [(t, err_of b)]) (done s) (lock s) (set_st t ETop (epcs s)) (cp s) (num s) (collected s))
          else None
      | _, _ => None
      end
  | EvSend t =>
      match l s, done s with
      | (t', e') :: xs, None =>
          if N.eqb t t' then
            match lock s with
            | HExec h =>
                match get_pc h (epcs s) with
                | Some (ETop, _) => Some (mk xs (Some (t', e')) (lock s) (epcs s) (cp s) (num s) (collected s))
                | _ => None
                end
            | HColl =>
                match cp s with
                | CTop _ => Some (mk xs (Some (t', e')) (lock s) (epcs s) (cp s) (num s) (collected s))
                | _ => None
                end
            | HNone => None
            end
          else None
      | _, _ => None
      end
  | EvFull =>
      if is_nil (l s) || is_none (done s) then None else
      match lock s with
      | HExec h =>
          match get_pc h (epcs s) with
          | Some (ETop, _) =>
              Some (mk (l s) (done s) (lock s) (set_st h EOut (epcs s)) (cp s) (num s) (collected s))
          | _ => None
          end
      | HColl =>
          match cp s with
          | CTop x => Some (mk (l s) (done s) (lock s) (epcs s) (CFull x) (num s) (collected s))
          | _ => None
          end
      | HNone => None
      end
  | EvUnlockE t =>
      match lock s, get_pc t (epcs s) with
      | HExec t', Some (p, _) =>
          if N.eqb t t' &&
             match p with ETop => is_nil (l s) | EOut => true | _ => false end
          then Some (mk (l s) (done s) HNone (set_st t EDone (epcs s)) (cp s) (num s) (collected s))
          else None
      | _, _ => None
      end
  | EvRecv t e =>
      match cp s, done s with
      | CWait, Some (t', e') =>
          if N.eqb t t' && Bool.eqb e e'
          then Some (mk (l s) None (lock s) (epcs s) (CGot (t', e')) (num s) (collected s))
          else None
      | _, _ => None
      end
  | EvLockC =>
      match cp s, lock s with
      | CGot x, HNone => Some (mk (l s) (done s) HColl (epcs s) (CTop x) (num s) (collected s))
      | _, _ => None
      end
  | EvUnlockC =>
      match cp s with
      | CTop x => if is_nil (l s)
                  then Some (mk (l s) (done s) HNone (epcs s) CIdle (num s) (x :: collected s)) else None
      | CFull x => Some (mk (l s) (done s) HNone (epcs s) CIdle (num s) (x :: collected s))
      | _ => None
      end
  end.

(* The receive is logged after it completed, possibly late: its effect (the slot is empty
   again) can be used by a mutex holder's send that is logged earlier.  The collector is the
   only receiver, so a logged [send] that finds the slot occupied while the collector is blocked
   in the receive proves that the receive has already happened: the checker performs it there
   ([pend] remembers the entry) and the late [recv] log entry must then be the collector's next
   event and name that entry. *)
Definition is_coll_ev (e : ev) : bool :=
  match e with
  | EvLockE _ | EvPush _ _ | EvSend _ | EvFull | EvUnlockE _ => false
  | _ => true
  end.

Definition recv_state (s : st) (x : entry) : st :=
  mk (l s) None (lock s) (epcs s) (CGot x) (num s) (collected s).

Definition exec_ev2 (sp : st * option entry) (e : ev) : option (st * option entry) :=
  let '(s, pend) := sp in
  match pend with
  | Some (t', e') =>
      match e with
      | EvRecv t b => if N.eqb t t' && Bool.eqb b e' then Some (s, None) else None
      | _ => if is_coll_ev e then None
             else match exec_ev s e with Some s' => Some (s', pend) | None => None end
      end
  | None =>
      match e, cp s, done s with
      | EvSend _, CWait, Some x =>
          match exec_ev (recv_state s x) e with Some s' => Some (s', Some x) | None => None end
      | _, _, _ => match exec_ev s e with Some s' => Some (s', None) | None => None end
      end
  end.

(* run a trace; on rejection report the index of the offending event *)
Fixpoint run_trace2 (sp : st * option entry) (i : nat) (tr : list ev) : (st * option entry) + nat :=
  match tr with
  | [] => inl sp
  | e :: tr' => match exec_ev2 sp e with Some sp' => run_trace2 sp' (S i) tr' | None => inr i end
  end.

Definition run_trace (s : st) (i : nat) (tr : list ev) : st + nat :=
  match run_trace2 (s, None) i tr with
  | inl (s', None) => inl s'
  | inl (_, Some _) => inr (i + List.length tr)%nat
  | inr k => inr k
  end.

(* Log-order normalisation (DESIGN section 4): a send / a failed send attempt is logged after it
   was performed, while the mutex is held; the receive is not ordered by the mutex, so the
   collector's [recv x] entry may overtake the holder's entry by exactly one position.
   [recv x; send x] can never be a real order (x is sent once), [recv x; full] neither (after
   the receive the slot stays empty until the holder itself fills it). *)
Fixpoint normalize (tr : list ev) : list ev :=
  match tr with
  | EvRecv t e :: tr1 =>
      match tr1 with
      | EvSend t' :: tr2 => if N.eqb t t' then EvSend t' :: EvRecv t e :: normalize tr2
                            else EvRecv t e :: normalize tr1
      | EvFull :: tr2 => EvFull :: EvRecv t e :: normalize tr2
      | _ => EvRecv t e :: normalize tr1
      end
  | e :: tr1 => e :: normalize tr1
  | [] => []
  end.

Definition stage_done (p : task * (stage * bres)) : bool :=
  match p with (_, (EDone, _)) => true | _ => false end.

(* the trace is complete: every goroutine has left the protocol *)
Definition settled (s : st) : bool :=
  forallb stage_done (epcs s) &&
  match lock s, cp s with HNone, CIdle => true | _, _ => false end.

Definition leftover (s : st) : nat := List.length (l s) + match done s with Some _ => 1 | None => 0 end.

(* verdict on one recorded trace: accepted by the LTS and settled; the number of finished
   tasks that were never collected is reported separately *)
Definition accepts (tr : list ev) : bool :=
  match run_trace init 0 (normalize tr) with
  | inl s => settled s
  | inr _ => false
  end.

Definition trace_leftover (tr : list ev) : option (nat * nat) :=      (* (uncollected, num) *)
  match run_trace init 0 (normalize tr) with
  | inl s => Some (leftover s, num s)
  | inr _ => None
  end.

Definition reject_index (tr : list ev) : option nat :=
  match run_trace init 0 (normalize tr) with inl _ => None | inr i => Some i end.
