(* Model/DagValidate.v — C02: cycle rejection at compile time for all-predecessor graphs and Workflows
   (compose/graph.go validateDAG, called from graph.compile when the run type is DAG).

   Go: m[node] = number of declared control predecessors of node other than START (one entry per control
   edge and one per branch that has node among its end nodes); repeat { for every node with m = 0: decrement
   every control successor and every branch end node (END excepted), mark the node (-1) } until nothing
   changes; error iff some m > 0 remains. The set of nodes that can be removed does not depend on the map
   iteration order; the model removes, round by round, ALL nodes whose remaining in-degree is 0. *)
From Eino Require Import Base.Util Model.Graph.
Open Scope N_scope.

(* multiplicity of the control dependency n -> t *)
Definition cmult (n : node) (t : key) : nat :=
  (count_occ N.eq_dec (n_csucc n) t + List.length (filter (fun b => memb t (b_ends b)) (n_branches n)))%nat.

Definition indeg (rem : list node) (t : key) : nat := fold_right (fun n a => (cmult n t + a)%nat) O rem.

Definition is_free (rem : list node) (n : node) : bool := Nat.eqb (indeg rem (n_key n)) 0.

Fixpoint kahn (fuel : nat) (rem : list node) : list node :=
  match fuel with
  | O => rem
  | S f =>
    match filter (is_free rem) rem with
    | [] => rem
    | _ => kahn f (filter (fun n => negb (is_free rem n)) rem)
    end
  end.

Definition validate_dag (g : graph) : bool :=
  match kahn (S (List.length (real_nodes g))) (real_nodes g) with [] => true | _ => false end.

(* graph.compile of the root compiles every graph that is reachable from it through sub-graph nodes (forest
   entries nothing refers to are never built) *)
Fixpoint reach_idx (F : forest) (fuel : nat) (i : nat) : list nat :=
  i :: match fuel with
       | O => []
       | S f =>
         match nth_error F i with
         | Some g => flat_map (fun n => match n_kind n with KSub j => reach_idx F f j | _ => [] end) (g_nodes g)
         | None => []
         end
       end.

Definition forest_dag_valid (F : forest) : bool :=
  forallb (fun i => match nth_error F i with
                    | Some g => match g_mode g with Dag => validate_dag g | Pregel => true end
                    | None => true
                    end) (reach_idx F (List.length F) O).
