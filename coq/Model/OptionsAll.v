(* Model/OptionsAll.v — property C16 without the set of executing nodes as an input.

   Model/Options.v computes one report per node that executes in the call (n_runs).  Which
   nodes execute is decided by the engine (branches, interrupt points, the superstep loop:
   other properties); C16 only says what a node is handed WHEN it executes.  [would_call]
   therefore answers for every node of the forest: it is [run_call] on the forest in which
   every node executes.  The correspondence check compares the implementation pointwise
   with it: every node that was observed to execute (a component recorded itself, a graph
   node was entered) must have exactly one entry in [would_call], and that entry must be
   what the node received ([within]).

   Executable definitions only. *)
From Eino Require Import Base.Util Model.Options Model.OptionsSpec Model.OptionsResume.

Definition force_node (nd : node) : node := mkNode (n_key nd) (n_kind nd) (n_cb nd) true.
Definition force_graph (g : graph) : graph := map force_node g.
Definition force_runs (F : forest) : forest := map force_graph F.

(* what every node of the forest is handed by this call if it executes *)
Definition would_call (F : forest) (opts : list copt) : res (list report) :=
  run_call (force_runs F) opts.
Definition would (F : forest) (c : call) : res (list report) :=
  do opts <- call_opts c; would_call F opts.
(* the same for a call that re-enters the run from checkpoint [ck] (restoreTasks /
   forwardCheckPoint at every level) *)
Definition would_resume (F : forest) (c : call) (ck : option ckpt) : res (list report) :=
  resume (force_runs F) c ck.

(* the reports of the nodes that execute, selected out of the reports of all nodes *)
Definition select_executing (F : forest) (rs : list report) : list report :=
  filter (fun r => executes F 0 (r_path r)) rs.

(* the two projections of a list of reports that the correspondence check compares: per
   component the payloads of the option values it received, in order; per callback-enabled
   node the handlers in its callback manager, sorted (with multiplicity) *)
Definition deliveries (rs : list report) : list (path * list N) :=
  flat_map (fun r => match r_items r with Some its => [(r_path r, map snd its)] | None => [] end) rs.
Definition firings (rs : list report) : list (path * list N) :=
  flat_map (fun r => match r_fired r with Some hs => [(r_path r, sort_by N.ltb hs)] | None => [] end) rs.

(* pointwise comparison of an observation (a list of (node path, values)) with the model's
   answer for all nodes: exactly one model entry for that path, with those values *)
Fixpoint nlist_eqb (x y : list N) : bool :=
  match x, y with
  | [], [] => true
  | a :: x', b :: y' => N.eqb a b && nlist_eqb x' y'
  | _, _ => false
  end.
Definition entries_at (p : path) (l : list (path * list N)) : list (list N) :=
  map snd (filter (fun e => path_eqb (fst e) p) l).
Definition entry_within (model : list (path * list N)) (e : path * list N) : bool :=
  match entries_at (fst e) model with
  | [v] => nlist_eqb v (snd e)
  | _ => false
  end.
Definition within (model observed : list (path * list N)) : bool :=
  forallb (entry_within model) observed.
