(* Model/ErrorsRecoverLib.v — property C13: the vocabulary of the extractor "recoversites"
   (tools/go2v/c13_recover.go -> Gen/RecoverSites.v).  The five places where the framework turns a
   panic of user code into an error — taskManager.executor, the goroutines of parallelRunToolCall,
   the two stream forwarders (toStream) and parentStreamReader.peek — all have the shape

       FLAG := false
       defer func() { v := safe.PanicValue(recover(), FLAG); if v != nil { <report safe.NewPanicErr(v, ..)> } ... }()
       <the guarded call>
       FLAG = true

   The extractor reads, per site, whether a nil-valued panic is told from a normal return (the flag is
   passed to safe.PanicValue AND set after the guarded call, nowhere before), whether the recovery is the
   first deferred action to run (no deferred call registered after it), and where the recovered
   panic is reported (the task's err field, an error item sent / recorded, nowhere).  Here: what a site
   with these attributes does with a panic of payload i.  Definitions only. *)
From Eino Require Import Base.Util Model.Errors Model.ErrorsFwd Model.ErrorsNilPanic.

Inductive report : Type := RTaskErr | RItem | RNone.

Record rsite : Type := mkRsite {
  rs_guard_nil : bool;    (* v := safe.PanicValue(recover(), FLAG)  (false: a bare recover()) *)
  rs_flag_after : bool;   (* FLAG = true exactly once, after the guarded call *)
  rs_report_first : bool; (* no deferred call is registered after the recovering one (such a call runs BEFORE the
                             recovery: a waiter released there may read the result before the panic is recorded) *)
  rs_report : report
}.

(* the error a site reports for a panic with payload i (None: the panic is swallowed — the function
   returns as if the guarded call had completed) *)
Definition site_panic (s : rsite) (i : N) : option err :=
  if N.eqb i nil_payload && negb (rs_guard_nil s && rs_flag_after s) then None
  else if negb (rs_report_first s) then None   (* may be read before it is recorded: not reported for sure *)
  else match rs_report s with
       | RNone => None
       | _ => Some (PanicErr i)
       end.

(* the model's functions written through a site *)
Definition of_call_site (s : rsite) (wrap : err -> err) (c : cres) (ok : nres) : nres :=
  match c with
  | COk => ok
  | CErr e => NErr [wrap e]
  | CPanic i => match site_panic s i with Some e => NErr [e] | None => ok end
  end.

Fixpoint fwd_site (s : rsite) (src : list selem) : list ritem :=
  match src with
  | [] => []
  | SVal v :: r => RVal v :: fwd_site s r
  | SItem e :: r => RErr e :: fwd_site s r
  | SSkip :: r => fwd_site s r
  | SBoom i :: _ => match site_panic s i with Some e => [RErr e] | None => [] end
  end.

Definition good_site (r : report) : rsite := mkRsite true true true r.
