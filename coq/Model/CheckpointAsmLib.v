(* Model/CheckpointAsmLib.v — property C05: the vocabulary of the translation of the checkpoint ASSEMBLY
   (tools/go2v, extractor "cpasm" -> Gen/CheckpointAssembly.v): runner.handleInterrupt and
   runner.handleInterruptWithSubGraphAndRerunNodes of compose/graph_run.go, and the call sites of the two in
   runner.run; plus the model's own versions (re-exported by the neutral Gen file when the source shape is not
   recognised).

     a []*task                               list atask: node key, input, output (tk_key / tk_in / tk_out); the output
                                             of a task still to be started and the input a collected task was started
                                             with are arbitrary (the theorems quantify over them): a handler that
                                             reads the wrong one of the two does not agree with the model
     resolveCompletedTasks(ts)               reads key and output of every task: map (fun t => (tk_key t, tk_out t)) ts
     a Go map keyed by node key              association list in the order of the assignments; the keys assigned
                                             by one handler call are distinct (the tasks of one step are), so
                                             m[k] = v is [puts] (append)
     _, ok := m[k]                           m_has k m
     m[k].F  (k known to be present)         m_sel k m F   (the entry under k, as a one-element list)
     subGraphInterrupts                      node key -> (nested checkpoint, nested interrupt info)
     for ... { if key == k { ...; break } }  asm_mem k keys
     inputZeroValue() / inputEmptyStream()   ph false / ph true: the placeholder input of a task that is to be
                                             re-run or continued, by paradigm of the call
     cp.State                                option GS: None = the field was never assigned
     `if r.runCtx != nil { if state, ok := <the internalState in ctx>; ok { cp.State = state.state } }`
                                             cp.State := own_state (the state of the run, for a graph that declares one;
                                             the model's gs, which is None-valued for a stateless graph)
   Definitions only. *)
From Eino Require Import Base.Util Model.RunLoop.
Open Scope N_scope.

Section AsmLib.
  Context {V CS GS SCP SINFO : Type}.

  Record acp := mk_acp {
    a_channels : CS; a_inputs : list (N * V); a_state : option GS; a_skip : list N; a_subs : list (N * SCP) }.
  Record ainfo := mk_ainfo {
    ai_state : option GS; ai_before : list N; ai_after : list N; ai_rerun : list N; ai_subs : list (N * SINFO) }.
  Inductive ares := AInterrupted (i : ainfo) (c : acp) | AFailed (e : N).

  Record atask := mk_atask { tk_key : N; tk_in : V; tk_out : V }.
  Definition outs_of (ts : list atask) : list (N * V) := map (fun t => (tk_key t, tk_out t)) ts.

  Definition puts {A} (m kvs : list (N * A)) : list (N * A) := m ++ kvs.
  Definition set_puts (s ks : list N) : list N := s ++ ks.
  Definition m_has {A} (k : N) (m : list (N * A)) : bool :=
    match nlist_get k m with Some _ => true | None => false end.
  Definition m_sel {A B} (k : N) (m : list (N * A)) (f : A -> B) : list (N * B) :=
    match nlist_get k m with Some a => [(k, f a)] | None => [] end.
  Definition asm_mem (k : N) (l : list N) : bool := memN k l.
  Definition sub_cp (s : SCP * SINFO) : SCP := fst s.
  Definition sub_info (s : SCP * SINFO) : SINFO := snd s.

  (* ---------- the model's side ---------- *)
  Definition of_cp (c : @checkpoint V CS GS SCP) : acp :=
    mk_acp (cp_cs c) (cp_inputs c) (Some (cp_gs c)) (cp_skip c) (cp_subs c).
  Definition of_iinfo (i : @iinfo GS SINFO) : ainfo :=
    mk_ainfo (Some (ii_gs i)) (ii_before i) (ii_after i) (ii_rerun i) (ii_subs i).
  (* the two handlers end a run segment interrupted, or failed in the channel layer *)
  Definition of_sres (r : @sres V CS GS SCP SINFO) : option ares :=
    match r with
    | Interrupted i c => Some (AInterrupted (of_iinfo i) (of_cp c))
    | Failed e => Some (AFailed e)
    | _ => None
    end.

  (* what the handler is called with, in terms of the collected results [rs] of the model *)
  (* cin k: the input node k was started with; onone k: the output field of a task that did not complete *)
  Definition ctasks (cin onone : N -> V) (rs : list (N * @texec V SCP SINFO)) : list atask :=
    map (fun r => mk_atask (fst r) (cin (fst r)) (match snd r with TDone o => o | _ => onone (fst r) end)) rs.
  (* tasks created and not yet started: pout k = their (unset) output field *)
  Definition ptasks (pout : N -> V) (pending : list (N * V)) : list atask :=
    map (fun kv => mk_atask (fst kv) (snd kv) (pout (fst kv))) pending.
  Definition subints (rs : list (N * @texec V SCP SINFO)) : list (N * (SCP * SINFO)) :=
    flat_map (fun r => match snd r with TSub c i => [(fst r, (c, i))] | _ => [] end) rs.

  Definition model_plain (own_state : option GS) (hb ha : list N) (pending : list atask) (cs : CS) : ares :=
    AInterrupted (mk_ainfo own_state hb ha [] [])
                 (mk_acp cs (map (fun t => (tk_key t, tk_in t)) pending) own_state [] []).

  Definition model_rerun (fold : CS -> list (N * V) -> res CS) (ph : bool -> V) (isStream : bool)
             (own_state : option GS) (rerunNodes : list N) (subs : list (N * (SCP * SINFO))) (ha : list N)
             (completed : list atask) (hb : list N) (pending : list atask) (cs : CS) : ares :=
    let is_sub := fun t : atask => m_has (tk_key t) subs in
    let is_rerun := fun t : atask => negb (m_has (tk_key t) subs) && memN (tk_key t) rerunNodes in
    let is_other := fun t : atask => negb (m_has (tk_key t) subs) && negb (memN (tk_key t) rerunNodes) in
    match fold cs (outs_of (filter is_other completed)) with
    | Ok cs1 =>
      AInterrupted
        (mk_ainfo own_state hb ha rerunNodes
           (flat_map (fun t => m_sel (tk_key t) subs sub_info) (filter is_sub completed)))
        (mk_acp cs1
           (map (fun t => (tk_key t, tk_in t)) pending
              ++ map (fun t => (tk_key t, ph isStream)) (filter is_sub completed)
              ++ map (fun t => (tk_key t, ph isStream)) (filter is_rerun completed))
           own_state
           (map tk_key (filter is_sub completed))
           (flat_map (fun t => m_sel (tk_key t) subs sub_cp) (filter is_sub completed)))
    | r => AFailed (chan_err r)
    end.

  (* ---------- resolveInterruptCompletedTasks: one collected task ----------
       t.err != nil                          t_has_err x      (x : texec, the task's result)
       info := isSubGraphInterrupt(t.err)    t_sub x          (Some (nested checkpoint, nested info))
       errors.Is(t.err, InterruptAndRerun)   t_is_rerun x
       return wrapGraphNodeError(k, t.err)   RStop (t_err_code x)
       m[k] = info / append to p^ (k)       the effects ESub / ERerun / EAfter, named by the POSITION of the
                                             parameter (first, second, third), as the call sites in run name them *)
  Notation texec := (@texec V SCP SINFO).
  Definition t_has_err (x : texec) : bool := match x with TDone _ => false | _ => true end.
  Definition t_sub (x : texec) : option (SCP * SINFO) := match x with TSub c i => Some (c, i) | _ => None end.
  Definition t_is_rerun (x : texec) : bool := match x with TRerun => true | _ => false end.
  Definition t_err_code (x : texec) : N := match x with TFail e => e | _ => 0 end.

  Inductive reff := ESub (k : N) (s : SCP * SINFO) | ERerun (k : N) | EAfter (k : N).
  Inductive rstep := RStep (l : list reff) | RStop (e : N).
  Record racc := mk_racc { ra_subs : list (N * (SCP * SINFO)); ra_rerun : list N; ra_after : list N }.
  Definition apply_eff (a : racc) (e : reff) : racc :=
    match e with
    | ESub k s => mk_racc (puts (ra_subs a) [(k, s)]) (ra_rerun a) (ra_after a)
    | ERerun k => mk_racc (ra_subs a) (set_puts (ra_rerun a) [k]) (ra_after a)
    | EAfter k => mk_racc (ra_subs a) (ra_rerun a) (set_puts (ra_after a) [k])
    end.
  (* the loop: task by task, the first failure ends it *)
  Fixpoint resolve_run (f : N * texec -> rstep) (l : list (N * texec)) (a : racc) : N + racc :=
    match l with
    | [] => inr a
    | t :: l' => match f t with
                 | RStop e => inl e
                 | RStep effs => resolve_run f l' (fold_left apply_eff effs a)
                 end
    end.
  Definition model_resolve_task (after_cfg : list N) (t : N * texec) : rstep :=
    match snd t with
    | TDone _ => RStep (if memN (fst t) after_cfg then [EAfter (fst t)] else [])
    | TRerun => RStep [ERerun (fst t)]
    | TSub c i => RStep [ESub (fst t) (c, i)]
    | TFail e => RStop e
    end.

  (* where the checkpoint goes *)
  Inductive adest := DParent | DStore | DNowhere.
  Definition model_dest (isSubGraph hasID : bool) : adest :=
    if isSubGraph then DParent else if hasID then DStore else DNowhere.
End AsmLib.

Arguments acp : clear implicits. Arguments ainfo : clear implicits. Arguments ares : clear implicits.
Arguments atask : clear implicits. Arguments mk_atask {V}.
Arguments reff : clear implicits. Arguments rstep : clear implicits. Arguments racc : clear implicits.
Arguments ESub {SCP SINFO}. Arguments ERerun {SCP SINFO}. Arguments EAfter {SCP SINFO}.
Arguments RStep {SCP SINFO}. Arguments RStop {SCP SINFO}. Arguments mk_racc {SCP SINFO}.
Arguments mk_acp {V CS GS SCP}. Arguments mk_ainfo {GS SINFO}.
Arguments AInterrupted {V CS GS SCP SINFO}. Arguments AFailed {V CS GS SCP SINFO}.

(* ---------- tables: the tail of the two handlers, and what runner.run calls them with ---------- *)
Local Open Scope string_scope.

(* after the assembly: the conversion of the checkpointed streams, then the checkpoint goes to the parent graph
   (nested run), to the store (an id was given), or nowhere; the caller gets the interrupt info in every case *)
Definition model_tail : list string :=
  ["convertCheckPoint(cp,isStream)"; "isSubGraph=>subGraphInterruptError{Info,CheckPoint}";
   "checkPointID!=nil=>set(*checkPointID,cp)"; "interruptError{Info}"].

(* runner.run, every call of the two handlers in source order; arguments by ORIGIN (names of locals are immaterial):
     wait / waitAll / waitAll2        what tm.wait() / the first, second tm.waitAll() of the iteration returned
     next(x)                          the tasks calculateNextTasks created from x
     hits(x)                          getHitKey(x, r.interruptBeforeNodes)
     start                            the tasks calculateNextTasks created from the START pseudo task
     rerun[..] / subs[..] / after[..] what resolveInterruptCompletedTasks accumulated from the listed task lists
     chans                            cm.channels *)
Definition model_call_sites : list (string * list string) :=
  [("handleInterrupt", ["before=hits(start)"; "after=nil"; "next=start"; "channels=chans"]);
   ("handleInterruptWithSubGraphAndRerunNodes",
      ["rerun=rerun[wait,waitAll]"; "subs=subs[wait,waitAll]"; "after=after[wait,waitAll]";
       "completed=wait++waitAll"; "before=nil"; "pending=nil"]);
   ("handleInterruptWithSubGraphAndRerunNodes",
      ["rerun=rerun[wait,waitAll]"; "subs=subs[wait,waitAll]"; "after=after[wait,waitAll]";
       "completed=waitAll"; "before=hits(next(wait))"; "pending=next(wait)"]);
   ("handleInterrupt", ["before=hits(next(wait))++hits(next(waitAll))"; "after=after[wait,waitAll]";
                        "next=next(wait)++next(waitAll)"; "channels=chans"])].
