(* Model/OptionsHosted.v — property C16: a call that is not issued from a fresh context.

   A compiled graph may be called by user code that runs inside a node of ANOTHER running
   graph (a lambda that invokes an inner Runnable with the context it was given), or with a
   context in which the caller has already installed callback handlers. The context then
   carries a callback manager with handlers [hh] (those of the host's call, as far as they
   apply to the host's node) and the host's node path. Modelled code (compose/):

     generic_graph.go  compileAnyGraph's ctxWrapper: initGraphCallbacks(ctx, ...) =
                       icb.AppendHandlers(ctx, ri, <undesignated handlers of THIS call>): the
                       handlers already in the context stay in front
     graph_run.go      runner.run: runner.extractOption(opts...) on the options of THIS call,
                       wherever the call comes from (a node path in the context does not make
                       the run the sub graph of anything: nothing was validated for it)

   So a hosted call is [run_graph] of the top-level graph with the inherited handlers
   [hh ++ graph_handlers opts]; options come from the call's own list only.
   Executable definitions only. *)
From Eino Require Import Base.Util Model.Options.

Definition run_hosted (F : forest) (hh : list N) (opts : list copt) : res (list report) :=
  let inh := hh ++ graph_handlers opts in
  do rs <- run_graph (S (List.length F)) F 0 [] inh opts;
  Ok (mkRep [] None (Some inh) :: rs).

Definition run_hosted_call (F : forest) (hh : list N) (c : call) : res (list report) :=
  do opts <- call_opts c; run_hosted F hh opts.

(* the report of a node of a direct call, with the handlers [hh] in front of its own *)
Definition inherit (hh : list N) (r : report) : report :=
  mkRep (r_path r) (r_items r)
        (match r_fired r with Some hs => Some (hh ++ hs) | None => None end).
