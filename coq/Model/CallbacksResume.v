(* Model/CallbacksResume.v — interrupt / resume: a run of a graph and the runs that resume it
   (property C10).

   A node execution can end with an interrupt: the node returns compose.InterruptAndRerun (or
   an error wrapping it), a tool call of a ToolsNode does, or a nested graph is interrupted
   (compose/graph_run.go resolveInterruptCompletedTasks, handleInterruptWithSubGraphAndRerunNodes;
   compose/interrupt.go).  For the callback machinery an interrupt is an error of that
   execution: runWithCallbacks (compose/utils.go:162-178) reports it with On(.., TError), the
   graph ends with onGraphError (graph_run.go:107-116), exactly like a failure.  What differs
   is what comes after: the run is checkpointed and the NEXT run with the same checkpoint id
   continues from there — the nodes that completed are not executed again, the nodes that asked
   for the interrupt are executed again (restoreTasks), an interrupted nested graph continues
   from its own checkpoint, recursively.

   A run plan ([rnode]) is a layered graph whose lambdas / tool calls carry the number of
   executions that will still ask for an interrupt, and whose completed nodes are marked
   [RDone].  [proj] gives the graph (Model/Callbacks.v [gnode]) the next run executes,
   [resume_stages] the plan after an interrupted run, [run_seqf] the whole sequence of runs.
   Every run of the sequence is a [graph_prog] of Model/CallbacksSched.v, so everything proved
   there for all graphs and all schedules holds for every run of every sequence.

   The graph of a resumed run consists of the nodes still to be executed.  In the
   implementation the call options are validated against all nodes of the compiled graph,
   executed or not (extractOption); a designation of a node that completed in an earlier run
   stays valid and attaches its handlers to nothing that executes.  [live_opts] therefore
   removes the designated paths that lead to (or into) a completed node, and an option all of
   whose paths are gone, before the options are given to the graph of the resumed run.

   Definitions only. *)
From Coq Require Import List Arith NArith Bool.
From Eino Require Import Base.Util Base.GoSlice Model.Callbacks Model.CallbacksSched.
Import ListNotations.

(* a tool call of a ToolsNode: unit, run info, paradigms of the tool, whether it fails, how many
   of its next executions ask for an interrupt *)
Definition rcall := (ukey * info * N * bool * nat)%type.

(* what is left of a completed node: its shape, as far as the validation of designated paths
   looks at it (extractOption: a path may continue below a node only if the node is a graph,
   and the rest of the path is validated by that graph) *)
Inductive dshape := DLeaf | DSub (children : list (N * dshape)).

Inductive rnode :=
| RLambda (uid : ukey) (key : N) (inf : info) (natives : N) (fails : bool) (intr : nat)
    (* the next [intr] executions return InterruptAndRerun; after that it fails or not *)
| RPass (uid : ukey) (key : N)
| RDone (uid : ukey) (key : N) (sh : dshape)      (* completed in an earlier run of the sequence *)
| RSub (uid : ukey) (key : N) (inf : info) (stages : list (list rnode))
| RTools (uid : ukey) (key : N) (inf : info) (calls : list rcall)
| RStop (armed : nat)
| RFault (delay : nat).
    (* a configured interrupt point (compile options WithInterruptBeforeNodes / WithInterruptAfterNodes
       of the graph of this level), a stage of its own between the stage after which and the stage
       before which the run stops: while armed the run that arrives here is interrupted (no node
       asked for it, none has failed: handleInterrupt), the run that resumes it passes
       (restoreTasks does not look at the interrupt points again) *)
    (* [RFault delay] - a stage of its own, the FIRST stage of a nested graph: the prologue of that graph's
       runner.run fails (its checkpoint, handed down in the context by the run that resumes, cannot be
       restored: restoreCheckPoint / the state modifier / restoreTasks - a newer build of the nested graph
       has no node for a pending task) in the execution that comes after [delay] interrupted executions of
       the nested graph.  Until then it is nothing.  When it strikes nothing of the nested graph executes:
       the graph of that level reports its start and its error (the deferred bookkeeping), the enclosing
       node has failed.  For the callback operations this is [GStop] - a stage at which the run of that
       level ends with an error before anything (more) executes -, but the outcome is a failure, not an
       interrupt: the sequence ends.  (The prologue of the TOP-level graph failing: [prologue_fault] below.) *)

Definition rnode_key (n : rnode) : N :=
  match n with
  | RLambda _ k _ _ _ _ => k | RPass _ k => k | RDone _ k _ => k | RSub _ k _ _ => k | RTools _ k _ _ => k
  | RStop _ => 0%N
  | RFault _ => 0%N
  end.
Definition rnode_uid (n : rnode) : ukey :=
  match n with
  | RLambda u _ _ _ _ _ => u | RPass u _ => u | RDone u _ _ => u | RSub u _ _ _ => u | RTools u _ _ _ => u
  | RStop _ => 0%N
  | RFault _ => 0%N
  end.
Definition rnode_is_node (n : rnode) : bool := match n with RStop _ => false | RFault _ => false | _ => true end.

Definition call_intr (c : rcall) : bool := match snd c with O => false | S _ => true end.
Definition proj_call (c : rcall) : ukey * info * N * bool :=
  let '(cu, cinf, natives, fails, intr) := c in (cu, cinf, natives, match intr with O => fails | S _ => true end).

(* the graph the next run executes: the nodes that have not completed; an execution that asks
   for an interrupt ends with an error *)
Fixpoint proj (n : rnode) : list gnode :=
  match n with
  | RLambda uid key inf natives fails intr =>
      [GLambda uid key inf natives (match intr with O => fails | S _ => true end)]
  | RPass uid key => [GPass uid key]
  | RDone uid key sh => []
  | RSub uid key inf stages => [GSub uid key inf (map (flat_map proj) stages)]
  | RTools uid key inf calls => [GTools uid key inf (map proj_call calls)]
  | RStop armed => match armed with O => [] | S _ => [GStop] end
  | RFault delay => match delay with O => [GStop] | S _ => [] end
  end.
Definition proj_stages (stages : list (list rnode)) : list (list gnode) := map (flat_map proj) stages.

Fixpoint shape_of (n : rnode) : dshape :=
  match n with
  | RSub _ _ _ stages => DSub (List.concat (map (map (fun m => (rnode_key m, shape_of m))) stages))
  | RDone _ _ sh => sh
  | _ => DLeaf
  end.

(* the rest [tl] of a designated path is accepted below a node of this shape *)
Fixpoint shape_valid (sh : dshape) (tl : list N) {struct tl} : bool :=
  match tl with
  | [] => true
  | k :: tl' =>
      match sh with
      | DLeaf => false
      | DSub cs =>
          match find (fun c : N * dshape => N.eqb (fst c) k) cs with
          | None => false
          | Some c => shape_valid (snd c) tl'
          end
      end
  end.

(* the designated path p leads to a node that is still to be executed (or to no node at all, or
   not validly below a completed node: then it stays, and is rejected as before) *)
Fixpoint path_live_node (n : rnode) (tl : list N) {struct n} : bool :=
  match n with
  | RDone _ _ sh => negb (shape_valid sh tl)
  | RSub _ _ _ stages =>
      match tl with
      | [] => true
      | k :: tl' =>
          (fix in_stages (sts : list (list rnode)) : bool :=
             match sts with
             | [] => true
             | st :: sts' =>
                 (fix in_stage (ns : list rnode) : bool :=
                    match ns with
                    | [] => in_stages sts'
                    | m :: ns' => if rnode_is_node m && N.eqb (rnode_key m) k then path_live_node m tl' else in_stage ns'
                    end) st
             end) stages
      end
  | _ => true
  end.
Definition path_live (stages : list (list rnode)) (p : list N) : bool :=
  match p with
  | [] => true
  | k :: tl =>
      match find (fun m => rnode_is_node m && N.eqb (rnode_key m) k) (List.concat stages) with
      | None => true
      | Some m => path_live_node m tl
      end
  end.
Definition live_opts (stages : list (list rnode)) (opts : list copt) : list copt :=
  flat_map (fun o : copt =>
    match snd o with
    | [] => [o]
    | ps => match filter (path_live stages) ps with [] => [] | ps' => [(fst o, ps')] end
    end) opts.

(* how an execution ends *)
Inductive outcome := OutOk | OutFail | OutIntr.
Definition is_intr (o : outcome) : bool := match o with OutIntr => true | _ => false end.
Definition is_fail (o : outcome) : bool := match o with OutFail => true | _ => false end.

(* runner.run: the first stage in which something does not complete decides: a failure of any
   node fails the run (resolveInterruptCompletedTasks returns the error), otherwise the run is
   interrupted after the whole stage (waitAll) *)
Fixpoint stages_outcome (os : list (list outcome)) : outcome :=
  match os with
  | [] => OutOk
  | st :: os' =>
      if existsb is_fail st then OutFail
      else if existsb is_intr st then OutIntr
      else stages_outcome os'
  end.

(* ToolsNode.Invoke / Stream: the error of the first call, in the order of the message, that has one *)
Fixpoint calls_outcome (calls : list rcall) : outcome :=
  match calls with
  | [] => OutOk
  | (_, _, _, fails, intr) :: cs =>
      match intr with
      | S _ => OutIntr
      | O => if fails then OutFail else calls_outcome cs
      end
  end.

Fixpoint node_outcome (opts : list copt) (n : rnode) {struct n} : outcome :=
  match n with
  | RLambda _ _ _ _ fails intr => match intr with S _ => OutIntr | O => if fails then OutFail else OutOk end
  | RPass _ _ => OutOk
  | RDone _ _ _ => OutOk
  | RSub _ key _ stages =>
      let sopts := sub_opts key opts in
      if negb (graph_ok (map (flat_map proj) stages) sopts) then OutFail
      else stages_outcome (map (map (node_outcome sopts)) stages)
  | RTools _ _ _ calls => calls_outcome calls
  | RStop armed => match armed with O => OutOk | S _ => OutIntr end
  | RFault delay => match delay with O => OutFail | S _ => OutOk end
  end.

Definition run_outcome (opts : list copt) (stages : list (list rnode)) : outcome :=
  if negb (graph_ok (proj_stages stages) opts) then OutFail
  else stages_outcome (map (map (node_outcome opts)) stages).

(* ------------------------------------------------------------------ the plan after an interrupted run *)

Definition done_of (n : rnode) : rnode :=
  match n with
  | RStop _ => RStop 0     (* an interrupt point that has been passed stays what it is: no node *)
  | RFault delay => RFault (pred delay)   (* one more interrupted execution of the nested graph has passed *)
  | _ => RDone (rnode_uid n) (rnode_key n) (shape_of n)
  end.

Definition resume_call (c : rcall) : rcall :=
  let '(cu, cinf, natives, fails, intr) := c in (cu, cinf, natives, fails, pred intr).

(* [rs] pairs every node of the stage list with its own resumption; the stages before the
   interrupted one have completed, the interrupted stage keeps the nodes that asked for the
   interrupt (resumed), the later stages are untouched *)
Fixpoint resume_walk (os : list (list (rnode * outcome * rnode))) : list (list rnode) :=
  match os with
  | [] => []
  | st :: os' =>
      if existsb (fun x => is_intr (snd (fst x))) st
      then map (fun x => if is_intr (snd (fst x)) then snd x else done_of (fst (fst x))) st
           :: map (map (fun x => fst (fst x))) os'
      else map (fun x => done_of (fst (fst x))) st :: resume_walk os'
  end.

Fixpoint resume_node (opts : list copt) (n : rnode) {struct n} : rnode :=
  match n with
  | RLambda uid key inf natives fails intr => RLambda uid key inf natives fails (pred intr)
  | RPass uid key => RDone uid key DLeaf
  | RDone uid key sh => RDone uid key sh
  | RSub uid key inf stages =>
      let sopts := sub_opts key opts in
      RSub uid key inf
        (resume_walk (map (map (fun m => (m, node_outcome sopts m, resume_node sopts m))) stages))
  | RTools uid key inf calls => RTools uid key inf (map resume_call calls)   (* the whole node again *)
  | RStop armed => RStop (pred armed)
  | RFault delay => RFault delay
  end.

Definition resume_stages (opts : list copt) (stages : list (list rnode)) : list (list rnode) :=
  resume_walk (map (map (fun m => (m, node_outcome opts m, resume_node opts m))) stages).

(* what a run with plan [stages] executes: the options that still matter and the graph *)
Definition run_of (opts : list copt) (stages : list (list rnode)) : list copt * list (list gnode) :=
  (live_opts stages opts, proj_stages stages).
(* interrupts still to come *)
Fixpoint node_intr (n : rnode) : nat :=
  match n with
  | RLambda _ _ _ _ _ intr => intr
  | RPass _ _ => 0
  | RDone _ _ _ => 0
  | RSub _ _ _ stages =>
      list_sum (map (fun st => list_sum (map node_intr st)) stages)
  | RTools _ _ _ calls => list_sum (map (fun c : rcall => snd c) calls)
  | RStop armed => armed
  | RFault _ => 0
  end.
Definition total_intr (stages : list (list rnode)) : nat :=
  list_sum (map (fun st => list_sum (map node_intr st)) stages).

Fixpoint ruids (n : rnode) : list ukey :=
  match n with
  | RLambda uid _ _ _ _ _ => [uid]
  | RPass uid _ => [uid]
  | RDone uid _ _ => [uid]
  | RSub uid _ _ stages => uid :: flat_map (flat_map ruids) stages
  | RTools uid _ _ calls => uid :: map (fun c : rcall => fst (fst (fst (fst c)))) calls
  | RStop _ => []
  | RFault _ => []
  end.
Definition rstages_uids (stages : list (list rnode)) : list ukey := flat_map (flat_map ruids) stages.

(* ------------------------------------------------------------------ every run with call options of its own *)

(* The handlers are given with the call: the run that resumes an interrupted run is served the
   options of ITS call, not those of the interrupted one (nothing about handlers is kept in the
   checkpoint).  [os k] = the call options of the k-th run of the sequence.  [fuel] bounds the
   number of runs (Proofs/CallbacksResume.v: S (total_intr stages) is enough, [plan_seqf_complete]). *)
Fixpoint plan_seqf (fuel k : nat) (os : nat -> list copt) (stages : list (list rnode))
  : list (list copt * list (list rnode)) :=
  match fuel with
  | O => []
  | S f =>
      (os k, stages) ::
      (let lo := live_opts stages (os k) in
       if is_intr (run_outcome lo stages) then plan_seqf f (S k) os (resume_stages lo stages) else [])
  end.

Definition run_seqf (fuel : nat) (os : nat -> list copt) (stages : list (list rnode))
  : list (list copt * list (list gnode)) :=
  map (fun op => run_of (fst op) (snd op)) (plan_seqf fuel 0 os stages).

(* the first run called with o1, the resuming ones with o2 *)
Definition two_opts (o1 o2 : list copt) (k : nat) : list copt := match k with O => o1 | S _ => o2 end.

(* ------------------------------------------------------------------ a resuming run that fails in its prologue *)

(* runner.run can fail before it submits its first task: a call option is rejected (extractOption), the
   checkpoint cannot be read (getCheckPointFromStore: the store fails, the bytes do not decode), cannot
   be restored (restoreCheckPoint, loadChannels, the state modifier fails), or its pending tasks belong
   to no node of the graph that resumes it (restoreTasks: "channel[..] from checkpoint is not registered" -
   the checkpoint was written by another build of the graph).  Every one of these leaves runner.run by
   [return nil, newGraphRunError(..)] before the main loop; what the handlers see is the deferred
   bookkeeping's work: the graph's start, then the graph's error, once each ([graph_body] with ok = false;
   the translator tie gen_graph_bookkeeping_agrees shows it for every such path of the code).  The model
   has one way of saying "the prologue of this run fails": a call option that extractOption rejects and
   that carries no handler - an empty designated path. *)
Definition prologue_fault : copt := ([], [[]]).

(* the [at_run]-th call of the sequence (counted from 0; 0 = no such call: the first call resumes nothing)
   fails in its prologue *)
Definition with_fault (at_run : nat) (os : nat -> list copt) (k : nat) : list copt :=
  if Nat.ltb 0 at_run && Nat.eqb k at_run then prologue_fault :: os k else os k.
