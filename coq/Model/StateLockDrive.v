(* Model/StateLockDrive.v — C11: replay of an observed log on the transition system.
   The harness observes, through the public API, the global log of critical sections in
   the order in which they happened (sequence number taken inside the section) and the
   resume markers. [drive] makes the transition system of Model/StateLockLTS.v, instantiated
   with the state type and the user functions of the harness, perform exactly these
   critical sections in this order (silent moves are performed eagerly in between, which
   loses no behaviour of [pstep]); it fails if the system cannot perform them. The result
   is a configuration reachable by [pstep] (Proofs/StateLockDrive.v), so every theorem
   about reachable configurations speaks about it; Corr/C11.v compares what it contains
   (values in and out of every section, state seen, final value of every object, results,
   generator calls, object identities) with what was observed.
   Definitions only. *)
From Eino Require Import Base.Util Model.StateLock Model.StateLockLTS.
Open Scope N_scope.

Definition cfg := config sstate X.

Inductive dres := DOk (c : cfg) | DBad (why : N).
(* why: 1 unknown node, 2 the run cannot be started, 3 no instance of the node's graph in
   this run (the enclosing graph node has not started it), 4 the critical section is not
   enabled (order violated, or no state visible), 5 another critical section of that node
   is due, 6 resume: no such stateful instance, 7 resume: the snapshot differs from the
   model's state at the interrupt, 8 resume: modifier applied to a graph whose state is not
   in the checkpoint *)

Section Drive.
  Variable f : forest.
  Variable x0 : X.

  Notation pstp := (pstep sstate X gen_state cs_fun leaf_out merge f x0).

  Definition sat_fuel : nat := 6 * List.length (List.concat (map g_nodes f)) + 6.
  Definition sat (c : cfg) : cfg := saturate sstate X gen_state cs_fun leaf_out merge f x0 sat_fuel c.

  Definition drive_event (c : cfg) (e : event) : dres :=
    match find_node f (e_node e) with
    | None => DBad 1
    | Some (gi, _) =>
      match ensure_run sstate X gen_state cs_fun leaf_out merge f x0 c (e_run e) with
      | None => DBad 2
      | Some c1 =>
        let c2 := sat c1 in
        match find_inst sstate X c2 (e_run e) gi with
        | None => DBad 3
        | Some i =>
          match lookup sstate X f c2 i (e_node e) with
          | Some (_, a, mkNs p None) =>
            match next_cs X a p with
            | Some k =>
                if kind_eqb k (e_kind e) then
                  match do_cs sstate X gen_state cs_fun leaf_out merge f x0 c2 i (e_node e) with
                  | Some c3 => DOk c3
                  | None => DBad 4
                  end
                else DBad 5
            | None => DBad 4
            end
          | _ => DBad 4
          end
        end
      end
    end.

  Definition nat_mem (g : nat) (l : list nat) : bool := existsb (Nat.eqb g) l.

  (* the state of graph g of run r is in the checkpoint with value s: the model's object
     must hold that value, and resume replaces it *)
  Definition drive_snap (mods : list nat) (r : N) (c : cfg) (gs : nat * sstate) : dres :=
    let '(g, s) := gs in
    match find_inst sstate X c r g with
    | None => DBad 6
    | Some i =>
      match nth_error (c_insts c) i with
      | None => DBad 6
      | Some J =>
        if negb (stateful sstate X f J) then DBad 6 else
        match i_obj J with
        | None => DBad 6
        | Some o =>
          match nth_error (c_objs c) o with
          | None => DBad 6
          | Some ro =>
            if negb (s_eqb (o_val ro) s) then DBad 7 else
            match pstp c (ChResume o (if nat_mem g mods then modifier else (fun s => s))) with
            | Some c' => DOk c'
            | None => DBad 6
            end
          end
        end
      end
    end.

  Fixpoint drive_snaps (mods : list nat) (r : N) (c : cfg) (snaps : list (nat * sstate)) : dres :=
    match snaps with
    | [] => DOk c
    | gs :: snaps' => match drive_snap mods r c gs with
                      | DOk c' => drive_snaps mods r c' snaps'
                      | bad => bad
                      end
    end.

  Definition drive_resume (c : cfg) (r : N) (mods : list nat) (snaps : list (nat * sstate)) : dres :=
    if negb (forallb (fun g => nat_mem g (map fst snaps)) mods) then DBad 8
    else match ensure_run sstate X gen_state cs_fun leaf_out merge f x0 c r with
         | None => DBad 2          (* an interrupt can precede the first critical section *)
         | Some c1 => drive_snaps mods r (sat c1) snaps
         end.

  Fixpoint drive_items (c : cfg) (l : list item) : dres :=
    match l with
    | [] => DOk c
    | IEv e :: l' => match drive_event c e with DOk c' => drive_items c' l' | bad => bad end
    | IResume r mods snaps :: l' =>
        match drive_resume c r mods snaps with DOk c' => drive_items c' l' | bad => bad end
    end.

  (* every run is started (a run without any critical section leaves no trace in the log) *)
  Fixpoint start_runs (c : cfg) (rs : list N) : dres :=
    match rs with
    | [] => DOk c
    | r :: rs' => match ensure_run sstate X gen_state cs_fun leaf_out merge f x0 c r with
                  | Some c' => start_runs c' rs'
                  | None => DBad 2
                  end
    end.

  Definition drive (runs : N) (l : list item) : dres :=
    match drive_items (init_cfg sstate X) l with
    | DOk c => match start_runs c (map N.of_nat (seq 0 (N.to_nat runs))) with
               | DOk c' => DOk (sat c')
               | bad => bad
               end
    | bad => bad
    end.

  (* ---------------------------------------------------------------- projections compared with the observation *)

  Definition run_of (c : cfg) (i : nat) : N :=
    match nth_error (c_insts c) i with Some J => i_run J | None => 999999 end.

  (* does trace entry t match observed event e (everything but the object identity) *)
  Definition entry_matches (c : cfg) (t : tentry sstate X) (e : event) : bool :=
    N.eqb (run_of c (t_inst t)) (e_run e) && N.eqb (n_id (t_node t)) (e_node e) &&
    kind_eqb (t_kind t) (e_kind e) && x_eqb (t_x t) (e_in e) && x_eqb (t_out t) (e_out e) &&
    Z.eqb (s_total (t_seen t)) (e_seen e).

  Definition events_of (l : list item) : list event :=
    flat_map (fun it => match it with IEv e => [e] | _ => [] end) l.

  Fixpoint all2 {A B} (p : A -> B -> bool) (l1 : list A) (l2 : list B) : bool :=
    match l1, l2 with
    | [], [] => true
    | a :: l1', b :: l2' => p a b && all2 p l1' l2'
    | _, _ => false
    end.

  (* (observed pointer index, model object index) of every section *)
  Definition obj_pairs (c : cfg) (l : list item) : list (N * nat) :=
    combine (map e_obj (events_of l)) (map (@t_obj sstate X) (c_trace c)).

  (* same pointer <-> same model object *)
  Definition bijective (ps : list (N * nat)) : bool :=
    forallb (fun a => forallb (fun b => Bool.eqb (N.eqb (fst a) (fst b)) (Nat.eqb (snd a) (snd b))) ps) ps.

  Fixpoint pair_get (k : N) (ps : list (N * nat)) : option nat :=
    match ps with
    | [] => None
    | (k', o) :: ps' => if N.eqb k k' then Some o else pair_get k ps'
    end.

  (* the conclusion of no_lost_update, evaluated *)
  Definition fold_ok (c : cfg) : bool :=
    forallb (fun oi => let '(o, r) := oi in
                       s_eqb (o_val r) (apply_all sstate X cs_fun (hist sstate X c o) (o_init r)))
            (combine (seq 0 (List.length (c_objs c))) (c_objs c)).

  (* the conclusion of pre_node_post_order for finished nodes, evaluated *)
  Definition kinds_eqb (a b : list kind) : bool := l_eqb kind_eqb a b.
  Definition order_done_ok (c : cfg) : bool :=
    forallb (fun iJ => let '(i, J) := iJ in
      match nth_error f (i_graph J) with
      | None => false
      | Some G =>
        forallb (fun a => match get_ns sstate X J (n_id a) with
                          | Some (mkNs (PFin _) None) => kinds_eqb (node_tr sstate X c i (n_id a)) (full_kinds a)
                          | Some _ => true
                          | None => false
                          end) (g_nodes G)
      end) (combine (seq 0 (List.length (c_insts c))) (c_insts c)).

  (* the conclusions of acquisition_order (all locks are free at the end) and of the
     generator-call clause of fresh_state_per_run_and_nesting, evaluated *)
  Definition key_eqb (a b : nat * N * kind) : bool :=
    Nat.eqb (fst (fst a)) (fst (fst b)) && N.eqb (snd (fst a)) (snd (fst b)) && kind_eqb (snd a) (snd b).
  Definition acq_ok (c : cfg) : bool :=
    forallb (fun oi => let '(o, r) := oi in
                       match o_holder r with
                       | None => l_eqb key_eqb (acq_of sstate X c o) (done_of sstate X c o)
                       | Some _ => false
                       end)
            (combine (seq 0 (List.length (c_objs c))) (c_objs c)).
  (* the conclusion of one_run_per_object, evaluated: every logged section was performed by an
     instance of the run of the instance its object was made for *)
  Definition run_iso_ok (c : cfg) : bool :=
    forallb (fun e => match nth_error (c_objs c) (t_obj e) with
                      | Some r => N.eqb (run_of c (o_inst r)) (run_of c (t_inst e))
                      | None => false
                      end) (c_trace c).
  Definition gens_ok (c : cfg) : bool :=
    l_eqb Nat.eqb (c_gens c) (flat_map (ogen sstate) (c_objs c)).
End Drive.
