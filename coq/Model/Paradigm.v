(* Model/Paradigm.v — property C04, part 1: the four calling paradigms of one
   executable object and how the missing ones are derived from the implemented ones.

   Source: /repo/compose/runnable.go
     newRunnablePacker      (lines 377-441)  which native implementation each of the four
                                             views is built from, in which order of preference
     invokeByStream ... transformByInvoke    (lines 187-375)  the twelve adapters
     concatStreamReader     (stream_concat.go 51-85)  read to EOF, first error item wins,
                                             0 items = error, 1 item = that item, else ConcatItems

   A stream is the list of items a reader would receive until EOF: values and error
   items (schema.StreamReader delivers an error as an item; the stream may go on after
   it, concatStreamReader stops at the first one).  A call has a call-time result
   ([res]): [Err] = the call itself returned an error, [Ok s] = it returned a reader.

   Definitions only (executable); everything is generic in the input chunk type [A],
   the output chunk type [B] and the two chunk concatenations. *)
From Eino Require Import Base.Util.

Inductive par : Type := PI | PS | PC | PT.

Definition par_eqb (a b : par) : bool :=
  match a, b with PI, PI | PS, PS | PC, PC | PT, PT => true | _, _ => false end.

Inductive item (X : Type) : Type :=
| Val (x : X)
| Bad (e : N).
Arguments Val {X} x.
Arguments Bad {X} e.

Definition stream (X : Type) : Type := list (item X).

(* error tags used by the model (classes, never messages) *)
Definition e_empty  : N := 1.   (* "stream reader is empty, concat fail"            *)
Definition e_none   : N := 2.   (* no native implementation at all (excluded: derive_total) *)
Definition e_type   : N := 3.   (* a value outside the model's typed universe        *)
Definition e_dupkey : N := 4.   (* mergeMap: duplicated key                          *)
Definition e_nokey  : N := 5.   (* cannot find input key                             *)
Definition e_branch : N := 6.   (* branch returned an unknown end node               *)
Definition e_node   : N := 7.   (* a node chosen to fail                             *)
Definition e_fuel   : N := 8.   (* the model's loop bound was exhausted (excluded by dom_ok) *)

(* the values a reader delivers before the first error item; the error if there is one *)
Fixpoint vals_of {X} (s : stream X) : res (list X) :=
  match s with
  | [] => Ok []
  | Val x :: s' => do xs <- vals_of s'; Ok (x :: xs)
  | Bad e :: _ => Err e
  end.

(* concatStreamReader *)
Definition sconcat {X} (concat : list X -> res X) (s : stream X) : res X :=
  do xs <- vals_of s;
  match xs with
  | [] => Err e_empty
  | [x] => Ok x
  | _ => concat xs
  end.

(* schema.StreamReaderFromArray([]T{x}) *)
Definition box {X} (x : X) : stream X := [Val x].

(* concatenation of the stream a call returned, a call-time error staying an error *)
Definition sconcatR {X} (concat : list X -> res X) (r : res (stream X)) : res X :=
  do s <- r; sconcat concat s.

(* ------------------------------------------------------------------ derivation table *)

(* newRunnablePacker, the four if/else-if chains: for the target paradigm, the native
   implementations in the order they are tried. *)
Definition order (target : par) : list par :=
  match target with
  | PI => [PI; PS; PC; PT]
  | PS => [PS; PT; PI; PC]
  | PC => [PC; PT; PI; PS]
  | PT => [PT; PS; PC; PI]
  end.

Section Views.
  Variables A B : Type.
  Variable concatA : list A -> res A.
  Variable concatB : list B -> res B.

  (* an executable object: the subset of the four paradigms it implements natively *)
  Record node : Type := {
    nI : option (A -> res B);
    nS : option (A -> res (stream B));
    nC : option (stream A -> res B);
    nT : option (stream A -> res (stream B))
  }.

  Definition is_some {X} (o : option X) : bool := match o with Some _ => true | None => false end.

  Definition has (n : node) (p : par) : bool :=
    match p with
    | PI => is_some (nI n) | PS => is_some (nS n) | PC => is_some (nC n) | PT => is_some (nT n)
    end.

  Definition has_any (n : node) : bool := has n PI || has n PS || has n PC || has n PT.

  (* which native implementation the view [target] ends up calling *)
  Definition used (n : node) (target : par) : option par := find (has n) (order target).

  Definition callI (n : node) (x : A) : res B :=
    match nI n with Some f => f x | None => Err e_none end.
  Definition callS (n : node) (x : A) : res (stream B) :=
    match nS n with Some f => f x | None => Err e_none end.
  Definition callC (n : node) (s : stream A) : res B :=
    match nC n with Some f => f s | None => Err e_none end.
  Definition callT (n : node) (s : stream A) : res (stream B) :=
    match nT n with Some f => f s | None => Err e_none end.

  (* rp.i : i | invokeByStream s | invokeByCollect c | invokeByTransform t *)
  Definition view_I (n : node) (x : A) : res B :=
    match used n PI with
    | Some PI => callI n x
    | Some PS => do s <- callS n x; sconcat concatB s
    | Some PC => callC n (box x)
    | Some PT => do s <- callT n (box x); sconcat concatB s
    | None => Err e_none
    end.

  (* rp.s : s | streamByTransform t | streamByInvoke i | streamByCollect c *)
  Definition view_S (n : node) (x : A) : res (stream B) :=
    match used n PS with
    | Some PS => callS n x
    | Some PT => callT n (box x)
    | Some PI => do y <- callI n x; Ok (box y)
    | Some PC => do y <- callC n (box x); Ok (box y)
    | None => Err e_none
    end.

  (* rp.c : c | collectByTransform t | collectByInvoke i | collectByStream s *)
  Definition view_C (n : node) (s : stream A) : res B :=
    match used n PC with
    | Some PC => callC n s
    | Some PT => do o <- callT n s; sconcat concatB o
    | Some PI => do x <- sconcat concatA s; callI n x
    | Some PS => do x <- sconcat concatA s; do o <- callS n x; sconcat concatB o
    | None => Err e_none
    end.

  (* rp.t : t | transformByStream s | transformByCollect c | transformByInvoke i *)
  Definition view_T (n : node) (s : stream A) : res (stream B) :=
    match used n PT with
    | Some PT => callT n s
    | Some PS => do x <- sconcat concatA s; callS n x
    | Some PC => do y <- callC n s; Ok (box y)
    | Some PI => do x <- sconcat concatA s; do y <- callI n x; Ok (box y)
    | None => Err e_none
    end.

  (* all four views at once; [None] iff some view has nothing to be derived from *)
  Record views : Type := {
    vI : A -> res B;
    vS : A -> res (stream B);
    vC : stream A -> res B;
    vT : stream A -> res (stream B)
  }.

  Definition derive (n : node) : option views :=
    match used n PI, used n PS, used n PC, used n PT with
    | Some _, Some _, Some _, Some _ =>
        Some {| vI := view_I n; vS := view_S n; vC := view_C n; vT := view_T n |}
    | _, _, _, _ => None
    end.
End Views.

Arguments nI {A B} n.
Arguments nS {A B} n.
Arguments nC {A B} n.
Arguments nT {A B} n.
Arguments has {A B} n p.
Arguments has_any {A B} n.
Arguments used {A B} n target.
Arguments callI {A B} n x.
Arguments callS {A B} n x.
Arguments callC {A B} n s.
Arguments callT {A B} n s.
Arguments view_I {A B} concatB n x.
Arguments view_S {A B} n x.
Arguments view_C {A B} concatA concatB n s.
Arguments view_T {A B} concatA n s.
Arguments derive {A B} concatA concatB n.
Arguments Build_node {A B} nI nS nC nT.

(* two results agree: the same value, or both failures (error class is not compared:
   the property only asks that a failure be a failure in every paradigm) *)
Definition agree {X} (a b : res X) : Prop :=
  match a, b with
  | Ok x, Ok y => x = y
  | Ok _, _ | _, Ok _ => False
  | _, _ => True
  end.
