(* Model/ToolsGenLib.v — vocabulary of the translator tie of property C17: what the Go constructs that
   tools/go2v (extractor "toolnode") finds in compose/tool_node.go mean in Gallina.  Definitions only.
   Gen/ToolNode.v (generated on every run) is written in this vocabulary; Proofs/GenAgreeC17.v proves
   the generated functions equal to the model's (Model/Tools.v, Model/ToolsOpts.v, Model/ToolsPar.v).

   Go slices are lists; a read or write out of range panics (sl_get / sl_set / sl_upd), make with a
   negative length panics; ints are Z; a counted loop runs its body for i = a, a+1, ..., b-1 over
   the outer variables the body assigns (for_up; for_down for i = a, a-1, ..., b); an error return
   is [Err], the k-th error made in function f (errors.New / fmt.Errorf without %w, in source order)
   is [e_at f k], fmt.Errorf with %w keeps the class of the error it wraps (ret_err).
   Pointer-typed fields and slice elements are options (nil = None); a map is the list of its assignments,
   latest first (m[k] = v puts (k, v) in front, a lookup finds the first entry of the key); a slice that the code
   tests against nil is an option (slice_of: its elements, none for nil); interface values of a tool
   (tool.BaseTool seen as tool.InvokableTool / tool.StreamableTool) are the tool itself, or nil.
   context.Context is reduced to what the tools node stores in it: the tool call id. *)
From Eino Require Import Base.Util Model.Tools Model.ToolsPar.
Local Open Scope string_scope.

Definition sl_len {A} (l : list A) : Z := Z.of_nat (List.length l).
Definition sl_get {A} (l : list A) (i : Z) : res A :=
  if (i <? 0)%Z then Panic
  else match nth_error l (Z.to_nat i) with Some a => Ok a | None => Panic end.
Definition sl_set {A} (l : list A) (i : Z) (a : A) : res (list A) :=
  if (i <? 0)%Z then Panic
  else if Nat.ltb (Z.to_nat i) (List.length l) then Ok (set_nth (Z.to_nat i) a l) else Panic.
Definition sl_upd {A} (l : list A) (i : Z) (f : A -> A) : res (list A) :=
  do a <- sl_get l i; sl_set l i (f a).
Definition sl_make {A} (zero : A) (n : Z) : res (list A) :=
  if (n <? 0)%Z then Panic else Ok (repeat zero (Z.to_nat n)).

Fixpoint for_up_n {S} (cnt : nat) (i : Z) (body : Z -> S -> res S) (st : S) : res S :=
  match cnt with
  | O => Ok st
  | S c => do st' <- body i st; for_up_n c (i + 1)%Z body st'
  end.
Definition for_up {S} (a b : Z) (body : Z -> S -> res S) (st : S) : res S :=
  for_up_n (Z.to_nat (b - a)) a body st.
Fixpoint for_down_n {S} (cnt : nat) (i : Z) (body : Z -> S -> res S) (st : S) : res S :=
  match cnt with
  | O => Ok st
  | S c => do st' <- body i st; for_down_n c (i - 1)%Z body st'
  end.
Definition for_down {S} (a b : Z) (body : Z -> S -> res S) (st : S) : res S :=
  for_down_n (Z.to_nat (a - b + 1)) a body st.

Definition is_nil {A} (o : option A) : bool := match o with None => true | Some _ => false end.
Definition gomap (A : Type) : Type := list (string * A).
Definition map_empty {A} : gomap A := [].
Definition map_get {A} (m : gomap A) (k : string) : option A := alist_get k m.
Definition map_set {A} (m : gomap A) (k : string) (v : A) : gomap A := (k, v) :: m.
Definition slice_of {A} (o : option (list A)) : list A := match o with Some l => l | None => [] end.

(* a call of a function value (nil: the call panics) *)
Definition call_func3 {A B C} (f : option (A -> B -> C -> tres)) (a : A) (b : B) (c : C) : tres :=
  match f with Some g => g a b c | None => TPanic end.

(* the errors the node itself makes, by function and ordinal *)
Definition e_at (fn : string) (k : nat) : N :=
  if String.eqb fn "genToolCallTasks" then
    match k with 0%nat => E_ROLE | 1%nat => E_NOCALL | 2%nat => E_UNKNOWN | _ => 0%N end
  else if String.eqb fn "convTools" then
    match k with 0%nat => E_NOTRUNNABLE | _ => 0%N end
  else 0%N.
(* return nil, fmt.Errorf("...%w...", e) *)
Definition ret_err {A} (e : option N) : res A := match e with Some c => Err c | None => Err 0%N end.

(* context.Context: the tool call id it carries (compose.GetToolCallID) *)
Definition CTX : Type := option string.
Record toolCallInfo : Type := mk_toolCallInfo { toolCallInfo_toolCallID : string }.
Definition zero_toolCallInfo : toolCallInfo := mk_toolCallInfo "".
Definition set_toolCallInfo_toolCallID (_ : toolCallInfo) (v : string) : toolCallInfo := mk_toolCallInfo v.
Definition setToolCallInfo (_ : CTX) (i : toolCallInfo) : CTX := Some (toolCallInfo_toolCallID i).
Definition callbacks_ReuseHandlers (ctx : CTX) : CTX := ctx.

(* schema.Message / ToolCall / FunctionCall: the fields the tools node reads *)
Record FunctionCall : Type := mk_FunctionCall { FunctionCall_Name : string; FunctionCall_Arguments : string }.
Record ToolCall : Type := mk_ToolCall { ToolCall_ID : string; ToolCall_Function : FunctionCall }.
Record Message : Type := mk_Message { Message_Role : string; Message_ToolCalls : list ToolCall }.
Definition schema_Assistant : string := "assistant".
(* a tool message: content, tool call id *)
Definition mk_tool_message (content id : string) : tmsg := (content, id).

(* schema.ToolInfo: the field the tools node reads *)
Record ToolInfo : Type := mk_ToolInfo { ToolInfo_Name : string }.
Definition components_ComponentOfTool : unit := tt.

(* a tool's output stream: its chunks and the error item it ends with, if any *)
Definition SR : Type := (list string * option N)%type.
(* schema.StreamReaderWithConvert: the stream with every chunk converted *)
Definition conv_stream (X : Type) : Type := (list (res X) * option N)%type.
Definition StreamReaderWithConvert {X} (sr : option SR) (f : string -> res X) : option (conv_stream X) :=
  option_map (fun s => (map f (fst s), snd s)) sr.
(* schema.MergeStreamReaders: the sources (their interleaving is Model/Tools.v's merge_run) *)
Definition merged_stream (X : Type) : Type := list (option (conv_stream X)).
Definition MergeStreamReaders {X} (l : list (option (conv_stream X))) : merged_stream X := l.

Section Types.
  Variables BT TOPT META RP : Type.

  Record toolsNodeOptions : Type := mk_toolsNodeOptions {
    toolsNodeOptions_ToolOptions : list TOPT;
    toolsNodeOptions_ToolList : option (list BT) }.
  Definition zero_toolsNodeOptions : toolsNodeOptions := mk_toolsNodeOptions [] None.
  Definition set_toolsNodeOptions_ToolOptions (o : toolsNodeOptions) v := mk_toolsNodeOptions v (toolsNodeOptions_ToolList o).
  Definition set_toolsNodeOptions_ToolList (o : toolsNodeOptions) v := mk_toolsNodeOptions (toolsNodeOptions_ToolOptions o) v.

  Record toolsTuple : Type := mk_toolsTuple {
    toolsTuple_indexes : gomap Z;
    toolsTuple_meta : list (option META);
    toolsTuple_rps : list (option RP) }.
  Definition zero_toolsTuple : toolsTuple := mk_toolsTuple [] [] [].
  Definition set_toolsTuple_indexes (t : toolsTuple) v := mk_toolsTuple v (toolsTuple_meta t) (toolsTuple_rps t).
  Definition set_toolsTuple_meta (t : toolsTuple) v := mk_toolsTuple (toolsTuple_indexes t) v (toolsTuple_rps t).
  Definition set_toolsTuple_rps (t : toolsTuple) v := mk_toolsTuple (toolsTuple_indexes t) (toolsTuple_meta t) v.

  Record ToolsNode : Type := mk_ToolsNode {
    ToolsNode_tuple : toolsTuple;
    ToolsNode_unknownToolHandler : option (CTX -> string -> string -> tres) }.
  Definition zero_ToolsNode : ToolsNode := mk_ToolsNode zero_toolsTuple None.
  Definition set_ToolsNode_tuple (n : ToolsNode) v := mk_ToolsNode v (ToolsNode_unknownToolHandler n).
  Definition set_ToolsNode_unknownToolHandler (n : ToolsNode) v := mk_ToolsNode (ToolsNode_tuple n) v.

  Record ToolsNodeConfig : Type := mk_ToolsNodeConfig {
    ToolsNodeConfig_Tools : list BT;
    ToolsNodeConfig_UnknownToolsHandler : option (CTX -> string -> string -> tres) }.

  Record toolCallTask : Type := mk_toolCallTask {
    toolCallTask_r : option RP;
    toolCallTask_meta : option META;
    toolCallTask_name : string;
    toolCallTask_arg : string;
    toolCallTask_callID : string;
    toolCallTask_output : string;
    toolCallTask_sOutput : option SR;
    toolCallTask_err : option N }.
  Definition zero_toolCallTask : toolCallTask := mk_toolCallTask None None "" "" "" "" None None.
  Definition set_toolCallTask_r (t : toolCallTask) v :=
    mk_toolCallTask v (toolCallTask_meta t) (toolCallTask_name t) (toolCallTask_arg t) (toolCallTask_callID t) (toolCallTask_output t) (toolCallTask_sOutput t) (toolCallTask_err t).
  Definition set_toolCallTask_meta (t : toolCallTask) v :=
    mk_toolCallTask (toolCallTask_r t) v (toolCallTask_name t) (toolCallTask_arg t) (toolCallTask_callID t) (toolCallTask_output t) (toolCallTask_sOutput t) (toolCallTask_err t).
  Definition set_toolCallTask_name (t : toolCallTask) v :=
    mk_toolCallTask (toolCallTask_r t) (toolCallTask_meta t) v (toolCallTask_arg t) (toolCallTask_callID t) (toolCallTask_output t) (toolCallTask_sOutput t) (toolCallTask_err t).
  Definition set_toolCallTask_arg (t : toolCallTask) v :=
    mk_toolCallTask (toolCallTask_r t) (toolCallTask_meta t) (toolCallTask_name t) v (toolCallTask_callID t) (toolCallTask_output t) (toolCallTask_sOutput t) (toolCallTask_err t).
  Definition set_toolCallTask_callID (t : toolCallTask) v :=
    mk_toolCallTask (toolCallTask_r t) (toolCallTask_meta t) (toolCallTask_name t) (toolCallTask_arg t) v (toolCallTask_output t) (toolCallTask_sOutput t) (toolCallTask_err t).
  Definition set_toolCallTask_output (t : toolCallTask) v :=
    mk_toolCallTask (toolCallTask_r t) (toolCallTask_meta t) (toolCallTask_name t) (toolCallTask_arg t) (toolCallTask_callID t) v (toolCallTask_sOutput t) (toolCallTask_err t).
  Definition set_toolCallTask_sOutput (t : toolCallTask) v :=
    mk_toolCallTask (toolCallTask_r t) (toolCallTask_meta t) (toolCallTask_name t) (toolCallTask_arg t) (toolCallTask_callID t) (toolCallTask_output t) v (toolCallTask_err t).
  Definition set_toolCallTask_err (t : toolCallTask) v :=
    mk_toolCallTask (toolCallTask_r t) (toolCallTask_meta t) (toolCallTask_name t) (toolCallTask_arg t) (toolCallTask_callID t) (toolCallTask_output t) (toolCallTask_sOutput t) v.
End Types.

Arguments mk_toolsNodeOptions {BT TOPT} _ _.
Arguments toolsNodeOptions_ToolOptions {BT TOPT} _.
Arguments toolsNodeOptions_ToolList {BT TOPT} _.
Arguments zero_toolsNodeOptions {BT TOPT}.
Arguments set_toolsNodeOptions_ToolOptions {BT TOPT} _ _.
Arguments set_toolsNodeOptions_ToolList {BT TOPT} _ _.
Arguments mk_toolsTuple {META RP} _ _ _.
Arguments toolsTuple_indexes {META RP} _.
Arguments toolsTuple_meta {META RP} _.
Arguments toolsTuple_rps {META RP} _.
Arguments zero_toolsTuple {META RP}.
Arguments set_toolsTuple_indexes {META RP} _ _.
Arguments set_toolsTuple_meta {META RP} _ _.
Arguments set_toolsTuple_rps {META RP} _ _.
Arguments zero_ToolsNode {META RP}.
Arguments set_ToolsNode_tuple {META RP} _ _.
Arguments set_ToolsNode_unknownToolHandler {META RP} _ _.
Arguments mk_ToolsNodeConfig {BT} _ _.
Arguments ToolsNodeConfig_Tools {BT} _.
Arguments ToolsNodeConfig_UnknownToolsHandler {BT} _.
Arguments mk_ToolsNode {META RP} _ _.
Arguments ToolsNode_tuple {META RP} _.
Arguments ToolsNode_unknownToolHandler {META RP} _.
Arguments mk_toolCallTask {META RP} _ _ _ _ _ _ _ _.
Arguments toolCallTask_r {META RP} _.
Arguments toolCallTask_meta {META RP} _.
Arguments toolCallTask_name {META RP} _.
Arguments toolCallTask_arg {META RP} _.
Arguments toolCallTask_callID {META RP} _.
Arguments toolCallTask_output {META RP} _.
Arguments toolCallTask_sOutput {META RP} _.
Arguments toolCallTask_err {META RP} _.
Arguments zero_toolCallTask {META RP}.
Arguments set_toolCallTask_r {META RP} _ _.
Arguments set_toolCallTask_meta {META RP} _ _.
Arguments set_toolCallTask_name {META RP} _ _.
Arguments set_toolCallTask_arg {META RP} _ _.
Arguments set_toolCallTask_callID {META RP} _ _.
Arguments set_toolCallTask_output {META RP} _ _.
Arguments set_toolCallTask_sOutput {META RP} _ _.
Arguments set_toolCallTask_err {META RP} _ _.
