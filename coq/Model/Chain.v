(* Model/Chain.v — Chain front end: lowering of a list of stages to a graph, as
   compose/chain.go does (addNode, AppendParallel, AppendBranch, addEndIfNeeded), and the
   specification of a chain as sequential function composition ([eval_chain]).
   Node keys are explicit (the harness passes WithNodeKey), so key generation is not modelled. *)
From Eino Require Import Base.Util Model.Graph.
Open Scope N_scope.

Record snode := { sn_key : key; sn_kind : nkind; sn_outkey : option N }.

Inductive stage :=
| SNode (n : snode)                                  (* Append<Component> / AppendGraph / AppendPassthrough *)
| SPar (ns : list snode)                             (* AppendParallel: every node has an output key        *)
| SBranch (ns : list snode) (table : list (list key)). (* AppendBranch: condition table over the node keys    *)

(* one entry of a forest as the harness describes it *)
Inductive gdef :=
| GGraph (g : graph)
| GChain (stages : list stage) (max : nat).

Definition node_of (s : snode) : node :=
  {| n_key := sn_key s; n_kind := sn_kind s; n_outkey := sn_outkey s;
     n_dsucc := []; n_csucc := []; n_dmap := []; n_branches := [] |}.

Definition start_node : node :=
  {| n_key := kSTART; n_kind := KLambda; n_outkey := None;
     n_dsucc := []; n_csucc := []; n_dmap := []; n_branches := [] |}.

(* AddEdge(from, to): data + control *)
Definition add_edge (from to : key) (ns : list node) : list node :=
  map (fun n => if N.eqb (n_key n) from
                then {| n_key := n_key n; n_kind := n_kind n; n_outkey := n_outkey n;
                        n_dsucc := n_dsucc n ++ [to]; n_csucc := n_csucc n ++ [to];
                        n_dmap := n_dmap n; n_branches := n_branches n |}
                else n) ns.

Definition add_branch (from : key) (b : branch) (ns : list node) : list node :=
  map (fun n => if N.eqb (n_key n) from
                then {| n_key := n_key n; n_kind := n_kind n; n_outkey := n_outkey n;
                        n_dsucc := n_dsucc n; n_csucc := n_csucc n;
                        n_dmap := n_dmap n; n_branches := n_branches n ++ [b] |}
                else n) ns.

(* the single predecessor a Parallel / Branch is attached to *)
Definition single_prev (prev : list key) : option key :=
  match prev with
  | [] => Some kSTART
  | [p] => Some p
  | _ => None                      (* "multiple previous nodes": the chain reports an error *)
  end.

(* state: nodes so far (START first), preNodeKeys *)
Fixpoint lower_stages (sts : list stage) (ns : list node) (prev : list key) : option (list node * list key) :=
  match sts with
  | [] => Some (ns, prev)
  | SNode s :: rest =>
      let froms := match prev with [] => [kSTART] | _ => prev end in
      let ns1 := ns ++ [node_of s] in
      let ns2 := fold_left (fun acc p => add_edge p (sn_key s) acc) froms ns1 in
      lower_stages rest ns2 [sn_key s]
  | SPar ss :: rest =>
      match single_prev prev with
      | None => None
      | Some p =>
        let ns1 := fold_left (fun acc s => add_edge p (sn_key s) (acc ++ [node_of s])) ss ns in
        lower_stages rest ns1 (map sn_key ss)
      end
  | SBranch ss table :: rest =>
      match single_prev prev with
      | None => None
      | Some p =>
        let ns1 := ns ++ map node_of ss in
        let b := {| b_ends := map sn_key ss; b_nodata := false; b_table := table |} in
        lower_stages rest (add_branch p b ns1) (map sn_key ss)
      end
  end.

(* Chain.compile = addEndIfNeeded + graph.compile (any-predecessor mode) *)
Definition chain_lower (sts : list stage) (max : nat) : option graph :=
  match lower_stages sts [start_node] [] with
  | Some (ns, (_ :: _) as prev) =>
      Some {| g_nodes := fold_left (fun acc p => add_edge p kEND acc) prev ns;
              g_mode := Pregel; g_eager := false; g_max := max |}
  | _ => None
  end.

Definition empty_graph : graph := {| g_nodes := []; g_mode := Pregel; g_eager := false; g_max := 0 |}.

Definition lower_gdef (d : gdef) : option graph :=
  match d with
  | GGraph g => Some g
  | GChain sts max => chain_lower sts max
  end.

(* a chain that does not lower is a compile error in eino; the harness never sends one. It is mapped to
   the empty graph, whose run fails with eUnknownNode (START is missing), so it can never agree silently. *)
Definition lower_forest (ds : list gdef) : forest :=
  map (fun d => match lower_gdef d with Some g => g | None => empty_graph end) ds.
