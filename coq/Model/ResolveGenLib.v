(* Model/ResolveGenLib.v — property C01: the vocabulary of the statement-by-statement translation of
   runner.resolveCompletedTasks and uniqueKeys (tools/go2v, extractor "resolvetasks" -> Gen/ResolveTasks.v), next to
   Model/ImpGenLib.v.  What a Go construct means on the model's data:
     map[string]T (assigned by key)   association list in insertion order; m[k] = a replaces the binding of k in
                                      place or appends it; m[k] of an absent key is the zero value of T (Go's
                                      iteration order is arbitrary: what is proved is stated through lookups)
     map[string]map[string]any        [wmap V]: target -> (sender -> value)      (writeChannelValues)
     map[string][]string              [dmap]:   target -> senders, in order      (newDependencies)
     l[a:]  l[:b]                     skipn a l, firstn b l
   Definitions only. *)
From Eino Require Import Base.Util Model.Graph Model.ImpGenLib.

Fixpoint am_get {A : Type} (d : A) (k : key) (m : list (key * A)) : A :=
  match m with
  | [] => d
  | (k', a) :: m' => if N.eqb k' k then a else am_get d k m'
  end.

Fixpoint am_has {A : Type} (k : key) (m : list (key * A)) : bool :=
  match m with
  | [] => false
  | (k', _) :: m' => N.eqb k' k || am_has k m'
  end.

Fixpoint am_set {A : Type} (k : key) (a : A) (m : list (key * A)) : list (key * A) :=
  match m with
  | [] => [(k, a)]
  | (k', a') :: m' => if N.eqb k' k then (k, a) :: m' else (k', a') :: am_set k a m'
  end.

(* m[k] with the map first (the order the translator writes an index expression in) *)
Definition am_at {A : Type} (d : A) (m : list (key * A)) (k : key) : A := am_get d k m.

(* map[string]any *)
Definition vm_empty {V : Type} : list (key * V) := [].
Definition vm_has {V : Type} (k : key) (m : list (key * V)) : bool := am_has k m.
Definition vm_get {V : Type} (d : V) (m : list (key * V)) (k : key) : V := am_get d k m.
Definition vm_set {V : Type} (k : key) (v : V) (m : list (key * V)) : list (key * V) := am_set k v m.

(* map[string]map[string]any *)
Definition wmap (V : Type) := list (key * list (key * V)).
Definition wm_empty {V : Type} : wmap V := [].
Definition wm_has {V : Type} (k : key) (m : wmap V) : bool := am_has k m.
Definition wm_get {V : Type} (m : wmap V) (k : key) : list (key * V) := am_get [] k m.
Definition wm_set {V : Type} (k : key) (a : list (key * V)) (m : wmap V) : wmap V := am_set k a m.

(* map[string][]string *)
Definition dmap := list (key * list key).
Definition dm_empty : dmap := [].
Definition dm_has (k : key) (m : dmap) : bool := am_has k m.
Definition dm_get (m : dmap) (k : key) : list key := am_get [] k m.
Definition dm_set (k : key) (l : list key) (m : dmap) : dmap := am_set k l m.

(* l[a:] and l[:b] *)
Definition l_from {A : Type} (a : nat) (l : list A) : list A := skipn a l.
Definition l_upto {A : Type} (b : nat) (l : list A) : list A := firstn b l.
