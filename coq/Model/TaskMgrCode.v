(* Model/TaskMgrCode.v — property C03: the SEQUENTIAL text of the five methods of taskManager
   (compose/graph_manager.go: executor, submit, wait, waitOne, waitAll, updateChan) as small programs over
   abstract actions, the vocabulary tools/go2v (extractor "tmcode", Gen/TaskMgrCode.v) renders the Go source in,
   and what the hand-off LTS of Model/TaskMgr.v / the composed system of Model/RunHandoff.v assume about it:

     executor   the node body runs under a deferred function that turns a panic into the task's error and then,
                under the mutex, pushes the task on the overflow list and tops the one-slot channel up
                (ERun -lock-> ELk -push-> ETop -send*-> (EOut) -unlock-> EDone);
     submit     nothing to do for no task; the state pre-handlers of ALL new tasks run before ANY task is started,
                the first failure returns (Model/RunHandoff.v [enter]: nothing of the step is handed over); every
                started task is counted (num + 1) before it starts, on a goroutine of its own or, one of them,
                on the run loop's goroutine ([s_spawn] / [s_sync]; [submit1]);
     waitOne    nothing outstanding: return "none" ([EvEmpty]); otherwise count down, receive ONE task from the
                channel, top the channel up under the mutex ([s_await; s_recv; s_coll_lock; s_coll_send*;
                s_coll_unlock]), and only then look at the task: a failed task is returned as it is, the state
                post-handler runs for a successful one only (behaviour 3 of Model/RunHandoff.v [bres_of]);
     waitAll    waitOne until it reports "none", keeping every task in collection order ([c_resolve_b]);
     wait       needAll -> waitAll, otherwise one waitOne ([c_await]: PWait / PGot);
     updateChan while the list is not empty: try to send its FIRST entry; sent -> remove that FIRST entry and go
                on; slot full -> give up ([s_exec_send / s_exec_full / s_exec_unlock] and the collector's twins).

   The [ATrace] actions are the events of the verif hook (compose/verif_c03_on.go): their position relative to
   the action they report is the hook's log-order discipline (acquiring actions - lock, receive - are logged
   after they completed, releasing actions - unlock, handing a task to a goroutine - before they are performed,
   actions ordered by the mutex inside the section), on which the trace conformance of Corr/C03.v rests.

   Definitions only; Proofs/TaskMgrCode.v relates them to the LTS, Proofs/GenAgreeC03.v proves the regenerated
   programs equal to these. *)
From Eino Require Import Base.Util Model.TaskMgr.

(* kinds of hook events (the constructors of [ev] without their arguments) *)
Inductive tk := KSpawn | KSync | KSyncRet | KAwait | KEmpty | KLockE | KPush | KSend | KFull | KUnlockE
              | KRecv | KLockC | KUnlockC.

(* tests *)
Inductive cnd :=
| CNoTasks        (* len(tasks) == 0 *)
| CHasPre         (* task.call.preProcessor != nil && !task.skipPreHandler *)
| CHasPost        (* task.call.postProcessor != nil *)
| CErrSet         (* err != nil / task.err != nil *)
| CPanicked       (* the value bound from recover() != nil *)
| CNotSuccess     (* !ok of waitOne *)
| CSyncSet        (* the synchronous task has been chosen *)
| CSyncCond       (* the condition rendered as [code_sync_cond] *)
| CNumTest        (* the condition over t.num rendered as [code_waitone_empty] *)
| CNeedAll        (* t.needAll *)
| COther.         (* anything else *)

(* results of a return statement *)
Inductive rv := RNil | RFalse | RTrue | REmpty | RVal | RCallWaitAll.

Inductive act :=
| ATrace (k : tk)
| ALock | AUnlock                 (* t.mu *)
| APush | APushFront              (* t.l.PushBack(task) / PushFront *)
| ATopUp                          (* t.updateChan() *)
| ARecv                           (* task := <-t.done *)
| ADec | AInc                     (* t.num-- / t.num += 1 *)
| AFlag (b : bool)                (* a local flag is set to a literal *)
| ARecover                        (* v := safe.PanicValue(recover(), flag) / recover() *)
| ASetInput | ASetOutput | ASetErr
| APre | APost | ABody            (* t.runWrapper(.. preProcessor / postProcessor / action ..) *)
| AGo | AExec                     (* go t.executor(task) / t.executor(task) *)
| APickSync | ARest               (* sync = tasks[0] / tasks = tasks[1:] *)
| ACallWaitOne | AAppend
| ACont | ABreak                  (* continue / break *)
| ARet (r : list rv)
| AIf (c : cnd) (th el : list act)
| AEach (body : list act)         (* for _, task := range tasks *)
| ALoop (body : list act)         (* for { } *)
| ADefer (body : list act).

(* ---- what the models assume ---- *)

Definition model_executor : list act :=
  [AFlag false;
   ADefer [ARecover; AIf CPanicked [ASetOutput; ASetErr] [];
           ALock; ATrace KLockE; APush; ATrace KPush; ATopUp; ATrace KUnlockE; AUnlock];
   ABody; AFlag true].

Definition model_submit : list act :=
  [AIf CNoTasks [ARet [RNil]] [];
   AEach [AIf CHasPre [APre; AIf CErrSet [ARet [RVal]] []; ASetInput] []];
   AIf CSyncCond [APickSync; ARest] [];
   AEach [AInc; ATrace KSpawn; AGo];
   AIf CSyncSet [AInc; ATrace KSync; AExec; ATrace KSyncRet] [];
   ARet [RNil]].

Definition model_wait : list act :=
  [AIf CNeedAll [ARet [RCallWaitAll]] [];
   ACallWaitOne; AIf CNotSuccess [ARet [REmpty; RNil]] []; ARet [RVal; RNil]].

Definition model_waitOne : list act :=
  [AIf CNumTest [ATrace KEmpty; ARet [RNil; RFalse]] [];
   ADec; ATrace KAwait; ARecv; ATrace KRecv;
   ALock; ATrace KLockC; ATopUp; ATrace KUnlockC; AUnlock;
   AIf CErrSet [ARet [RVal; RTrue]] [];
   AIf CHasPost [APost; AIf CErrSet [ASetErr] []; ASetOutput] [];
   ARet [RVal; RTrue]].

Definition model_waitAll : list act :=
  [ALoop [ACallWaitOne; AIf CNotSuccess [ARet [RVal; RNil]] []; AAppend]].

(* submit: one task runs on the run loop's goroutine iff nothing is outstanding and (there is one new task or
   the manager waits for all).  Nothing the property states depends on the rule (the composed system lets the run
   loop choose freely, [c_sub]); it is recorded because the LTS needs what it implies: the synchronous task is
   started by a run loop that is not inside a waitOne *)
Definition model_sync_cond (num len : nat) (needAll : bool) : bool :=
  Nat.eqb num 0 && (Nat.eqb len 1 || needAll).

(* waitOne's first test: nothing outstanding *)
Definition model_waitone_empty (num : nat) : bool := Nat.eqb num 0.

(* ---- initTaskManager (graph_run.go) and the eager flag of graph.compile (graph.go): a Graph waits for all tasks of a step, a Workflow (eager) for one; the
   hand-off channel has ONE slot (the LTS's [done : option entry]) ---- *)
Record tminit := mkTmInit {
  ti_needall_not_eager : bool;    (* needAll: !r.eager *)
  ti_done_cap : nat;              (* done: make(chan *task, n) *)
  ti_eager_iff_workflow : bool;   (* graph.compile: the runner is eager exactly when the graph is a Workflow *)
}.
Definition needAll_of (i : tminit) (eager : bool) : bool := if ti_needall_not_eager i then negb eager else eager.
Definition model_tm_init : tminit := mkTmInit true 1 true.

(* ---- updateChan as a function of the list and the slot ---- *)
Inductive qend := QFront | QBack.
Record updshape := mkUpd {
  u_sent : qend;                  (* which entry the send case offers *)
  u_removed : qend;               (* which entry is removed after a successful send *)
  u_trace_send_before_remove : bool;  (* the hook's [send] event names the entry that was sent *)
  u_default_returns : bool;       (* the default case (slot full) leaves the loop *)
}.

Inductive ures :=
| UDone                                  (* the list is empty: the loop ends *)
| USent (rest : list entry) (x : entry)  (* x is in the slot, the list is now rest; the loop goes on *)
| UFull                                  (* the slot is occupied: the method returns *)
| USpin                                  (* the slot is occupied and the loop tries again (holding the mutex) *)
| UStuck.                                (* no such entry *)

Definition q_get (e : qend) (l : list entry) : option entry :=
  match e with QFront => hd_error l | QBack => hd_error (rev l) end.
Definition q_del (e : qend) (l : list entry) : list entry :=
  match e with QFront => tl l | QBack => removelast l end.

Definition upd_of (u : updshape) (l : list entry) (d : option entry) : ures :=
  match l with
  | [] => UDone
  | _ =>
      match d with
      | None => match q_get (u_sent u) l with Some x => USent (q_del (u_removed u) l) x | None => UStuck end
      | Some _ => if u_default_returns u then UFull else USpin
      end
  end.

Definition model_updateChan : updshape := mkUpd QFront QFront true true.

(* one iteration of the loop as the LTS has it *)
Definition upd_step (l : list entry) (d : option entry) : ures :=
  match l, d with
  | [], _ => UDone
  | x :: xs, None => USent xs x
  | _ :: _, Some _ => UFull
  end.

(* ---- the hook events along the straight path of a program, in order ---- *)
Fixpoint trace_of (p : list act) : list tk :=
  match p with
  | [] => []
  | ATrace k :: p' => k :: trace_of p'
  | _ :: p' => trace_of p'
  end.

(* the hook's log-order discipline on a straight-line program: every acquiring action is followed at once by
   its event, every releasing action preceded at once by its event, a mutex-ordered action followed by its event
   while the mutex is still held *)
Fixpoint discipline (p : list act) : bool :=
  match p with
  | [] => true
  | ALock :: ((ATrace KLockE | ATrace KLockC) :: _) as p' => discipline p'
  | ALock :: _ => false
  | ARecv :: (ATrace KRecv :: _) as p' => discipline p'
  | ARecv :: _ => false
  | APush :: (ATrace KPush :: _) as p' => discipline p'
  | APush :: _ => false
  | ATrace KUnlockE :: (AUnlock :: _) as p' => discipline p'
  | ATrace KUnlockC :: (AUnlock :: _) as p' => discipline p'
  | ATrace KUnlockE :: _ => false
  | ATrace KUnlockC :: _ => false
  | ATrace KSpawn :: (AGo :: _) as p' => discipline p'
  | ATrace KSpawn :: _ => false
  | ATrace KSync :: (AExec :: ATrace KSyncRet :: _) as p' => discipline p'
  | ATrace KSync :: _ => false
  | ADec :: (ATrace KAwait :: _) as p' => discipline p'
  | ADec :: _ => false
  | _ :: p' => discipline p'
  end.
