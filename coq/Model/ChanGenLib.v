(* Model/ChanGenLib.v — properties C01 / C02: the vocabulary of the statement-by-statement
   translation of compose/dag.go and compose/pregel.go (tools/go2v, extractor "chancode" ->
   Gen/ChanCode.v).  A Go map keyed by node key is the sorted association list the channel
   record of Model/Graph.v uses; the receiver's fields are the record's fields:
     ControlPredecessors -> c_ctrl   DataPredecessors -> c_data   Skipped -> c_skipped   Values -> c_vals
   Definitions only. *)
From Eino Require Import Base.Util Model.Graph.

Section Lib.
  Context {V : Type}.

  Definition ch_ctrl (c : chan V) := c_ctrl V c.
  Definition ch_data (c : chan V) := c_data V c.
  Definition ch_skipped (c : chan V) := c_skipped V c.
  Definition ch_vals (c : chan V) := c_vals V c.

  Definition ch_set_ctrl (c : chan V) (m : list (key * dep)) : chan V :=
    {| c_ctrl := m; c_data := c_data V c; c_skipped := c_skipped V c; c_vals := c_vals V c |}.
  Definition ch_set_data (c : chan V) (m : list (key * bool)) : chan V :=
    {| c_ctrl := c_ctrl V c; c_data := m; c_skipped := c_skipped V c; c_vals := c_vals V c |}.
  Definition ch_set_skipped (c : chan V) (b : bool) : chan V :=
    {| c_ctrl := c_ctrl V c; c_data := c_data V c; c_skipped := b; c_vals := c_vals V c |}.
  Definition ch_set_vals (c : chan V) (m : list (key * V)) : chan V :=
    {| c_ctrl := c_ctrl V c; c_data := c_data V c; c_skipped := c_skipped V c; c_vals := m |}.
End Lib.

Section Maps.
  Context {A : Type}.
  (* _, ok := m[k] *)
  Definition m_has (k : key) (m : list (key * A)) : bool :=
    match alookup k m with Some _ => true | None => false end.
  (* m[k] = a *)
  Definition m_set (k : key) (a : A) (m : list (key * A)) : list (key * A) := ainsert k a m.
  (* for _, a := range m { if p(a) { … found … } } *)
  Definition m_any (p : A -> bool) (m : list (key * A)) : bool := existsb (fun ka => p (snd ka)) m.
  (* for k := range m { m[k] = a } *)
  Definition m_setall (a : A) (m : list (key * A)) : list (key * A) := map (fun ka => (fst ka, a)) m.
  (* for _, a := range m { l = append(l, a) }  (in the model's canonical order: Go's is arbitrary) *)
  Definition m_vals (m : list (key * A)) : list A := map snd m.
  (* for k, a := range m { if p(a) { delete(m, k) } } *)
  Definition m_del_if (p : A -> bool) (m : list (key * A)) : list (key * A) :=
    filter (fun ka => negb (p (snd ka))) m.
End Maps.
