(* Model/CheckpointGenLib.v — property C05: the vocabulary of the translation of the checkpoint / restore code
   (tools/go2v, extractor "cpcode" -> Gen/CheckpointCode.v), and the model's own versions of what is translated
   (re-exported by the neutral Gen file when the source shape is not recognised).

     a Go map keyed by node key            the association list of the model
     SkipPreHandler map[string]bool         the list of the keys mapped to true        (cp_skip)
     SubGraphs map[string]*checkpoint       association list node key -> nested checkpoint (cp_subs)
     the checkpoint a context carries       option (its SubGraphs): None = no checkpoint / a nil checkpoint
     what a task finds in ITS context       fwd: nothing, the nested checkpoint of its node, or (never, in the
                                            code as it stands) its parent's whole checkpoint
   Definitions only. *)
From Eino Require Import Base.Util Model.Graph Model.ChanGenLib Model.RunLoop.
Open Scope N_scope.

(* v, ok := m[k] *)
Definition m_get {A} (k : key) (m : list (key * A)) : option A := alookup k m.
Definition sub_get {A} (k : N) (m : list (N * A)) : option A := nlist_get k m.
(* skipPreHandler[k]  /  len(skipPreHandler) == 0 *)
Definition set_has (k : N) (s : list N) : bool := memN k s.
Definition set_empty (s : list N) : bool := match s with [] => true | _ => false end.
(* cp == nil, cp.SubGraphs *)
Definition is_none {A} (o : option A) : bool := match o with None => true | Some _ => false end.
Definition is_some {A} (o : option A) : bool := negb (is_none o).
Definition subs_of {A} (cp : option (list (N * A))) : list (N * A) := match cp with Some s => s | None => [] end.

Inductive fwd (SCP : Type) : Type := FNone | FSub (c : SCP) | FParent.
Arguments FNone {SCP}. Arguments FSub {SCP}. Arguments FParent {SCP}.

(* `return ctx`: the task's context carries what its parent's context carries *)
Definition keep_ctx {A SCP} (cp : option A) : fwd SCP := match cp with None => FNone | Some _ => FParent end.

(* a task as far as a checkpoint determines it: node key, input, skip-pre-handler flag, checkpoint in its context *)
Definition gtask (V SCP : Type) : Type := (N * V * bool * fwd SCP)%type.

(* where a run starts from *)
Inductive rsrc := RFromCtx | RFromStore | RFresh.

(* ---------- the model's side ---------- *)
Definition fwd_of {SCP} (o : option SCP) : fwd SCP := match o with Some c => FSub c | None => FNone end.
Definition gtask_of {V SCP} (t : @task V SCP) : gtask V SCP := (t_key t, t_in t, t_skip t, fwd_of (t_cp t)).

(* loadChannels / load: the run continues on the checkpoint's channels ([restore]: ls_cs := cp_cs c) *)
Definition model_load {V} (ch dc : chan V) : chan V := dc.
(* which OBJECT lives on as the channel of a key: the one Compile built (it keeps its unexported parts zeroValue /
   emptyStream, which a checkpoint does not carry: dag_channel_rebuilt of Model/CheckpointTable.v), or the one decoded
   from the checkpoint (it has none). The model's run continues on compiled objects holding the checkpoint's progress. *)
Definition live_chan (V : Type) : Type := (chan V * bool)%type.
Definition compiled_object {V} (c : chan V) : live_chan V := (c, true).
Definition decoded_object {V} (c : chan V) : live_chan V := (c, false).
Definition model_load_channels {V} (own cp : chans V) : list (key * live_chan V) :=
  map (fun kc => (fst kc, compiled_object (snd kc))) cp.
Definition model_forward {SCP} (cp : option (list (N * SCP))) (k : N) : fwd SCP := fwd_of (nlist_get k (subs_of cp)).
(* one task of [restore] / [mk_task] *)
Definition model_restore_task {V SCP} (cp : option (list (N * SCP))) (skip : list N) (kv : N * V) : gtask V SCP :=
  (fst kv, snd kv, memN (fst kv) skip, fwd_of (nlist_get (fst kv) (subs_of cp))).
Definition model_create_task {V SCP} (kv : N * V) : gtask V SCP := gtask_of (@mk_task V SCP kv).
(* [call]: the store is read only when an id is given; [node_exec]: a nested graph continues iff its parent
   handed a nested checkpoint down, whatever the call options say *)
Definition model_restore_source (isSubGraph ctxCp hasID storeCp : bool) : rsrc :=
  if isSubGraph then (if ctxCp then RFromCtx else RFresh)
  else if hasID && storeCp then RFromStore else RFresh.
