(* Model/SerCodeRef.v — property C12: the reference translation of internal/serialization/serialization.go
   (definedContainerKey, internalMarshal, GenericRegister, resolvePointerNum, containerType, internalUnmarshal) and of
   the registration / record tables of internal/serialization and compose: what tools/go2v (extractor "sercode") emits
   as Gen/SerCode.v for the source the model was written against, kept under version control.  It is
   what Gen/SerCode.v re-exports when the extractor does not recognise the shape of the source
   (translator tie unavailable), so that Proofs/GenAgreeSer.v is one proof script for both cases; and
   it shows a reader what the translator produces.  Regenerate with
     cd tools && go run ./go2v -repo /repo -out /tmp/x sercode   (then copy the definitions).
   Definitions only. *)
From Eino Require Import Base.Util Base.Universe Model.Ser Model.SerGenLib.
Import ListNotations.
Local Open Scope bool_scope.

Definition definedContainerKey (J JK : Type) (jenc : base -> lit -> res J) (kenc : base -> lit -> res JK) (reg : registry) (env : senv) (rt : ty) :=
    if (negb (rt_named rt)) then
      ""%string
    else
    rm_get reg rt.

Definition internalMarshal (J JK : Type) (jenc : base -> lit -> res J) (kenc : base -> lit -> res JK) (reg : registry) (env : senv) (self : val -> res (option (gis J JK))) (v : val) :=
    if (any_is_nil v) then
      Ok None
    else
    let ret := gis_empty J JK in
    let rv := (reflect_ValueOf v) in
    let rt := (rv_Type rv) in
    match loop_ptr (fun rt '(ret, rv) =>
        if ((rt_named rt) && (Nat.ltb 0 (PointerNum ret))) then
          LRet (Err E_UNKNOWN_TYPE)
        else
        let ret := set_PointerNum ret (S (PointerNum ret)) in
        if (rv_IsNil rv) then
          let ret := set_NonNilPointerNum ret ((PointerNum ret) - 1) in
          let rt := rt_Elem rt in
          match loop_ptr (fun rt ret =>
              if (rt_named rt) then
                LRet (Err E_UNKNOWN_TYPE)
              else
              let ret := set_PointerNum ret (S (PointerNum ret)) in
              LCont ret) rt ret with
          | LRet r_ => LRet (r_)
          | LCont (rt, ret) =>
          match rm_lookup reg rt with
          | None => LRet (Err E_UNKNOWN_TYPE)
          | Some key_ =>
          let ret := set_Type_ ret key_ in
          let ret := set_JSONValue ret (Some JNull) in
          LRet (Ok (Some ret))
          end
          end
        else
        let rv := (rv_Elem rv) in
        LCont (ret, rv)) rt (ret, rv) with
    | LRet r_ => r_
    | LCont (rt, (ret, rv)) =>
    let kind_ := (rt_Kind rt) in
    let kind_ := (if ((kind_eqb kind_ KStruct) && (rt_hasOwnJSON rt)) then let kind_ := KInvalid in
      kind_ else kind_) in
    if kind_eqb kind_ KStruct then
      match rm_lookup reg rt with
      | None => Err E_UNKNOWN_TYPE
      | Some key_ =>
      let ret := set_StructType ret key_ in
      let ret := set_MapValues ret [] in
      match loop_range (fun i ret =>
          let field := (rt_Field env rt i) in
          if (String.eqb (sf_PkgPath field) ""%string) then
            let k := (sf_Name field) in
            let v := (rv_Field rv i) in
            match self (rv_Interface v) with
            | Err e_ => LRet (Err e_) | Panic => LRet (Panic)
            | Ok internalValue =>
            let ret := set_MapValues ret (mv_put (MapValues ret) (MKName k) internalValue) in
            LCont ret
            end
          else
            LCont ret) (rt_NumField env rt) ret with
      | LRet r_ => r_
      | LCont ret =>
      Ok (Some ret)
      end
      end
    else if kind_eqb kind_ KMap then
      let rkt := (rt_Key rt) in
      match loop_ptr (fun rkt ret =>
          if (rt_named rkt) then
            LRet (Err E_UNKNOWN_TYPE)
          else
          let ret := set_MapKeyPointerNum ret (S (MapKeyPointerNum ret)) in
          LCont ret) rkt ret with
      | LRet r_ => r_
      | LCont (rkt, ret) =>
      match rm_lookup reg rkt with
      | None => Err E_UNKNOWN_TYPE
      | Some key_ =>
      let ret := set_MapKeyType ret key_ in
      let rvt := (rt_Elem rt) in
      match loop_ptr (fun rvt ret =>
          if (rt_named rvt) then
            LRet (Err E_UNKNOWN_TYPE)
          else
          let ret := set_MapValuePointerNum ret (S (MapValuePointerNum ret)) in
          LCont ret) rvt ret with
      | LRet r_ => r_
      | LCont (rvt, ret) =>
      match rm_lookup reg rvt with
      | None => Err E_UNKNOWN_TYPE
      | Some key_ =>
      let ret := set_MapValueType ret key_ in
      let ret := set_ContainerType ret (definedContainerKey J JK jenc kenc reg env rt) in
      if (((Nat.ltb 0 (PointerNum ret)) && (rt_named rt)) && (String.eqb (ContainerType ret) ""%string)) then
        Err E_UNKNOWN_TYPE
      else
      let ret := set_MapValues ret [] in
      let iter := (rv_MapRange rv) in
      match loop_list (fun iter ret =>
          let k := (iter_Key iter) in
          let v := (iter_Value iter) in
          match self (rv_Interface v) with
          | Err e_ => LRet (Err e_) | Panic => LRet (Panic)
          | Ok internalValue =>
          match sonic_MarshalString JK kenc (rv_Interface k) with
          | Err e_ => LRet (Err e_) | Panic => LRet (Panic)
          | Ok keyStr =>
          let ret := set_MapValues ret (mv_put (MapValues ret) (MKJson keyStr) internalValue) in
          LCont ret
          end
          end) iter ret with
      | LRet r_ => r_
      | LCont ret =>
      Ok (Some ret)
      end
      end
      end
      end
      end
    else if (kind_eqb kind_ KSlice) || (kind_eqb kind_ KArray) then
      let rvt := (rt_Elem rt) in
      match loop_ptr (fun rvt ret =>
          if (rt_named rvt) then
            LRet (Err E_UNKNOWN_TYPE)
          else
          let ret := set_SliceValuePointerNum ret (S (SliceValuePointerNum ret)) in
          LCont ret) rvt ret with
      | LRet r_ => r_
      | LCont (rvt, ret) =>
      match rm_lookup reg rvt with
      | None => Err E_UNKNOWN_TYPE
      | Some key_ =>
      let ret := set_SliceValueType ret key_ in
      let ret := set_IsArray ret (kind_eqb (rt_Kind rt) KArray) in
      let ret := set_ContainerType ret (definedContainerKey J JK jenc kenc reg env rt) in
      if (((Nat.ltb 0 (PointerNum ret)) && (rt_named rt)) && (String.eqb (ContainerType ret) ""%string)) then
        Err E_UNKNOWN_TYPE
      else
      let length_ := (rv_Len rv) in
      let ret := set_SliceValues ret (slice_make length_) in
      match loop_range (fun i ret =>
          match self (rv_Interface (rv_Index rv i)) with
          | Err e_ => LRet (Err e_) | Panic => LRet (Panic)
          | Ok internalValue =>
          let ret := set_SliceValues ret (slice_set (SliceValues ret) i internalValue) in
          LCont ret
          end) length_ ret with
      | LRet r_ => r_
      | LCont ret =>
      Ok (Some ret)
      end
      end
      end
    else 
      match rm_lookup reg (rv_Type rv) with
      | None => Err E_UNKNOWN_TYPE
      | Some key_ =>
      let ret := set_Type_ ret key_ in
      match json_Marshal jenc (rv_Interface rv) with
      | Err e_ => Err e_ | Panic => Panic
      | Ok jsonBytes =>
      let ret := set_JSONValue ret (Some (JText jsonBytes)) in
      Ok (Some ret)
      end
      end
    end.

Definition GenericRegister (m_ : list (string * ty)) (rm_ : list (ty * string)) (T : ty) (key_ : string) :=
    let t_ := (rt_Elem (TPtr T)) in
    match loop_ptr (fun t_ _ =>
        LCont tt) t_ tt with
    | LRet r_ => r_
    | LCont (t_, _) =>
    match gm_lookup m_ key_ with
    | Some nt => Err E_DUP
    | None =>
    match grm_lookup rm_ t_ with
    | Some nk => Err E_DUP
    | None =>
    let m_ := gm_put m_ key_ t_ in
    let rm_ := grm_put rm_ t_ key_ in
    Ok (m_, rm_)
    end
    end
    end.

Definition resolvePointerNum (pointerNum : nat) (t_ : ty) :=
    match loop_range (fun i t_ =>
        let t_ := (TPtr t_) in
        LCont t_) pointerNum t_ with
    | LRet r_ => r_
    | LCont t_ =>
    t_
    end.

Definition containerType (J JK : Type) (reg : registry) (v : gis J JK) (t_ : ty) :=
    if (String.eqb (ContainerType v) ""%string) then
      Ok t_
    else
    match m_lookup reg (ContainerType v) with
    | None => Err E_UNKNOWN_TYPE
    | Some ct =>
    if (negb (rt_AssignableTo t_ ct)) then
      Err E_FIELD
    else
    Ok ct
    end.

Definition internalUnmarshal (J JK : Type) (jdec : base -> J -> res lit) (kdec : base -> JK -> res lit) (reg : registry) (env : senv) (self : option (gis J JK) -> res (option val)) (v_opt : option (gis J JK)) : res (option val) :=
    match v_opt with
    | None => Ok None
    | Some v =>
    if (negb (String.eqb (Type_ v) ""%string)) then
      match m_lookup reg (Type_ v) with
      | None => Err E_UNKNOWN_TYPE
      | Some t_ =>
      let pResult := (pc_new (resolvePointerNum (PointerNum v) t_)) in
      match loop_range_while (fun pResult => (kind_eqb (rt_Kind (pc_cur_ty pResult)) KPtr)) (fun i pResult =>
          let pResult := pc_set_new pResult in
          let pResult := pc_down pResult in
          LCont pResult) (NonNilPointerNum v) pResult with
      | LRet r_ => r_
      | LCont pResult =>
      if ((kind_eqb (rt_Kind (pc_cur_ty pResult)) KPtr) && (raw_is_null (JSONValue v))) then
        res_map Some (pc_root_value env pResult)
      else
      match pc_unmarshal jdec pResult (JSONValue v) with
      | Err e_ => Err e_ | Panic => Panic
      | Ok pResult =>
      res_map Some (pc_root_value env pResult)
      end
      end
      end
    else
    if (negb (String.eqb (StructType v) ""%string)) then
      match m_lookup reg (StructType v) with
      | None => Err E_UNKNOWN_TYPE
      | Some rt =>
      let result := (resolvePointerNum (PointerNum v) rt) in
      match cvft env result with
      | Err e_ => Err e_ | Panic => Panic
      | Ok dResult =>
      match loop_list (fun '(k, internalValue) dResult =>
          match self internalValue with
          | Err e_ => LRet (Err e_) | Panic => LRet (Panic)
          | Ok value =>
          match rv_HasField env dResult k with
          | Err e_ => LRet (Err e_) | Panic => LRet (Panic)
          | Ok can_ =>
          if negb can_ then
            LRet (Err E_FIELD)
          else
          match value with
          | None =>
            match rt_FieldByName env rt k with
            | None => LRet (Err E_FIELD)
            | Some rft =>
            match zero_v env (sf_Type rft) with
            | Err e_ => LRet (Err e_) | Panic => LRet (Panic)
            | Ok x_ =>
            match rv_SetField env dResult k x_ with
            | Err e_ => LRet (Err e_) | Panic => LRet (Panic)
            | Ok dResult =>
            LCont dResult
            end
            end
            end
          | Some value =>
            match rv_SetField env dResult k value with
            | Err e_ => LRet (Err e_) | Panic => LRet (Panic)
            | Ok dResult =>
            LCont dResult
            end
          end
          end
          end) (MapValues v) dResult with
      | LRet r_ => r_
      | LCont dResult =>
      Ok (Some (cvft_result result dResult))
      end
      end
      end
    else
    if (negb (String.eqb (MapKeyType v) ""%string)) then
      match m_lookup reg (MapKeyType v) with
      | None => Err E_UNKNOWN_TYPE
      | Some rkt =>
      let rkt := (resolvePointerNum (MapKeyPointerNum v) rkt) in
      match m_lookup reg (MapValueType v) with
      | None => Err E_UNKNOWN_TYPE
      | Some rvt =>
      let rvt := (resolvePointerNum (MapValuePointerNum v) rvt) in
      match containerType J JK reg v (TMap rkt rvt) with
      | Err e_ => Err e_ | Panic => Panic
      | Ok mt =>
      let result := (resolvePointerNum (PointerNum v) mt) in
      match cvft env result with
      | Err e_ => Err e_ | Panic => Panic
      | Ok dResult =>
      match loop_list (fun '(marshaledMapKey, internalValue) dResult =>
          let prkv := (pc_new rkt) in
          match pc_unmarshal_key kdec env prkv marshaledMapKey with
          | Err e_ => LRet (Err e_) | Panic => LRet (Panic)
          | Ok prkv =>
          match self internalValue with
          | Err e_ => LRet (Err e_) | Panic => LRet (Panic)
          | Ok value =>
          match value with
          | None =>
            match pc_here env prkv with
            | Err e_ => LRet (Err e_) | Panic => LRet (Panic)
            | Ok k_ =>
            match zero_v env rvt with
            | Err e_ => LRet (Err e_) | Panic => LRet (Panic)
            | Ok x_ =>
            match rv_SetMapIndex dResult k_ x_ with
            | Err e_ => LRet (Err e_) | Panic => LRet (Panic)
            | Ok dResult =>
            LCont dResult
            end
            end
            end
          | Some value =>
            match pc_here env prkv with
            | Err e_ => LRet (Err e_) | Panic => LRet (Panic)
            | Ok k_ =>
            match rv_SetMapIndex dResult k_ value with
            | Err e_ => LRet (Err e_) | Panic => LRet (Panic)
            | Ok dResult =>
            LCont dResult
            end
            end
          end
          end
          end) (MapValues v) dResult with
      | LRet r_ => r_
      | LCont dResult =>
      Ok (Some (cvft_result result dResult))
      end
      end
      end
      end
      end
    else
    match m_lookup reg (SliceValueType v) with
    | None => Err E_UNKNOWN_TYPE
    | Some rvt =>
    let rvt := (resolvePointerNum (SliceValuePointerNum v) rvt) in
    if (IsArray v) then
      match containerType J JK reg v (TArray (List.length (SliceValues v)) rvt) with
      | Err e_ => Err e_ | Panic => Panic
      | Ok at_ =>
      let result := (resolvePointerNum (PointerNum v) at_) in
      match cvft env result with
      | Err e_ => Err e_ | Panic => Panic
      | Ok dResult =>
      match loop_list (fun '(i, internalValue) dResult =>
          match self internalValue with
          | Err e_ => LRet (Err e_) | Panic => LRet (Panic)
          | Ok value =>
          match value with
          | None =>
            LCont dResult
          | Some value =>
            match rv_SetIndex dResult i value with
            | Err e_ => LRet (Err e_) | Panic => LRet (Panic)
            | Ok dResult =>
            LCont dResult
            end
          end
          end) (indexed (SliceValues v)) dResult with
      | LRet r_ => r_
      | LCont dResult =>
      Ok (Some (cvft_result result dResult))
      end
      end
      end
    else
    match containerType J JK reg v (TSlice rvt) with
    | Err e_ => Err e_ | Panic => Panic
    | Ok st =>
    let result := (resolvePointerNum (PointerNum v) st) in
    match cvft env result with
    | Err e_ => Err e_ | Panic => Panic
    | Ok dResult =>
    match loop_list (fun internalValue dResult =>
        match self internalValue with
        | Err e_ => LRet (Err e_) | Panic => LRet (Panic)
        | Ok value =>
        match value with
        | None =>
          match zero_v env rvt with
          | Err e_ => LRet (Err e_) | Panic => LRet (Panic)
          | Ok x_ =>
          match rv_Append dResult x_ with
          | Err e_ => LRet (Err e_) | Panic => LRet (Panic)
          | Ok dResult =>
          LCont dResult
          end
          end
        | Some value =>
          match rv_Append dResult value with
          | Err e_ => LRet (Err e_) | Panic => LRet (Panic)
          | Ok dResult =>
          LCont dResult
          end
        end
        end) (SliceValues v) dResult with
    | LRet r_ => r_
    | LCont dResult =>
    Ok (Some (cvft_result result dResult))
    end
    end
    end
    end
    end.

(* init() of internal/serialization/serialization.go: key, Go type *)
Definition init_serialization : list (string * string) :=
  [("_eino_int"%string, "int"%string); ("_eino_int8"%string, "int8"%string); ("_eino_int16"%string, "int16"%string); ("_eino_int32"%string, "int32"%string); ("_eino_int64"%string, "int64"%string); ("_eino_uint"%string, "uint"%string); ("_eino_uint8"%string, "uint8"%string); ("_eino_uint16"%string, "uint16"%string); ("_eino_uint32"%string, "uint32"%string); ("_eino_uint64"%string, "uint64"%string); ("_eino_float32"%string, "float32"%string); ("_eino_float64"%string, "float64"%string); ("_eino_complex64"%string, "complex64"%string); ("_eino_complex128"%string, "complex128"%string); ("_eino_uintptr"%string, "uintptr"%string); ("_eino_bool"%string, "bool"%string); ("_eino_string"%string, "string"%string); ("_eino_any"%string, "any"%string); ("_eino_message"%string, "schema.Message"%string); ("_eino_document"%string, "schema.Document"%string); ("_eino_role_type"%string, "schema.RoleType"%string); ("_eino_chat_message_type"%string, "schema.ChatMessagePart"%string); ("_eino_tool_call"%string, "schema.ToolCall"%string); ("_eino_function_call"%string, "schema.FunctionCall"%string); ("_eino_response_meta"%string, "schema.ResponseMeta"%string); ("_eino_token_usage"%string, "schema.TokenUsage"%string); ("_eino_log_probs"%string, "schema.LogProbs"%string)].

(* init() of compose/checkpoint.go, compose/dag.go: key, Go type *)
Definition init_compose : list (string * string) :=
  [("_eino_nil_chunk"%string, "nilChunk"%string); ("_eino_channel"%string, "channel"%string); ("_eino_checkpoint"%string, "checkpoint"%string); ("_eino_dag_channel"%string, "dagChannel"%string); ("_eino_pregel_channel"%string, "pregelChannel"%string); ("_eino_dependency_state"%string, "dependencyState"%string)].

(* the record types compose registers: exported fields in declaration order (name, Go type) *)
Definition compose_records : list (string * list (string * string)) :=
  [("checkpoint"%string, [("Channels"%string, "map[string]channel"%string); ("Inputs"%string, "map[string]any"%string); ("State"%string, "any"%string); ("SkipPreHandler"%string, "map[string]bool"%string); ("SubGraphs"%string, "map[string]*checkpoint"%string)]);
   ("dagChannel"%string, [("ControlPredecessors"%string, "map[string]dependencyState"%string); ("Values"%string, "map[string]any"%string); ("DataPredecessors"%string, "map[string]bool"%string); ("Skipped"%string, "bool"%string)]);
   ("pregelChannel"%string, [("Values"%string, "map[string]any"%string)]);
   ("nilChunk"%string, [])].

Definition dependencyState_underlying : string := "uint8"%string.
