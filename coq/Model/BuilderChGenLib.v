(* Model/BuilderChGenLib.v — property C20: the vocabulary of the translation of compose/chain.go (reportError,
   nextNodeKey, addNode, addEndIfNeeded of Chain) and of the public wrappers Graph.AddEdge / graph.AddBranch made by
   tools/go2v, extractor "c20chain" -> Gen/C20Chain.v: what the statements used there mean on the model's Chain
   state [cstate] (Model/Builder.v).  The Chain is threaded as [c].

     Go                                              here
     c.err / c.hasEnd / c.preNodeKeys / c.nodeIdx     [c_err] / [c_has_end] / [c_pre] / [c_idx]
     c.gg.compiled                                    [g_compiled (c_g c)]
     c.err = err                                      [c_set_err]
     c.gg.addNode(key, node, options)                 [gg_addNode]   (graph.addNode: the model's [g_add_node])
     c.gg.AddEdge(a, b)                               [gg_AddEdge]   (through the translated wrapper Graph.AddEdge)
     fmt.Sprintf("node_%d", idx)                      ["node_" +++ nat_str idx]
     for _, k := range c.preNodeKeys { … return … }   [cfor_each]
   Definitions only. *)
From Eino Require Import Base.Util Model.Builder Model.BuilderGenLib.
Local Open Scope string_scope.
Local Open Scope list_scope.

Definition c_set_err (e : option ecls) (c : cstate) : cstate := mkC e (c_g c) (c_idx c) (c_pre c) (c_has_end c).
Definition c_set_idx (i : N) (c : cstate) : cstate := mkC (c_err c) (c_g c) i (c_pre c) (c_has_end c).

Definition gg_addNode (c : cstate) (key : string) (nk : nkind) (needState nodeKeyOpt : bool) : cstate * option ecls :=
  let '(g, o) := g_add_node (c_g c) key nk needState nodeKeyOpt false in (c_set_g g c, err_of o).

(* for _, x := range l { … }: the body ends the enclosing function ([true]) or falls through *)
Fixpoint cfor_each {A R} (body : cstate -> A -> cstate * option R) (l : list A) (c : cstate) : cstate * option R :=
  match l with
  | [] => (c, None)
  | a :: r =>
    match body c a with
    | (c', Some x) => (c', Some x)
    | (c', None) => cfor_each body r c'
    end
  end.
