(* Model/StateAddNode.v — C11: the state-related checks of graph.addNode (compose/graph.go:184-224) and
   the four public options that attach a state handler to a node (compose/graph_add_node_options.go),
   as a decision function and a table (translator tie: Gen/StateAddNode.v is what tools/go2v, extractor
   "stateaddnode", reads from the source on every run; Proofs/GenAgreeStateAddNode.v proves agreement).

   addNode refuses a node when
     - an option that needs the graph state was given and the graph has no state generator;
     - the node has a state pre-handler / post-handler written for another state type than the graph's.
   (Its other checks — reserved key, duplicate key, input/output type of the handler — are not about
   the state: in the generated function they are applications of the parameter [unk].)
   Each of the four options sets the handler on its side (pre / post) wrapped by the converter of
   Model/StateLockCode.v's [wrapper], records the handler's state type on the same side, and marks the
   node as needing the graph state.
   Definitions only. *)
From Eino Require Import Base.Util Model.StateLock Model.StateLockLTS Model.StateLockCode Model.StateLockType.
Open Scope N_scope.

Inductive side := SPre | SPost.

(* (option, converter = which wrapper runs the handler, side of the handler field, side of the state
   type field, needState set) *)
Definition handler_option := (string * (wrapper * (side * (side * bool))))%type.

Definition handler_options : list handler_option :=
  [("WithStatePreHandler"%string, (WPre, (SPre, (SPre, true))));
   ("WithStatePostHandler"%string, (WPost, (SPost, (SPost, true))));
   ("WithStreamStatePreHandler"%string, (WSPre, (SPre, (SPre, true))));
   ("WithStreamStatePostHandler"%string, (WSPost, (SPost, (SPost, true))))].

(* addNode's verdict on the state-related part: true = refused *)
Definition add_node_err (has_gen need_state has_pre has_post : bool) (gty pre_ty post_ty : N) : bool :=
  (need_state && negb has_gen) ||
  (has_pre && negb (N.eqb gty pre_ty)) ||
  (has_post && negb (N.eqb gty post_ty)).

(* a node of a program, through the options: needState is set iff one of the handler options was given *)
Definition node_err (has_gen : bool) (gty : N) (nty : typing) (a : node) : bool :=
  add_node_err has_gen (n_pre a || n_post a) (n_pre a) (n_post a) gty (t_pre nty a) (t_post nty a).

Definition build_err_nodes (f : forest) (gty : list N) (nty : typing) : bool :=
  existsb (fun gg => let '(gi, g) := gg in
             existsb (node_err (g_state g) (gty_of gty gi) nty) (g_nodes g)) (graphs_of f).
