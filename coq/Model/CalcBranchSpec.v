(* Model/CalcBranchSpec.v — properties C01 / C02: runner.calculateBranch (compose/graph_run.go) as a function of
   its arguments and of the untranslated code it calls (parameters), written by hand from the source; tools/go2v
   regenerates it statement by statement on every run (Gen/CalcBranch.v). Proofs/GenAgreeCalcBranch.v proves the
   generated function equal to this one, and this one equal to [eval_branches] + [report_branch] of
   Model/Graph.v.  Definitions only. *)
From Eino Require Import Base.Util Model.Graph Model.ImpGenLib.

Section Spec.
  Variables V B CM : Type.
  Variable zero_value : V.
  Variable err_code : nat -> N.
  Variable end_nodes : B -> list key.
  Variable pre_handle : key -> nat -> V -> bool -> res V.
  Variable branch_invoke : B -> V -> res (list key).
  Variable branch_collect : B -> V -> res (list key).
  Variable report_branch : CM -> key -> list key -> res CM.

  (* the end nodes of a branch that its condition did not select join the set of candidates *)
  Definition add_unselected (ends ws : list key) (sk : list key) : list key :=
    fold_left (fun sk node => if memb node ws then sk else s_add node sk) ends sk.

  Definition branch_step (cur : key) (isStream : bool) (st : list V * list key * list key) (ib : nat * B)
    : res (list V * list key * list key) :=
    let '(input, ret, sk) := st in
    let '(i, b) := ib in
    do v <- pre_handle cur i (l_get zero_value i input) isStream;
    let input := l_set i v input in
    do ws <- (if isStream then branch_collect b (l_get zero_value i input)
              else branch_invoke b (l_get zero_value i input));
    Ok (input, ret ++ ws, add_unselected (end_nodes b) ws sk).

  Definition del_all (ks : list key) (sk : list key) : list key := fold_left (fun sk k => s_del k sk) ks sk.

  Definition calculate_branch (cur : key) (branches : list B) (controls : list key)
      (input : list V) (isStream : bool) (cm : CM) : res (list key * CM) :=
    if Nat.ltb (List.length input) (List.length branches) then Err (err_code 1%nat)
    else
      do r <- fold_res (branch_step cur isStream) (indexed branches) (input, [], []);
      let '(_, ret, sk) := r in
      do cm' <- report_branch cm cur (del_all controls (del_all ret sk));
      Ok (ret, cm').
End Spec.
