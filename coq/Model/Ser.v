(* Model/Ser.v — executable model of internal/serialization/serialization.go
   (internalMarshal / internalUnmarshal, the registry, createValueFromType,
   resolvePointerNum) over the value universe of Base/Universe.v.

   Definitions only.  The JSON encoding of basic values (json.Marshal / sonic.Unmarshal)
   and of map keys (sonic.MarshalString / sonic.UnmarshalString) are Section variables;
   [jenc_c] … [kdec_c] at the end are the concrete instance used by the correspondence
   check.  [fixes] selects the current code (all true) or the code before the repairs
   F-C12a (decoder ignored PointerNum for maps and slices), F-C12b (a nil pointer was
   recorded with the depth at which it was found only), F-C12e (arrays rebuilt as slices),
   F-C12f (registered defined container types lost their name), F-C12i (a pointer to an
   unregistered defined container type was accepted). *)
From Coq Require Import List Bool Arith NArith ZArith String Ascii Lia.
From Eino Require Import Base.Util Base.Universe.
Import ListNotations.
Local Open Scope bool_scope.

Definition E_UNKNOWN_TYPE : N := 1.   (* "unknown type" / "unknown type key" *)
Definition E_JSON : N := 2.           (* error of the JSON layer *)
Definition E_FIELD : N := 3.          (* "can not set field" / "cannot find field" *)
Definition E_NIL_TOP : N := 4.        (* Unmarshal of the bytes Marshal(nil) produced *)
Definition E_UNMODELLED : N := 99.    (* input outside the modelled fragment (see notes/C12.md) *)

(* fix_e: arrays are marked (IsArray) and rebuilt as arrays (F-C12e); fix_f: the registered
   name of a defined container type is recorded and used (F-C12f); fix_i: a pointer to an
   unregistered defined container type is refused (F-C12i) *)
Record fixes : Type := { fix_a : bool; fix_b : bool; fix_e : bool; fix_f : bool; fix_i : bool }.
Definition fixed : fixes := {| fix_a := true; fix_b := true; fix_e := true; fix_f := true; fix_i := true |}.
Definition v0 : fixes := {| fix_a := false; fix_b := false; fix_e := false; fix_f := false; fix_i := false |}.

(* the registry: name <-> type (GenericRegister keeps both maps injective) *)
Definition registry := list (string * ty).
Fixpoint rm_lookup (reg : registry) (t : ty) : option string :=
  match reg with
  | [] => None
  | (k, t') :: r => if ty_eqb t t' then Some k else rm_lookup r t
  end.
Fixpoint m_lookup (reg : registry) (k : string) : option ty :=
  match reg with
  | [] => None
  | (k', t) :: r => if String.eqb k k' then Some t else m_lookup r k
  end.

(* init() of serialization.go (the schema.* struct types are not part of the universe) *)
Definition builtin_registry : registry :=
  [ ("_eino_int", TBase BInt); ("_eino_int8", TBase BInt8); ("_eino_int16", TBase BInt16);
    ("_eino_int32", TBase BInt32); ("_eino_int64", TBase BInt64);
    ("_eino_uint", TBase BUint); ("_eino_uint8", TBase BUint8); ("_eino_uint16", TBase BUint16);
    ("_eino_uint32", TBase BUint32); ("_eino_uint64", TBase BUint64);
    ("_eino_float32", TBase BFloat32); ("_eino_float64", TBase BFloat64);
    ("_eino_complex64", TBase BComplex64); ("_eino_complex128", TBase BComplex128);
    ("_eino_uintptr", TBase BUintptr); ("_eino_bool", TBase BBool); ("_eino_string", TBase BString);
    ("_eino_any", TAny) ]%string.

(* GenericRegister: pointers are stripped from the type; a key or a type that is already
   registered is refused *)
Definition E_DUP : N := 5.
Definition opt_some {A} (o : option A) : bool := match o with Some _ => true | None => false end.
Definition register (reg : registry) (k : string) (t : ty) : res registry :=
  let t' := snd (strip_ptr t) in
  if opt_some (m_lookup reg k) then Err E_DUP
  else if opt_some (rm_lookup reg t') then Err E_DUP
  else Ok (reg ++ [(k, t')])%list.
(* a sequence of registrations; a refused one is reported and changes nothing (the callers
   of RegisterSerializableType may ignore the error) *)
Fixpoint register_all (reg : registry) (l : list (string * ty)) : registry :=
  match l with
  | [] => reg
  | (k, t) :: r => match register reg k t with Ok reg' => register_all reg' r | _ => register_all reg r end
  end.

(* the types the encoder looks up in the registry while it walks a value: the type of
   every basic / struct node, the pointer-stripped element, key and value types of every
   container, the pointer-stripped type of every nil pointer.  (The static type of an
   interface position and whatever lies below a nil pointer are never looked up.) *)
Definition stripped (t : ty) : ty := snd (strip_ptr t).
Fixpoint looked_up (v : val) : list ty :=
  match v with
  | VBase b _ => [TBase b]
  | VNamed n b _ => [TNamed n b]
  | VStruct n fs => TStruct n :: flat_map (fun fv => looked_up (snd fv)) fs
  | VNilPtr t => [stripped t]
  | VPtr w => looked_up w
  | VSlice t None => [stripped t]
  | VSlice t (Some es) => stripped t :: flat_map looked_up es
  | VMap k t None => [stripped k; stripped t]
  | VMap k t (Some kvs) => stripped k :: stripped t :: flat_map (fun kv => looked_up (snd kv)) kvs
  | VIface _ None => []
  | VIface _ (Some w) => looked_up w
  | VArray t es => stripped t :: flat_map looked_up es
  | VDef _ w => looked_up w       (* the defined type itself: see [enc_at] *)
  end.

(* monadic map, written with the function outside the fixpoint so that it can be used
   for nested recursion with an arbitrary lambda *)
Definition mapM {A B} (f : A -> res B) : list A -> res (list B) :=
  fix go l := match l with
              | [] => Ok []
              | a :: r => do b <- f a; do bs <- go r; Ok (b :: bs)
              end.

(* the members of the JSON object of a struct key against the declared fields, in order *)
Definition dec_kfields {K} (d : ty -> K -> res val)
  : list (string * K) -> list (string * ty) -> res (list (string * val)) :=
  fix go l ds :=
    match l, ds with
    | [], [] => Ok []
    | (f, j) :: l', (g, ft) :: ds' =>
        if String.eqb f g
        then do v <- d ft j; do r <- go l' ds'; Ok ((f, v) :: r)
        else Err 3%N
    | _, _ => Err 3%N
    end.

Section Ser.
  Variables J JK : Type.                       (* JSON text of a basic value / of a map key *)
  Variable jenc : base -> lit -> res J.        (* json.Marshal on a value of basic kind *)
  Variable jdec : base -> J -> res lit.        (* sonic.Unmarshal into a basic kind *)
  Variable kenc : base -> lit -> res JK.       (* sonic.MarshalString(key) *)
  Variable kdec : base -> JK -> res lit.       (* sonic.UnmarshalString into the key type *)
  Variable fx : fixes.
  Variable reg : registry.
  Variable env : senv.

  (* the plain JSON of a map key (sonic.MarshalString of the key value): the text of a value
     of basic kind, a JSON array for an array key, a JSON object with the fields in
     declaration order for a struct key *)
  Inductive kjson : Type :=
  | KLeaf (j : JK)
  | KArr (l : list kjson)
  | KObj (l : list (string * kjson)).

  (* internalStruct.  The Go record discriminates on which name field is non-empty
     (Type, StructType, MapKeyType, else slice); with non-empty registry names that is
     exactly this sum.  [INull]: Type = key, JSONValue = null. *)
  Inductive istruct : Type :=
  | INull (pn nn : nat) (key : string)          (* PointerNum, NonNilPointerNum *)
  | IBasic (pn : nat) (key : string) (j : J)
  | IStruct (pn : nat) (key : string) (fields : list (string * option istruct))
  | IMap (pn kpn : nat) (kname : string) (vpn : nat) (vname : string)
         (entries : list (kjson * option istruct)) (ct : option string)  (* ContainerType *)
  | ISlice (pn epn : nat) (ename : string) (elems : list (option istruct))
           (arr : bool) (ct : option string).                            (* IsArray, ContainerType *)

  Definition set_cti (ct : option string) (i : istruct) : istruct :=
    match i with
    | IMap pn kpn kn vpn vn es _ => IMap pn kpn kn vpn vn es ct
    | ISlice pn epn en es arr _ => ISlice pn epn en es arr ct
    | _ => i
    end.
  Definition set_ct (ct : option string) (oi : option istruct) : option istruct :=
    match oi with Some i => Some (set_cti ct i) | None => None end.

  Definition lookup_name (t : ty) : res string :=
    match rm_lookup reg t with Some k => Ok k | None => Err E_UNKNOWN_TYPE end.

  (* element / key / value type of a container: strip the pointers, look the rest up *)
  Definition elem_key (t : ty) : res (nat * string) :=
    do k <- lookup_name (snd (strip_ptr t)); Ok (fst (strip_ptr t), k).

  Fixpoint enc_key (k : val) : res kjson :=
    match k with
    | VBase b l => do j <- kenc b l; Ok (KLeaf j)
    | VNamed _ b l => do j <- kenc b l; Ok (KLeaf j)
    | VArray _ es => do l <- mapM enc_key es; Ok (KArr l)
    | VStruct _ fs => do l <- mapM (fun fv => do j <- enc_key (snd fv); Ok (fst fv, j)) fs; Ok (KObj l)
    | _ => Err E_UNMODELLED          (* interface / pointer keys: finding F-C12j, outside the universe *)
    end.

  Definition opt_list {A} (o : option (list A)) : list A :=
    match o with Some l => l | None => [] end.

  (* internalMarshal.  [pn] = pointers dereferenced so far (ret.PointerNum).
     Result None = the Go function returned (nil, nil): a nil interface. *)
  Fixpoint enc_at (pn : nat) (v : val) {struct v} : res (option istruct) :=
    match v with
    | VIface _ o =>
        match pn with
        | O => match o with None => Ok None | Some w => enc_at 0 w end
        | S _ => Err E_UNMODELLED            (* pointer to an interface: outside the universe *)
        end
    | VNilPtr t =>
        do key <- lookup_name (snd (strip_ptr t));
        if fix_b fx
        then Ok (Some (INull (S pn + fst (strip_ptr t)) pn key))
        else Ok (Some (INull (S pn) 0 key))
    | VPtr w => enc_at (S pn) w
    | VStruct n fs =>
        do key <- lookup_name (TStruct n);
        do fields <- mapM (fun fv => do i <- enc_at 0 (snd fv); Ok (fst fv, i)) fs;
        Ok (Some (IStruct pn key fields))
    | VMap k t o =>
        do kk <- elem_key k;
        do vk <- elem_key t;
        do entries <- match o with
                      | None => Ok []
                      | Some kvs => mapM (fun kv => do i <- enc_at 0 (snd kv);
                                                    do jk <- enc_key (fst kv); Ok (jk, i)) kvs
                      end;
        Ok (Some (IMap pn (fst kk) (snd kk) (fst vk) (snd vk) entries None))
    | VSlice t o =>
        do ek <- elem_key t;
        do elems <- match o with
                    | None => Ok []
                    | Some es => mapM (enc_at 0) es
                    end;
        Ok (Some (ISlice pn (fst ek) (snd ek) elems false None))
    | VArray t es =>
        do ek <- elem_key t;
        do elems <- mapM (enc_at 0) es;
        Ok (Some (ISlice pn (fst ek) (snd ek) elems (fix_e fx) None))
    | VDef d w =>
        (* the container is encoded as such; the registered name of the defined type is
           recorded; unregistered and behind a pointer: refused *)
        let ct := if fix_f fx then rm_lookup reg (TDef d (ty_of w)) else None in
        if fix_i fx && negb (Nat.eqb pn 0) && match ct with None => true | Some _ => false end
        then Err E_UNKNOWN_TYPE
        else do oi <- enc_at pn w; Ok (set_ct ct oi)
    | VBase b l =>
        do key <- lookup_name (TBase b);
        do j <- jenc b l;
        Ok (Some (IBasic pn key j))
    | VNamed n b l =>
        do key <- lookup_name (TNamed n b);
        do j <- jenc b l;
        Ok (Some (IBasic pn key j))
    end.

  (* reflect.Value.Set / SetMapIndex / Append of a decoded value into a position of
     type t: identical type, or an interface position (boxing); anything else panics *)
  Definition assign (t : ty) (v : val) : res val :=
    if ty_eqb (ty_of v) t then Ok v
    else if is_iface t && negb (is_iface (ty_of v)) then Ok (VIface t (Some v))
    else match t, v with
         | TDef d u, _ => if ty_eqb (ty_of v) u then Ok (VDef d v) else Panic
         | _, VDef _ w => if ty_eqb (ty_of w) t then Ok w else Panic
         | _, _ => Panic
         end.
  (* (identical underlying types, one of the two types not a defined type: a value of the
     unnamed container type goes into a position of the defined type and vice versa) *)

  (* what ends up in a position of type t: the decoded value, or (value == nil) the zero value *)
  Definition place (t : ty) (o : option val) : res val :=
    match o with
    | None => zero (zero_fuel env) env t
    | Some v => assign t v
    end.

  (* decoding of a possibly absent (nil) sub-tree, and of the content of a position *)
  Definition dec_opt (d : istruct -> res val) (oi : option istruct) : res (option val) :=
    match oi with
    | None => Ok None
    | Some i' => do v <- d i'; Ok (Some v)
    end.
  Definition hole (d : istruct -> res val) (t : ty) (oi : option istruct) : res val :=
    do o <- dec_opt d oi; place t o.

  Definition lookup_ty (k : string) : res ty :=
    match m_lookup reg k with Some t => Ok t | None => Err E_UNKNOWN_TYPE end.

  (* sonic.UnmarshalString into a new value of the key type.  An array text of another
     length and an object whose members are not the declared fields in declaration order are
     errors here: the encoder never writes such texts (sonic itself would fill / skip). *)
  Fixpoint dec_key (kt : ty) (kj : kjson) {struct kj} : res val :=
    match kt, kj with
    | TBase b, KLeaf j => do l <- kdec b j; Ok (VBase b l)
    | TNamed n b, KLeaf j => do l <- kdec b j; Ok (VNamed n b l)
    | TArray n t, KArr l =>
        if Nat.eqb (List.length l) n
        then do es <- mapM (dec_key t) l; Ok (VArray t es)
        else Err E_JSON
    | TStruct n, KObj l =>
        match struct_fields env n with
        | None => Err E_NOSTRUCT
        | Some ds =>
            do fs <- dec_kfields (fun ft j => dec_key ft j) l ds;      (* a mismatch: E_FIELD *)
            Ok (VStruct n fs)
        end
    | _, _ => Err E_UNMODELLED
    end.

  Fixpoint has_name (f : string) (ds : list (string * ty)) : bool :=
    match ds with [] => false | (g, _) :: r => String.eqb f g || has_name f r end.

  (* struct assembly: every declared field gets the decoded value recorded under its
     name (zero value if none / nil) *)
  Definition build_fields (ds : list (string * ty)) (decoded : list (string * option val))
    : res (list (string * val)) :=
    mapM (fun d =>
                do v <- place (snd d) (match alist_get (fst d) decoded with
                                       | Some o => o | None => None end);
                Ok (fst d, v)) ds.

  Definition cpn (pn : nat) : nat := if fix_a fx then pn else O.

  (* containerType: the type a container is rebuilt with *)
  Definition assignable_to (t c : ty) : bool :=
    ty_eqb t c || match c with TDef _ u => ty_eqb u t | _ => false end.
  Definition container_ty (ct : option string) (t : ty) : res ty :=
    match ct with
    | None => Ok t
    | Some k => do c <- lookup_ty k; if assignable_to t c then Ok c else Err E_FIELD
    end.
  Definition as_ty (c : ty) (v : val) : val :=
    match c with TDef d _ => VDef d v | _ => v end.

  (* internalUnmarshal on a non-nil *internalStruct *)
  Fixpoint dec (i : istruct) : res val :=
    match i with
    | INull pn nn key =>
        do t <- lookup_ty key;
        let nn' := Nat.min nn pn in
        do z <- zero (zero_fuel env) env (add_ptr (pn - nn') t);
        Ok (wrap_ptr nn' z)
    | IBasic pn key j =>
        do t <- lookup_ty key;
        match t with
        | TBase b => do l <- jdec b j; Ok (wrap_ptr pn (VBase b l))
        | TNamed n b => do l <- jdec b j; Ok (wrap_ptr pn (VNamed n b l))
        | _ => Err E_UNMODELLED
        end
    | IStruct pn key fields =>
        do t <- lookup_ty key;
        match t with
        | TStruct n =>
            match struct_fields env n with
            | None => Err E_NOSTRUCT
            | Some ds =>
                do decoded <- mapM (fun fi => do o <- dec_opt dec (snd fi); Ok (fst fi, o)) fields;
                if forallb (fun fo => has_name (fst fo) ds) decoded
                then do fs <- build_fields ds decoded; Ok (wrap_ptr pn (VStruct n fs))
                else Err E_FIELD
            end
        | _ => match fields with
               | [] => do z <- zero (zero_fuel env) env t; Ok (wrap_ptr pn z)
               | _ => Panic
               end
        end
    | IMap pn kpn kname vpn vname entries ct =>
        do kt0 <- lookup_ty kname;
        do vt0 <- lookup_ty vname;
        let kt := add_ptr kpn kt0 in
        let vt := add_ptr vpn vt0 in
        do c <- container_ty ct (TMap kt vt);
        do kvs <- mapM (fun e =>
                     do k <- dec_key kt (fst e);
                     do v <- hole dec vt (snd e);
                     Ok (k, v)) entries;
        Ok (wrap_ptr (cpn pn) (as_ty c (VMap kt vt (Some kvs))))
    | ISlice pn epn ename elems arr ct =>
        do et0 <- lookup_ty ename;
        let et := add_ptr epn et0 in
        if arr
        then do c <- container_ty ct (TArray (List.length elems) et);
             do es <- mapM (hole dec et) elems;
             Ok (wrap_ptr (cpn pn) (as_ty c (VArray et es)))
        else do c <- container_ty ct (TSlice et);
             do es <- mapM (hole dec et) elems;
             Ok (wrap_ptr (cpn pn) (as_ty c (VSlice et (match es with [] => None | _ => Some es end))))
    end.

  (* Marshal / Unmarshal.  Marshal(nil) produces the bytes "null", which Unmarshal reads
     as an all-empty internalStruct and rejects ("unknown type: "). *)
  Definition marshal (v : val) : res (option istruct) := enc_at 0 v.
  Definition unmarshal (o : option istruct) : res val :=
    match o with
    | None => Err E_NIL_TOP
    | Some i => dec i
    end.
End Ser.

Arguments KLeaf {JK} j.
Arguments KArr {JK} l.
Arguments KObj {JK} l.
Arguments INull {J JK} pn nn key.
Arguments IBasic {J JK} pn key j.
Arguments IStruct {J JK} pn key fields.
Arguments IMap {J JK} pn kpn kname vpn vname entries ct.
Arguments ISlice {J JK} pn epn ename elems arr ct.

(* ------------------------------------------------------------------------------
   Concrete JSON layer used by the correspondence check: a JSON text is modelled by the
   literal it denotes.  encoding/json refuses NaN / ±Inf and complex numbers and coerces
   invalid UTF-8 in strings to U+FFFD (one replacement per offending byte); sonic's
   MarshalString / UnmarshalString keep key strings byte for byte. *)
Definition float_finite (b : base) (bits : N) : bool :=
  match b with
  | BFloat32 => negb (N.eqb (N.land (N.shiftr bits 23) 255) 255)
  | BFloat64 => negb (N.eqb (N.land (N.shiftr bits 52) 2047) 2047)
  | _ => false
  end.

Definition in_range (lo hi : N) (c : ascii) : bool :=
  let n := N_of_ascii c in N.leb lo n && N.leb n hi.
Definition utf8_repl : string :=
  String (ascii_of_N 239) (String (ascii_of_N 191) (String (ascii_of_N 189) EmptyString)).

(* utf8.DecodeRuneInString's acceptance table; an offending byte becomes U+FFFD *)
Fixpoint utf8_coerce (s : string) : string :=
  match s with
  | EmptyString => EmptyString
  | String a r =>
      let x := N_of_ascii a in
      if N.ltb x 128 then String a (utf8_coerce r)
      else
        let bad := (utf8_repl ++ utf8_coerce r)%string in
        if N.ltb x 194 then bad
        else if N.ltb x 224 then
          match r with
          | String b r2 =>
              if in_range 128 191 b then String a (String b (utf8_coerce r2)) else bad
          | _ => bad
          end
        else if N.ltb x 240 then
          let lo := if N.eqb x 224 then 160%N else 128%N in
          let hi := if N.eqb x 237 then 159%N else 191%N in
          match r with
          | String b (String c r3) =>
              if in_range lo hi b && in_range 128 191 c
              then String a (String b (String c (utf8_coerce r3))) else bad
          | _ => bad
          end
        else if N.ltb x 245 then
          let lo := if N.eqb x 240 then 144%N else 128%N in
          let hi := if N.eqb x 244 then 143%N else 191%N in
          match r with
          | String b (String c (String d r4)) =>
              if in_range lo hi b && in_range 128 191 c && in_range 128 191 d
              then String a (String b (String c (String d (utf8_coerce r4)))) else bad
          | _ => bad
          end
        else bad
  end.
Definition valid_utf8 (s : string) : bool := String.eqb (utf8_coerce s) s.

(* literals on which the JSON layer is required to round-trip *)
Definition jsafe (l : lit) : bool :=
  match l with LStr s => valid_utf8 s | _ => true end.

Definition jenc_c (b : base) (l : lit) : res lit :=
  match l with
  | LFloat bits => if float_finite b bits then Ok l else Err E_JSON
  | LComplex _ _ => Err E_JSON
  | LStr s => Ok (LStr (utf8_coerce s))
  | _ => Ok l
  end.
Definition jdec_c (b : base) (j : lit) : res lit :=
  if lit_in_base b j then Ok j else Err E_JSON.
Definition kenc_c (b : base) (l : lit) : res lit :=
  match l with
  | LFloat bits => if float_finite b bits then Ok l else Err E_JSON
  | LComplex _ _ => Err E_JSON
  | _ => Ok l
  end.
Definition kdec_c (b : base) (j : lit) : res lit :=
  if lit_in_base b j then Ok j else Err E_JSON.

Definition istruct_c := istruct lit lit.
Definition enc_c (fx : fixes) (reg : registry) (v : val) : res (option istruct_c) :=
  marshal lit lit jenc_c kenc_c fx reg v.
Definition dec_c (fx : fixes) (reg : registry) (env : senv) (o : option istruct_c) : res val :=
  unmarshal lit lit jdec_c kdec_c fx reg env o.

(* byte string from byte codes (how the harness prints non-ASCII strings) *)
Fixpoint sb (l : list N) : string :=
  match l with [] => EmptyString | n :: r => String (ascii_of_N n) (sb r) end.
