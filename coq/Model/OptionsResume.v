(* Model/OptionsResume.v — property C16 on a run that is re-entered from a checkpoint.

   Modelled code (cloudwego/eino, compose/):
     checkpoint.go   checkpoint{Inputs, SkipPreHandler, SubGraphs}, forwardCheckPoint
                     (a restored task of a sub graph node carries the nested checkpoint
                     cp.SubGraphs[key], every other task carries none), clearCheckPoint
     graph_run.go    runner.run: extractOption(opts) happens on EVERY call, before the
                     checkpoint is looked at; then either restoreTasks(cp.Inputs,
                     cp.SkipPreHandler, optMap) (top level: checkpoint from the store; sub graph:
                     checkpoint from the context) or the fresh start, and from then on
                     createTasks(nodeMap, optMap) for every later step.
                       restoreTasks:  option: nil; if opt, ok := optMap[key]; ok { option = opt }
                       createTasks :  option: optMap[nodeKey]
     graph_manager.go  taskManager.execute: initNodeCallbacks(..., t.opts...) with the options
                     of THIS call for restored and created tasks alike.

   Which nodes execute in the call (n_runs of the forest) is an input, as in Model/Options.v:
   the interrupt machinery decides it, C16 does not talk about it. Executable definitions
   only. *)
From Eino Require Import Base.Util Model.Options.

(* the part of a checkpoint that decides how a task of the resuming call is built: the keys of
   cp.Inputs and the nested checkpoints cp.SubGraphs (their keys are the ones with
   cp.SkipPreHandler: sub graphs that were interrupted inside) *)
Inductive ckpt : Type := Ckpt (inputs : list key) (subs : list (key * ckpt)).
Definition ck_inputs (c : ckpt) : list key := match c with Ckpt i _ => i end.
Definition ck_subs (c : ckpt) : list (key * ckpt) := match c with Ckpt _ s => s end.

Fixpoint find_sub (k : key) (subs : list (key * ckpt)) : option ckpt :=
  match subs with
  | [] => None
  | (k', c) :: subs' => if N.eqb k k' then Some c else find_sub k subs'
  end.
Definition mem_key (k : key) (l : list key) : bool := existsb (N.eqb k) l.

(* task{option, skipPreHandler, ctx's checkpoint} *)
Record task : Type := mkTask {
  t_option : list entry;
  t_skip_pre : bool;
  t_ckpt : option ckpt
}.

(* createTasks *)
Definition create_task (k : key) (m : optmap) : task :=
  mkTask (om_get k m) false None.

(* restoreTasks. [drop_skipped] = false is the code; true is the shape of a regression that
   was planted to test the check (a task that skips its pre-handler — a re-entered sub graph —
   is built without its options), kept to show that the theorems below are sensitive to it. *)
Definition restore_task (drop_skipped : bool) (k : key) (m : optmap) (c : ckpt) : task :=
  let sub := find_sub k (ck_subs c) in
  let skip := match sub with Some _ => true | None => false end in
  let opt := match nlist_get k m with
             | Some l => if drop_skipped && skip then [] else l
             | None => []
             end in
  mkTask opt skip sub.

(* a node that executes in this call was either waiting in the checkpoint or is created by a
   later step of this call *)
Definition task_of (drop_skipped : bool) (c : option ckpt) (k : key) (m : optmap) : task :=
  match c with
  | Some c' => if mem_key k (ck_inputs c') then restore_task drop_skipped k m c' else create_task k m
  | None => create_task k m
  end.

(* runner.run of graph [gi] under node path [pre], entered with checkpoint [c] (None: fresh) *)
Fixpoint run_resume_gen (drop_skipped : bool) (fuel : nat) (F : forest) (gi : nat) (pre : path)
         (inh : list N) (opts : list copt) (c : option ckpt) : res (list report) :=
  match fuel with
  | O => Err E_FUEL
  | S f =>
    match nth_error F gi with
    | None => Err E_GRAPH
    | Some g =>
      do m <- validate fuel F gi opts;
      res_flat_mapM (fun nd =>
        if negb (n_runs nd) then Ok [] else
        let p := pre ++ [n_key nd] in
        let hs := inh ++ node_handlers (n_key nd) opts in
        let t := task_of drop_skipped c (n_key nd) m in
        match n_kind nd with
        | KComp ty =>
            do its <- convert_items ty (t_option t);
            Ok [mkRep p (Some its) (if n_cb nd then Some hs else None)]
        | KSub gj =>
            do os <- convert_opts (t_option t);
            do rs <- run_resume_gen drop_skipped f F gj p hs os (t_ckpt t);
            Ok (mkRep p None (Some hs) :: rs)
        end) g
    end
  end.

Definition run_resume := run_resume_gen false.

(* one call of a session on the compiled top-level graph: [c] is what the store holds for the
   call's checkpoint id (None: nothing, the run starts from START) *)
Definition resume_call_gen (drop_skipped : bool) (F : forest) (opts : list copt) (c : option ckpt)
  : res (list report) :=
  let inh := graph_handlers opts in
  do rs <- run_resume_gen drop_skipped (S (List.length F)) F 0 [] inh opts c;
  Ok (mkRep [] None (Some inh) :: rs).
Definition resume_call := resume_call_gen false.

Definition resume (F : forest) (cl : call) (c : option ckpt) : res (list report) :=
  do opts <- call_opts cl; resume_call F opts c.
