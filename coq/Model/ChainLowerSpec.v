(* Model/ChainLowerSpec.v — property C01: the chain lowering methods of compose/chain.go (reportError, nextNodeKey,
   addNode, AppendParallel, AppendBranch, addEndIfNeeded) as functions on the record [chain_st] of
   Model/ChainGenLib.v, written by hand from the source with structural recursion in place of the loops;
   tools/go2v regenerates them statement by statement on every run (Gen/ChainLower.v).
   Proofs/GenAgreeChainLower.v proves the generated functions equal to these (for every graph implementation and
   every argument), and these to build the graph [chain_lower] of Model/Chain.v.  Definitions only. *)
From Eino Require Import Base.Util Model.Graph Model.ImpGenLib Model.ChainGenLib.
Local Open Scope string_scope.

Section Spec.
  Variables G GN GO PR PAR CB GB : Type.
  Variable err_code : nat -> N.
  Variable err_compiled : N.
  Variable auto_key : string -> list fmt_arg -> key.
  Variable k_empty : key.
  Variable zero_pair : PR.
  Variable g_compiled : G -> bool.
  Variable g_add_node : G -> key -> GN -> GO -> G * option N.
  Variable g_add_edge : G -> key -> key -> G * option N.
  Variable g_add_branch : G -> key -> GB -> G * option N.
  Variable gn_is_nil : GN -> bool.
  Variable opts_key : GO -> key.
  Variables opts_present opts_has_node_options : GO -> bool.
  Variable pr_first : PR -> GN.
  Variable pr_second : PR -> GO.
  Variable par_is_nil : PAR -> bool.
  Variable par_err : PAR -> option N.
  Variable par_nodes : PAR -> list PR.
  Variable br_is_nil : CB -> bool.
  Variable br_err : CB -> option N.
  Variable br_nodes : CB -> list (key * PR).
  Variable mk_branch : CB -> list (key * key) -> GB.

  (* the first error sticks *)
  Definition chain_reportError (c : chain_st G) (err : option N) : chain_st G :=
    if is_none (ch_err c) then ch_set_err c err else c.

  Definition chain_nextNodeKey (c : chain_st G) : key * chain_st G :=
    (auto_key "node_%d" [fa_nat (ch_idx c)], ch_set_idx c (S (ch_idx c))).

  (* AddEdge(p, to) for every p, in order; the first failure is reported ([wrap] = how) and ends the method *)
  Fixpoint add_edges_to (wrap : option N -> option N) (c : chain_st G) (froms : list key) (to : key) : chain_st G * bool :=
    match froms with
    | [] => (c, false)
    | p :: rest =>
        let '(g, e) := g_add_edge (ch_g c) p to in
        let c := ch_set_g c g in
        if is_some e then (chain_reportError c (wrap e), true) else add_edges_to wrap c rest to
    end.

  Definition chain_addNode (c : chain_st G) (node : GN) (options : GO) : chain_st G :=
    if is_some (ch_err c) then c
    else if g_compiled (ch_g c) then chain_reportError c (Some err_compiled)
    else if gn_is_nil node then chain_reportError c (Some (err_code 1%nat))
    else
      let '(dflt, c) := chain_nextNodeKey c in
      let nodeKey := if key_eqb (opts_key options) k_empty then dflt else opts_key options in
      let '(g, err) := g_add_node (ch_g c) nodeKey node options in
      let c := ch_set_g c g in
      if is_some err then chain_reportError c err
      else
        let c := if Nat.eqb (List.length (ch_prev c)) 0 then ch_set_prev c (ch_prev c ++ [kSTART]) else c in
        let '(c, failed) := add_edges_to (fun e => e) c (ch_prev c) nodeKey in
        if failed then c else ch_set_prev c [nodeKey].

  (* the graph key of a Parallel / Branch node: its own WithNodeKey, else generated *)
  Definition own_key (node : PR) : option key :=
    if opts_present (pr_second node) && opts_has_node_options (pr_second node)
       && negb (key_eqb (opts_key (pr_second node)) k_empty)
    then Some (opts_key (pr_second node)) else None.

  (* the node a Parallel / Branch is attached to *)
  Definition start_node (c : chain_st G) : option key :=
    match ch_prev c with
    | [] => Some kSTART
    | [p] => Some p
    | _ => None
    end.

  Fixpoint par_add (c : chain_st G) (start prefix : key) (i : nat) (nodes : list PR) (acc : list key)
    : chain_st G * list key * bool :=
    match nodes with
    | [] => (c, acc, false)
    | node :: rest =>
        let nodeKey := match own_key node with Some k => k | None => auto_key "%s_parallel_%d" [fa_key prefix; fa_nat i] end in
        let '(g, err) := g_add_node (ch_g c) nodeKey (pr_first node) (pr_second node) in
        let c := ch_set_g c g in
        if is_some err then (chain_reportError c (Some (err_code 5%nat)), acc, true)
        else
          let '(g, err) := g_add_edge (ch_g c) start nodeKey in
          let c := ch_set_g c g in
          if is_some err then (chain_reportError c (Some (err_code 6%nat)), acc, true)
          else par_add c start prefix (S i) rest (acc ++ [nodeKey])
    end.

  Definition chain_AppendParallel (c : chain_st G) (p : PAR) : chain_st G :=
    if par_is_nil p then chain_reportError c (Some (err_code 1%nat))
    else if is_some (par_err p) then chain_reportError c (Some (err_code 2%nat))
    else if Nat.leb (List.length (par_nodes p)) 1 then chain_reportError c (Some (err_code 3%nat))
    else match start_node c with
         | None => chain_reportError c (Some (err_code 4%nat))
         | Some start =>
             let '(prefix, c) := chain_nextNodeKey c in
             let '(c, keys, failed) := par_add c start prefix 0 (par_nodes p) [] in
             if failed then c else ch_set_prev c keys
         end.

  Fixpoint br_add (c : chain_st G) (prefix : key) (all : list (key * PR)) (keys : list key) (k2n : list (key * key))
    : chain_st G * list (key * key) * bool :=
    match keys with
    | [] => (c, k2n, false)
    | bk :: rest =>
        let node := bn_get zero_pair all bk in
        let nodeKey := match own_key node with Some k => k | None => auto_key "%s_branch_%s" [fa_key prefix; fa_key bk] end in
        let '(g, err) := g_add_node (ch_g c) nodeKey (pr_first node) (pr_second node) in
        let c := ch_set_g c g in
        if is_some err then (chain_reportError c (Some (err_code 6%nat)), k2n, true)
        else br_add c prefix all rest (km_set bk nodeKey k2n)
    end.

  Definition chain_AppendBranch (c : chain_st G) (b : CB) : chain_st G :=
    if br_is_nil b then chain_reportError c (Some (err_code 1%nat))
    else if is_some (br_err b) then chain_reportError c (Some (err_code 2%nat))
    else if Nat.eqb (List.length (br_nodes b)) 0 then chain_reportError c (Some (err_code 3%nat))
    else if Nat.eqb (List.length (br_nodes b)) 1 then chain_reportError c (Some (err_code 4%nat))
    else match start_node c with
         | None => chain_reportError c (Some (err_code 5%nat))
         | Some start =>
             let '(prefix, c) := chain_nextNodeKey c in
             let '(c, k2n, failed) := br_add c prefix (br_nodes b) (bn_keys (br_nodes b)) km_empty in
             if failed then c
             else
               let '(g, err) := g_add_branch (ch_g c) start (mk_branch b k2n) in
               let c := ch_set_g c g in
               if is_some err then chain_reportError c (Some (err_code 7%nat))
               else ch_set_prev c (km_values k2n)
         end.

  (* AddEdge(p, END) for every previous node; the first failure is returned *)
  Fixpoint end_edges (c : chain_st G) (froms : list key) : chain_st G * option (option N) :=
    match froms with
    | [] => (c, None)
    | p :: rest =>
        let '(g, e) := g_add_edge (ch_g c) p kEND in
        let c := ch_set_g c g in
        if is_some e then (c, Some e) else end_edges c rest
    end.

  Definition chain_addEndIfNeeded (c : chain_st G) : option N * chain_st G :=
    if is_some (ch_err c) then (ch_err c, c)
    else if ch_has_end c then (None, c)
    else if Nat.eqb (List.length (ch_prev c)) 0 then (Some (err_code 1%nat), c)
    else
      let '(c, r) := end_edges c (ch_prev c) in
      match r with
      | Some e => (e, c)
      | None => (None, ch_set_has_end c true)
      end.
End Spec.
