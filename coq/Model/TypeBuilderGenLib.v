(* Model/TypeBuilderGenLib.v — property C07: the vocabulary of the statement-by-statement
   translations (tools/go2v, extractors "c07_validate", "c07_asserttype", "c07_helper") of
     compose/graph.go   getNodeInputType, getNodeOutputType, getNodeGenericHelper,
                        the body of the entry loop of updateToValidateMap,
                        the type handling of addBranch (typing of a passthrough start node,
                        condition check, handlerPreBranch converter; the body of the loop
                        over branch.endNodes),
                        the state-handler checks of addNode
     compose/utils.go   assertType
   i.e. what a Go expression / statement of those functions means on the builder state of
   Model/TypeBuilder.v.  Definitions only.

   A genericHelper is modelled by the pair of types (I side, O side) at which its input* /
   output* fields are instantiated (newGenericHelper[I, O]); [None] is the nil helper of a
   passthrough node that has no type yet.  The builder state of Model/TypeBuilder.v does not
   carry the helpers (it records the type a converter checks directly): the translated code
   runs on [xstate] = builder state + the helper of every node, and Proofs/GenAgreeC07Build.v
   proves that (1) the helper of a node always is (its input type, its output type), so the
   converter the code takes from a helper checks the type the model records, and (2) the
   builder-state component evolves exactly as the model's functions say. *)
From Eino Require Import Base.Util Model.Types Model.TypesGenLib Model.TypeBuilder.

Definition helper := option (ty * ty).
Definition gh_new (i o : ty) : helper := Some (i, o).
(* genericHelper.forPredecessorPassthrough / forSuccessorPassthrough: every field from the
   input side / from the output side (table tie: Gen/HelperTable.v, Proofs/GenAgreeC07Helper.v) *)
Definition gh_for_pred (h : helper) : helper :=
  match h with Some (i, _) => Some (i, i) | None => None end.
Definition gh_for_succ (h : helper) : helper :=
  match h with Some (_, o) => Some (o, o) | None => None end.
(* h.inputConverter / h.outputConverter: the type the run-time check asserts *)
Definition gh_conv_in (h : helper) : option ty := option_map fst h.
Definition gh_conv_out (h : helper) : option ty := option_map snd h.

Record xstate : Type := { x_st : gstate; x_gh : list (key * helper) }.

(* g.inputType() / g.outputType(): expectedInputType / expectedOutputType, never nil *)
Definition x_graph_in (xs : xstate) : option ty := Some (g_in (x_st xs)).
Definition x_graph_out (xs : xstate) : option ty := Some (g_out (x_st xs)).
(* g.genericHelper = newGenericHelper[I, O]() of NewGraph[I, O] *)
Definition x_graph_gh (xs : xstate) : helper := gh_new (g_in (x_st xs)) (g_out (x_st xs)).

(* g.nodes[k].inputType() / .cr.inputType (no input / output key, no nested AnyGraph whose type
   differs from cr's: the harness adds sub graphs whose cr-level types are the graph's) *)
Definition x_node_in (xs : xstate) (k : key) : option ty :=
  match get_node (x_st xs) k with Some n => n_in n | None => None end.
Definition x_node_out (xs : xstate) (k : key) : option ty :=
  match get_node (x_st xs) k with Some n => n_out n | None => None end.
(* g.nodes[k].getGenericHelper() / .cr.genericHelper *)
Definition x_node_gh (xs : xstate) (k : key) : helper :=
  match nlist_get k (x_gh xs) with Some h => h | None => None end.
(* g.nodes[k].executorMeta.component == ComponentOfPassthrough *)
Definition x_is_pass (xs : xstate) (k : key) : bool := is_pass (x_st xs) k.
(* _, ok := g.nodes[k] *)
Definition x_has_node (xs : xstate) (k : key) : bool := has_node (x_st xs) k.

Definition set_in (t : option ty) (n : node) : node :=
  {| n_pass := n_pass n; n_in := t; n_out := n_out n; n_pre := n_pre n; n_post := n_post n;
     n_pre_ret := n_pre_ret n; n_post_ret := n_post_ret n |}.
Definition set_out (t : option ty) (n : node) : node :=
  {| n_pass := n_pass n; n_in := n_in n; n_out := t; n_pre := n_pre n; n_post := n_post n;
     n_pre_ret := n_pre_ret n; n_post_ret := n_post_ret n |}.

(* g.nodes[k].cr.inputType = t *)
Definition x_set_in (xs : xstate) (k : key) (t : option ty) : xstate :=
  {| x_st := set_nodes (x_st xs) (map_node k (set_in t) (g_nodes (x_st xs))); x_gh := x_gh xs |}.
(* g.nodes[k].cr.outputType = t *)
Definition x_set_out (xs : xstate) (k : key) (t : option ty) : xstate :=
  {| x_st := set_nodes (x_st xs) (map_node k (set_out t) (g_nodes (x_st xs))); x_gh := x_gh xs |}.
(* g.nodes[k].cr.genericHelper = h *)
Definition x_set_gh (xs : xstate) (k : key) (h : helper) : xstate :=
  {| x_st := x_st xs; x_gh := nlist_set k h (x_gh xs) |}.
(* g.handlerOnEdges[s][e] = append(g.handlerOnEdges[s][e], c): c is the inputConverter of a
   helper; taking it from a nil helper is a nil dereference in Go (distinguished: no entry) *)
Definition x_add_hedge (xs : xstate) (s e : key) (c : option ty) : xstate :=
  match c with
  | Some t => {| x_st := set_hedge (x_st xs) (g_hedge (x_st xs) ++ [(s, e, t)]); x_gh := x_gh xs |}
  | None => xs
  end.
(* g.addToValidateMap(s, e, nil) *)
Definition x_add_tvm (xs : xstate) (s e : key) : xstate :=
  {| x_st := set_tvm (x_st xs) (g_tvm (x_st xs) ++ [(s, e)]); x_gh := x_gh xs |}.
(* if s == START { g.startNodes = append(..) } ; if e == END { g.endNodes = append(..) } *)
Definition x_mark_start (xs : xstate) : xstate :=
  {| x_st := mark_ends (x_st xs) kSTART kSTART; x_gh := x_gh xs |}.
Definition x_mark_end (xs : xstate) : xstate :=
  {| x_st := mark_ends (x_st xs) kEND kEND; x_gh := x_gh xs |}.

(* result of the translated body of the entry loop of updateToValidateMap *)
Inductive xres : Type :=
| XCont (removed changed : bool) (xs : xstate)   (* continue / end of the body: on to the next entry *)
| XFail                                          (* return <error> *)
| XMapped.                                       (* the field-mapping part of the body (outside the model) *)

(* result of the translated pieces of addBranch *)
Inductive bres : Type :=
| BOk (xs : xstate) (conv : list (option ty))    (* end of the piece; conv = what was appended to handlerPreBranch[start] *)
| BFail.                                         (* return <error> *)

(* plain Go [v.(T)] *)
Definition go_assert (u : univ) (d : dyn) (t : ty) : bool := assert_type_v0 u d t.
Definition dyn_is_nil (d : dyn) : bool := match d with DNil => true | DVal _ => false end.

(* ---- the loop skeleton of updateToValidateMap around a translated body (the skeleton itself
   -- for { hasChanged := false; for startNode := range g.toValidateMap { for i := 0; i <
   len(g.toValidateMap[startNode]); i++ { BODY } }; if !hasChanged { break } }; return nil, the
   removal of entry i followed by i-- -- is matched structurally by the extractor, not
   translated): the entries in the order the two inner loops visit them, a removed entry is
   dropped from the list, hasChanged is the disjunction of what the bodies assigned *)
Section XLoop.
  Variable body : xstate -> key -> key -> bool -> xres.

  Fixpoint x_pass (xs : xstate) (todo : list (key * key)) : option (xstate * list (key * key) * bool) :=
    match todo with
    | [] => Some (xs, [], false)
    | (s, e) :: rest =>
        match body xs s e true with
        | XCont removed changed xs1 =>
            match x_pass xs1 rest with
            | Some (xs', kept, ch) => Some (xs', (if removed then kept else (s, e) :: kept), changed || ch)
            | None => None
            end
        | _ => None
        end
    end.

  Definition x_set_tvm (xs : xstate) (t : list (key * key)) : xstate :=
    {| x_st := set_tvm (x_st xs) t; x_gh := x_gh xs |}.

  Fixpoint x_update (fuel : nat) (orc : nat -> list key) (n : nat) (xs : xstate) : option (option xstate) :=
    match fuel with
    | O => None                                   (* out of fuel *)
    | S f =>
        match x_pass xs (group_order (orc n) (g_tvm (x_st xs))) with
        | None => Some None                       (* return <error> *)
        | Some (xs', kept, ch) =>
            let xs'' := x_set_tvm xs' kept in
            if ch then x_update f orc (S n) xs'' else Some (Some xs'')
        end
    end.
End XLoop.

(* ---- addNode: options.processor's handlers as the model's [option hspec] *)
Definition opt_some {A} (o : option A) : bool := match o with Some _ => true | None => false end.
(* g.stateType == options.processor.preStateType (reflect.Type of the state; nil without state) *)
Definition st_eq (a b : option N) : bool :=
  match a, b with
  | Some x, Some y => N.eqb x y
  | None, None => true
  | _, _ => false
  end.
Definition h_state_of (h : option hspec) : option N := option_map h_state h.
Definition h_ty_of (h : option hspec) : option ty := option_map h_ty h.

(* ---- genericHelper field by field (tables of Gen/HelperTable.v): [newtbl] says at which type
   parameter of newGenericHelper[I, O] every field is instantiated; a derived helper copies every
   field from a field of its receiver ([tbl]) *)
Definition field_ty (newtbl : list (string * string)) (h : ty * ty) (f : string) : option ty :=
  match alist_get f newtbl with
  | Some p => if String.eqb p "I" then Some (fst h) else if String.eqb p "O" then Some (snd h) else None
  | None => None
  end.
Definition derived_field_ty (newtbl tbl : list (string * string)) (h : ty * ty) (f : string) : option ty :=
  match alist_get f tbl with
  | Some src => field_ty newtbl h src
  | None => None
  end.

(* ---- addEdgeWithMappings as a whole (Gen/AddEdgeCode.v) *)
Inductive ares : Type :=
| AOk (xs : xstate)     (* return nil *)
| AFailPlain            (* an error returned before the deferred function is installed: nothing changes *)
| AFailSticky           (* an error behind it: g.buildError is set; whatever the call changed before is
                           unobservable from then on (every later call and Compile return the build error) *)
| AOutside.             (* a path outside the model (a Workflow branch without data flow) *)

(* for endNode := range branch.endNodes { BODY }: the end nodes in the order the map iteration delivers
   them; the first failing iteration ends the call *)
Fixpoint x_fold_ends (body : nat -> xstate -> key -> option xstate) (j : nat) (xs : xstate) (ends : list key) : option xstate :=
  match ends with
  | [] => Some xs
  | e :: rest => match body j xs e with
                 | Some xs1 => x_fold_ends body (S j) xs1 rest
                 | None => None
                 end
  end.
Definition bres_opt (r : bres) : option xstate := match r with BOk xs _ => Some xs | BFail => None end.
(* g.branches[s] = append(g.branches[s], branch) *)
Definition x_push_branch (xs : xstate) (s : key) (t : ty) (ends choice : list key) (conv : list ty) : xstate :=
  {| x_st := set_branches (x_st xs) (g_branches (x_st xs) ++ [(s, {| b_ty := t; b_ends := ends; b_choice := choice; b_conv := conv |})]);
     x_gh := x_gh xs |}.
Definition conv_tys (l : list (option ty)) : list ty :=
  flat_map (fun o => match o with Some t => [t] | None => [] end) l.
(* g.nodes[key] = node: the node with its declared types and handlers; its helper is the one of its
   runnable (newGenericHelper[I, O]; a passthrough node has none yet) *)
Definition x_push_node (xs : xstate) (k : key) (isp : bool) (i o : option ty) (pre post : option hspec) : xstate :=
  {| x_st := set_nodes (x_st xs) (g_nodes (x_st xs) ++
       [(k, {| n_pass := isp; n_in := i; n_out := o;
               n_pre := option_map h_ty pre; n_post := option_map h_ty post;
               n_pre_ret := match pre with Some h => h_ret h | None => None end;
               n_post_ret := match post with Some h => h_ret h | None => None end |})]);
     x_gh := nlist_set k (match i, o with Some a, Some b => gh_new a b | _, _ => None end) (x_gh xs) |}.
(* for i := range g.controlEdges[s] { if g.controlEdges[s][i] == e … } *)
Definition x_has_ctrl (xs : xstate) (s e : key) : bool := mem_pair (s, e) (g_ctrl (x_st xs)).
Definition x_has_data (xs : xstate) (s e : key) : bool := mem_pair (s, e) (g_data (x_st xs)).
(* g.controlEdges[s] = append(g.controlEdges[s], e) *)
Definition x_add_ctrl (xs : xstate) (s e : key) : xstate :=
  {| x_st := set_ctrl (x_st xs) (g_ctrl (x_st xs) ++ [(s, e)]); x_gh := x_gh xs |}.
Definition x_add_data (xs : xstate) (s e : key) : xstate :=
  {| x_st := set_data (x_st xs) (g_data (x_st xs) ++ [(s, e)]); x_gh := x_gh xs |}.

(* ---- the whole builder on [xstate], assembled from translated pieces (Section variables; they are
   instantiated with the definitions of Gen/ValidateCode.v, Gen/BranchCode.v, Gen/AddNodeCode.v in
   Proofs/GenAgreeC07Run.v).  AddLambdaNode / AddPassthroughNode, AddEdge and AddBranch are the translated
   addNode, addEdgeWithMappings and addBranch as wholes (addBranch: the translated skeleton around the
   separately translated pieces branch_head / branch_end); Compile is the sticky build error followed by
   the translated checks; a node added with declared types gets the helper newGenericHelper[I, O] of
   its runnable, a passthrough node none. *)
Section XBuilder.
  Variable entry : xstate -> key -> key -> bool -> xres.
  Variable nodef : xstate -> key -> bool -> option ty -> option ty -> option hspec -> option hspec -> ares.
  Variable edge : (xstate -> option xstate) -> xstate -> key -> key -> bool -> bool -> ares.
  Variable branchf : (nat -> xstate -> option xstate) -> xstate -> key -> ty -> list key -> list key -> list key -> bool -> ares.
  Variable cchecks : xstate -> bool.

  Definition x_upd (orc : nat -> list key) (xs : xstate) : option xstate :=
    match x_update entry (S (List.length (g_tvm (x_st xs)))) orc 0 xs with
    | Some (Some xs') => Some xs'
    | _ => None
    end.

  Definition x_with (xs : xstate) (st : gstate) : xstate := {| x_st := st; x_gh := x_gh xs |}.
  Definition x_err (xs : xstate) : xstate := x_with xs (set_err (x_st xs)).

  (* what a call leaves behind, by the way it returned *)
  Definition x_of_ares (xs : xstate) (r : ares) : xstate * bool :=
    match r with
    | AOk xs' => (xs', true)
    | AFailPlain => (xs, false)
    | AFailSticky => (x_err xs, false)
    | AOutside => (xs, false)
    end.

  (* AddLambdaNode / AddPassthroughNode: the translated addNode *)
  Definition x_add_node (xs : xstate) (k : key) (isp : bool) (i o : option ty) (pre post : option hspec) : xstate * bool :=
    x_of_ares xs (nodef xs k isp i o pre post).

  (* AddEdge: the translated addEdgeWithMappings (an ordinary edge: control and data, no mappings) *)
  Definition x_add_edge (orc : nat -> nat -> list key) (xs : xstate) (s e : key) : xstate * bool :=
    x_of_ares xs (edge (x_upd (orc 0%nat)) xs s e false false).

  (* AddBranch: the translated addBranch (with data flow); the k-th call of updateToValidateMap inside
     it iterates toValidateMap in the order the model's oracle gives for it, the end nodes are visited
     in the order [order_keys (orc 0 0) ends] *)
  Definition x_branch_upd (orc : nat -> nat -> list key) (j : nat) : xstate -> option xstate :=
    match j with
    | O => x_upd (fun n => orc 0%nat (S n))
    | S j' => x_upd (orc (S j'))
    end.
  Definition x_add_branch (orc : nat -> nat -> list key) (xs : xstate) (s : key) (t : ty) (ends choice : list key) : xstate * bool :=
    x_of_ares xs (branchf (x_branch_upd orc) xs s t ends (order_keys (orc 0%nat 0%nat) ends) choice false).

  (* compile: the sticky build error, then the translated checks *)
  Definition x_compile (xs : xstate) : xstate * bool :=
    if g_err (x_st xs) then (xs, false)
    else if cchecks xs then (x_with xs (set_compiled (x_st xs)), true)
    else (xs, false).

  Definition x_step (orc : nat -> nat -> list key) (xs : xstate) (o : op) : xstate * bool :=
    match o with
    | OpNode k i ot pre post => x_add_node xs k false (Some i) (Some ot) pre post
    | OpPass k pre post => x_add_node xs k true None None pre post
    | OpEdge s e => x_add_edge orc xs s e
    | OpBranch s t ends choice => x_add_branch orc xs s t ends choice
    | OpCompile => x_compile xs
    end.

  Fixpoint x_run_ops (orcs : nat -> nat -> nat -> list key) (i : nat) (xs : xstate) (ops : list op) : xstate * list bool :=
    match ops with
    | [] => (xs, [])
    | o :: rest =>
        let '(xs1, ok) := x_step (orcs i) xs o in
        let '(xs2, oks) := x_run_ops orcs (S i) xs1 rest in
        (xs2, ok :: oks)
    end.
End XBuilder.

(* ---- run time (Gen/RuntimeCode.v): the handler managers of compose/graph_manager.go *)
Inductive rres : Type :=
| RPass (d : dyn)     (* return value, nil *)
| RStop               (* return nil, err *)
| RStream.            (* the stream branch (lazy conversion: outside the value model) *)

(* result of a converter / an entry wrapper *)
Inductive eres : Type :=
| EVal (d : dyn)      (* the value handed on *)
| EErr                (* return nil, <error>: an ordinary error *)
| EPanic.             (* panic(...) *)

(* for _, v := range hs { value, err = v.invoke(value); if err != nil { return nil, err } } :
   the handlers one after the other, the first error ends the loop; a handler is given by the
   type its converter was instantiated at (a panicking handler does not return either) *)
Fixpoint run_handlers (invoke : ty -> dyn -> eres) (hs : list ty) (value : dyn) : option dyn :=
  match hs with
  | [] => Some value
  | h :: r => match invoke h value with
              | EVal v => run_handlers invoke r v
              | _ => None
              end
  end.

(* ---- compile (Gen/CompileCode.v) *)
(* for _, v := range g.toValidateMap { if len(v) > 0 … } : some entry is still pending *)
Definition x_any_pending (xs : xstate) : bool :=
  match g_tvm (x_st xs) with [] => false | _ :: _ => true end.
(* for _, node := range g.nodes { if C(node) … } *)
Definition x_any_node (p : node -> bool) (xs : xstate) : bool :=
  existsb (fun kn => p (snd kn)) (g_nodes (x_st xs)).

(* ---- WithInputKey / WithOutputKey: genericHelper.forMapInput / forMapOutput: the keyed side is
   instantiated anew at map[string]any (the type [m] of the universe), the other side is kept *)
Definition gh_for_map_in (m : ty) (h : helper) : helper :=
  match h with Some (_, o) => Some (m, o) | None => None end.
Definition gh_for_map_out (m : ty) (h : helper) : helper :=
  match h with Some (i, _) => Some (i, m) | None => None end.
(* field f of a helper derived through a keyed table: "copy:g" = field g of the receiver,
   "new:T" = a new instantiation at T (only map[string]any occurs: the type [m]) *)
Definition keyed_field_ty (newtbl tbl : list (string * string)) (m : ty) (h : ty * ty) (f : string) : option ty :=
  match alist_get f tbl with
  | Some src =>
      if String.eqb (substring 0 5 src) "copy:" then field_ty newtbl h (substring 5 (String.length src - 5) src)
      else if String.eqb src "new:map[string]any" then Some m
      else None
  | None => None
  end.

(* the declared type of a side of a node: map[string]any when the node was added with a key for
   that side, else the type of its runnable / graph *)
Definition declared_ty (m : ty) (keyed : bool) (t : option ty) : option ty := if keyed then Some m else t.
