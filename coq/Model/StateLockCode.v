(* Model/StateLockCode.v — C11: the code of compose/state.go as programs of a small imperative
   fragment, with its semantics (translator tie, DESIGN §13a).

   The five places where eino runs a user function on the graph state
       convertPreHandler / convertPostHandler / streamConvertPreHandler /
       streamConvertPostHandler (the closure [rf] each of them builds) and ProcessState
   are all written in the same fragment of Go:
       cState, pMu, err := getState[S](ctx)          CGetState
       if err != nil { return …, err }               CReturnIfErr
       pMu.Lock()                                    CLock
       defer pMu.Unlock()                            CDeferUnlock
       return handler(ctx, …, cState)                CReturnHandler
   (and, so that rewritten variants are *recognised and compared* rather than unreadable:
   pMu.Unlock() as a statement, `…, err = handler(…)` as a statement, `return …, err`).
   [exec] is the semantics of that fragment on the only things that matter here: is the mutex
   held, which unlocks are deferred, was the user function called, and how does the function
   leave (return / panic of the user function / nil dereference / deadlock on its own mutex /
   unlock of an unlocked mutex) — for every answer of getState and every behaviour of the user
   function (returns, returns an error, panics).  [cs_prog] is the program the model assumes for
   each of the five; Gen/StateLockCode.v is what tools/go2v reads from the source on every run;
   Proofs/GenAgreeStateLock.v proves the two have the same behaviour for every environment.

   [cs_spec] is the protocol the transition system of Model/StateLockLTS.v is built on: a
   critical section is  acquire; user function (load, store); release  — always in that order,
   the user function only while the mutex is held and only with the state of the holder whose
   mutex is held, the mutex free again on every exit; and nothing at all when no state is found.
   [script] maps such a trace to the micro-steps of [pstep]; Proofs/StateLockCode.v proves
   exec (cs_prog w) = cs_spec and that [do_cs] (what Model/StateLockDrive.v performs for every
   observed critical section) is the script of that trace.

   getState itself is a decision function over the context: [get_state].
   Definitions only. *)
From Eino Require Import Base.Util Model.StateLock Model.StateLockLTS.

(* ------------------------------------------------------------------ the wrappers *)

Inductive wrapper := WPre | WPost | WSPre | WSPost | WProcess.

Definition wrappers : list wrapper := [WPre; WPost; WSPre; WSPost; WProcess].

(* the kind of critical section a wrapper performs (a node's pre-handler may be the plain or the
   stream variant, likewise the post-handler; a lambda's ProcessState calls) *)
Definition wrapper_is (w : wrapper) (k : kind) : bool :=
  match w, k with
  | WPre, KPre | WSPre, KPre => true
  | WPost, KPost | WSPost, KPost => true
  | WProcess, KBody _ => true
  | _, _ => false
  end.

Inductive cstmt :=
| CGetState        (* cState, pMu, err := getState[S](ctx) *)
| CReturnIfErr     (* if err != nil { return …, err } *)
| CLock            (* pMu.Lock() *)
| CDeferUnlock     (* defer pMu.Unlock() *)
| CUnlock          (* pMu.Unlock() *)
| CCallHandler     (* …, err = handler(ctx, …, cState) *)
| CReturnHandler   (* return handler(ctx, …, cState) *)
| CReturnResult.   (* return …, err *)

(* what the user function does *)
Inductive hout := HRet | HErrRet | HPanic.

(* observable actions of one execution; ACall records whether the mutex was held and whether
   getState had delivered a state when the user function was called *)
Inductive act := AAcq | ACall (held have : bool) | ARel.

Inductive exit :=
| ERet         (* returned *)
| EPanic       (* left by a panic (of the user function, or a nil mutex) *)
| EDeadlock    (* Lock on the mutex it holds itself: never returns *)
| EFatal       (* Unlock of an unlocked mutex: the Go runtime kills the process *)
| EFallOff.    (* no return statement *)

Record outcome := mkOut { o_trace : list act; o_exit : exit; o_held : bool }.

Record mst := mkM { m_have : bool; m_err : bool; m_held : bool; m_defers : nat; m_trace : list act }.

(* leaving the function: the deferred unlocks run *)
Fixpoint finish (defers : nat) (held : bool) (tr : list act) (e : exit) : outcome :=
  match defers with
  | O => mkOut tr e held
  | S d => if held then finish d false (tr ++ [ARel]) e else mkOut tr EFatal false
  end.

Section Exec.
  Variable found : bool.     (* getState finds a state of the right type *)
  Variable h : hout.

  Definition leave (st : mst) (e : exit) : outcome := finish (m_defers st) (m_held st) (m_trace st) e.

  Fixpoint exec (p : list cstmt) (st : mst) : outcome :=
    match p with
    | [] => leave st EFallOff
    | CGetState :: p' => exec p' (mkM found (negb found) (m_held st) (m_defers st) (m_trace st))
    | CReturnIfErr :: p' => if m_err st then leave st ERet else exec p' st
    | CLock :: p' =>
        if negb (m_have st) then leave st EPanic
        else if m_held st then mkOut (m_trace st) EDeadlock true
        else exec p' (mkM (m_have st) (m_err st) true (m_defers st) (m_trace st ++ [AAcq]))
    | CDeferUnlock :: p' =>
        if negb (m_have st) then leave st EPanic
        else exec p' (mkM (m_have st) (m_err st) (m_held st) (S (m_defers st)) (m_trace st))
    | CUnlock :: p' =>
        if negb (m_have st) then leave st EPanic
        else if m_held st then exec p' (mkM (m_have st) (m_err st) false (m_defers st) (m_trace st ++ [ARel]))
        else mkOut (m_trace st) EFatal false
    | CCallHandler :: p' =>
        let st' := mkM (m_have st) (match h with HErrRet => true | _ => false end) (m_held st) (m_defers st)
                       (m_trace st ++ [ACall (m_held st) (m_have st)]) in
        match h with HPanic => leave st' EPanic | _ => exec p' st' end
    | CReturnHandler :: _ =>
        let st' := mkM (m_have st) false (m_held st) (m_defers st) (m_trace st ++ [ACall (m_held st) (m_have st)]) in
        match h with HPanic => leave st' EPanic | _ => leave st' ERet end
    | CReturnResult :: _ => leave st ERet
    end.

  Definition run_prog (p : list cstmt) : outcome := exec p (mkM false false false 0 []).

  (* the protocol: nothing when no state is found; otherwise acquire, user function under the
     lock with the state found, release — whatever the user function does *)
  Definition cs_spec : outcome :=
    if found then mkOut [AAcq; ACall true true; ARel] (match h with HPanic => EPanic | _ => ERet end) false
    else mkOut [] ERet false.
End Exec.

(* what the model assumes the five wrappers to be *)
Definition cs_prog (w : wrapper) : list cstmt :=
  [CGetState; CReturnIfErr; CLock; CDeferUnlock; CReturnHandler].

(* the micro-steps of the transition system a trace stands for *)
Definition script {S : Type} (tr : list act) (i : nat) (n : N) : list (choice S) :=
  flat_map (fun a => match a with
                     | AAcq => [ChAcq i n]
                     | ACall _ _ => [ChLoad i n; ChStore i n]
                     | ARel => [ChRel i n]
                     end) tr.

(* ------------------------------------------------------------------ getState *)

Inductive ckey := KState | KOther (name : string).

Inductive gs_err := ENoState | EBadType.

Inductive gs_res (V M : Type) := GsOk (v : V) (m : M) | GsErr (e : gs_err).
Arguments GsOk {V M} v m.
Arguments GsErr {V M} e.

Section GetState.
  Variables (H V M : Type).               (* *internalState; the state as S; *sync.Mutex *)
  Variable ctx_value : ckey -> option H.  (* ctx.Value(key), None = nil *)
  Variable state_as : H -> option V.      (* interState.state.(S) *)
  Variable mu_of : H -> M.                (* &interState.mu *)

  Definition get_state : gs_res V M :=
    match ctx_value KState with
    | None => GsErr ENoState
    | Some hd => match state_as hd with
                 | Some v => GsOk v (mu_of hd)
                 | None => GsErr EBadType
                 end
    end.
End GetState.

(* the context of the nodes of an instance of the transition system: the state key is bound to
   the object the instance sees *)
Definition ctx_of {S X : Type} (J : inst S X) (k : ckey) : option nat :=
  match k with KState => i_obj J | KOther _ => None end.
