(* Model/StreamGenLib.v — property C08: vocabulary of the translator tie "streamcode".

   tools/go2v/c08_streamcode.go translates a handful of small methods of schema/stream.go
   statement by statement into Gallina (Gen/StreamCode.v).  This file says what a Go slice
   operation, a Go (chunk, error) pair, a side effect on another object mean on the data of
   Model/Stream.v.  Definitions only; Proofs/GenAgreeStreamCode.v proves the generated functions
   equal to the operations of Model/Stream.v that the C08 theorems are about. *)
From Eino Require Import Base.Util Model.Stream.

(* Go error values that the translated code distinguishes *)
Inductive goerr : Type :=
| ENil                       (* nil *)
| EEOF                       (* io.EOF *)
| ENoValue (wrapped : bool)  (* schema.ErrNoValue, possibly wrapped with %w *)
| EErr (e : N).              (* any other error, by class *)

Definition goerr_eqb (a b : goerr) : bool :=          (* Go's == on error values *)
  match a, b with
  | ENil, ENil | EEOF, EEOF => true
  | ENoValue false, ENoValue false => true            (* a wrapped error is a different value *)
  | EErr x, EErr y => N.eqb x y
  | _, _ => false
  end.
Definition errors_is (a target : goerr) : bool :=     (* errors.Is(a, target) *)
  match a, target with
  | ENoValue _, ENoValue false => true
  | _, _ => goerr_eqb a target
  end.

(* a Go (chunk, err) pair *)
Definition gopair : Type := (N * goerr)%type.
Definition pair_of_item (x : item) : gopair :=
  match x with IVal v => (v, ENil) | IErr e => (0%N, EErr e) end.
Definition eof_pair : gopair := (0%N, EEOF).
(* what a reader that is handed the pair sees: an item of the model (the chunk beside a non-nil
   error is not part of an item), the end of the stream, or something the model has no name for *)
Inductive seen : Type := SeenItem (x : item) | SeenEOF | SeenOther.
Definition see (p : gopair) : seen :=
  match p with
  | (v, ENil) => SeenItem (IVal v)
  | (_, EErr e) => SeenItem (IErr e)
  | (_, EEOF) => SeenEOF
  | (_, ENoValue _) => SeenOther
  end.

(* user conversion function at the Go level, and its class in the model *)
Definition goconv : Type := N -> gopair.
Definition cres_of_go (p : gopair) : cres :=
  match p with
  | (v, ENil) => CVal v
  | (_, EErr e) => CErr e
  | (_, ENoValue _) => CSkip
  | (_, EEOF) => CSkip           (* excluded by [conv_ok] *)
  end.
Definition cfun_of_go (g : goconv) : cfun := fun v => cres_of_go (g v).
Definition conv_ok (g : goconv) : Prop := forall v, snd (g v) <> EEOF.

(* slices *)
Definition go_index {A} (d : A) (l : list A) (i : nat) : A := nth i l d.
Definition go_slice_to {A} (l : list A) (j : nat) : list A := firstn j l.        (* l[:j] *)
Definition go_slice_from {A} (l : list A) (i : nat) : list A := skipn i l.       (* l[i:] *)
Definition go_isnil {A} (o : option A) : bool := match o with None => true | Some _ => false end.

(* for i := range [0, n) { body } with break: body returns the new state and "break" *)
Fixpoint range_brk {S} (is : list nat) (f : S -> nat -> S * bool) (s : S) : S :=
  match is with
  | [] => s
  | i :: r => let '(s', b) := f s i in if b then s' else range_brk r f s'
  end.

(* arrayReader *)
Record arrd : Type := mkArrd { ar_arr : list N; ar_index : nat }.
Definition set_ar_index (a : arrd) (i : nat) : arrd := mkArrd (ar_arr a) i.

(* multiStreamReader (without the reflect cases) *)
Record msrd : Type := mkMsrd { msr_sts : list nat; msr_chosenList : list nat }.
Definition set_msr_chosenList (m : msrd) (l : list nat) : msrd := mkMsrd (msr_sts m) l.

(* parentStreamReader: the record of Model/Stream.v; subStreamList = p_cur, closedNum = p_closed *)
Definition set_p_cur (P : parent) (l : list (option nat)) : parent :=
  mkP (p_src P) (p_items P) (p_eof P) l (p_closed P) (p_srcclosed P) (p_pulls P) (p_got P) (p_sawEOF P).
Definition set_p_closed (P : parent) (n : nat) : parent :=
  mkP (p_src P) (p_items P) (p_eof P) (p_cur P) n (p_srcclosed P) (p_pulls P) (p_got P) (p_sawEOF P).

(* calls on other objects, logged in order *)
Inductive event : Type :=
| EvCloseSrc                 (* sr.Close() / srw.close() / csr.close(): the reader's own source *)
| EvCloseRecv (sid : nat)    (* s.closeRecv() *)
| EvSend (p : gopair)        (* ret.send(chunk, err) *)
| EvCloseSend.               (* ret.closeSend() *)

(* what Model/Stream.v assumes about the dispatch of the public methods on the kind of reader
   (recv / close_rd match on the constructor of [rd] in this way; Close of an array reader does
   nothing), and the test under which Copy returns the reader itself ([OCopy]: n < 2) *)
Definition recv_dispatch_model : list (string * string) :=
  [ ("readerTypeStream", "sr.st.recv()"); ("readerTypeArray", "sr.ar.recv()");
    ("readerTypeMultiStream", "sr.msr.recv()"); ("readerTypeWithConvert", "sr.srw.recv()");
    ("readerTypeChild", "sr.csr.recv()") ]%string.
Definition close_dispatch_model : list (string * string) :=
  [ ("readerTypeStream", "sr.st.closeRecv()"); ("readerTypeArray", "");
    ("readerTypeMultiStream", "sr.msr.close()"); ("readerTypeWithConvert", "sr.srw.close()");
    ("readerTypeChild", "sr.csr.close()") ]%string.
Definition copy_self_cond_model : string := "n<2"%string.

(* ------------------------------------------------------------------ stream.send as select statements

   [stream.send] is a sequence of select statements over the two channels of a stream.  The
   extractor reads them as data; [run_selects] gives them Go's meaning on the model's stream record
   (a case is ready when its channel operation can proceed: a receive from the closed-signal
   channel once closeRecv happened, a send into the item channel while there is room — or when that
   channel is closed, in which case choosing it panics; a select picks ANY ready case: the choice is
   the argument [chs]; without a ready case it takes [default] or parks).
   Proofs/GenAgreeStreamCode.v: for every choice, the extracted statements are [stream_send]. *)
Inductive selcase : Type :=
| SelRecvClosed (ret : bool)   (* case <-s.closed: return ret *)
| SelSendItem (ret : bool)     (* case s.items <- item: return ret *)
| SelDefault.                  (* default: (fall through to the next statement) *)

Inductive selres : Type := SrReturn (closed sent : bool) | SrFall | SrBlock | SrPanic.

Definition case_ready (s : stream) (c : selcase) : bool :=
  match c with
  | SelRecvClosed _ => Nat.ltb 0 (s_rclosed s)
  | SelSendItem _ => s_sclosed s || Nat.ltb (List.length (s_buf s)) (eff_cap (s_cap s))
  | SelDefault => false
  end.
Definition is_default (c : selcase) : bool := match c with SelDefault => true | _ => false end.

Definition run_select (s : stream) (cs : list selcase) (ch : nat) : selres :=
  match filter (case_ready s) cs with
  | [] => if existsb is_default cs then SrFall else SrBlock
  | c0 :: r =>
      match nth (Nat.modulo ch (List.length (c0 :: r))) (c0 :: r) c0 with
      | SelRecvClosed b => SrReturn b false
      | SelSendItem b => if s_sclosed s then SrPanic else SrReturn b true
      | SelDefault => SrFall
      end
  end.

Fixpoint run_selects (s : stream) (x : item) (sel : list (list selcase)) (chs : list nat) : sres * stream :=
  match sel with
  | [] => (SPanic, s)
  | cs :: rest =>
      match run_select s cs (hd 0 chs) with
      | SrReturn b sent =>
          (if b then SClosed else SOk,
           if sent then mkS (s_cap s) (s_buf s ++ [x]) (s_sclosed s) (s_rclosed s) (s_user s) (s_sent s ++ [x]) (s_deliv s)
           else s)
      | SrFall => run_selects s x rest (tl chs)
      | SrBlock => (SBlock, s)
      | SrPanic => (SPanic, s)
      end
  end.

(* the other primitives, as the channel operation they consist of *)
Definition recv_shape_model : list string := [ "item,ok:=<-s.items"; "if!ok{item.err=io.EOF}"; "returnitem.chunk,item.err" ]%string.
Definition close_send_model : string := "close(s.items)"%string.
Definition close_recv_model : string := "close(s.closed)"%string.

(* ------------------------------------------------------------------ the shared list of a copy parent

   [parentStreamReader.peek] works on a singly linked list of [cpStreamElement]s; every child holds
   a pointer into it ([subStreamList]).  Go-level picture: a heap of elements addressed by their
   allocation number; [ge_done] = the element's sync.Once has run. *)
Record gelem : Type := mkGe { ge_done : bool; ge_item : gopair; ge_next : option nat }.
Record gparent : Type := mkGp { gp_elems : list gelem; gp_sub : list (option nat) }.
Definition ge_empty : gelem := mkGe false (0%N, ENil) None.           (* &cpStreamElement[T]{} *)
Definition deref (p : gparent) (e : option nat) : gelem :=
  match e with Some a => nth a (gp_elems p) ge_empty | None => ge_empty end.
Definition set_ge (p : gparent) (e : option nat) (g : gelem) : gparent :=
  match e with Some a => mkGp (upd (gp_elems p) a g) (gp_sub p) | None => p end.
Definition set_gp_sub (p : gparent) (l : list (option nat)) : gparent := mkGp (gp_elems p) l.
(* elem.item = streamItem[T]{chunk, err} *)
Definition ge_set_item (p : gparent) (e : option nat) (it : gopair) : gparent :=
  set_ge p e (mkGe (ge_done (deref p e)) it (ge_next (deref p e))).
(* elem.next = &cpStreamElement[T]{} *)
Definition ge_set_next_new (p : gparent) (e : option nat) : gparent :=
  let a := List.length (gp_elems p) in
  set_ge (mkGp (gp_elems p ++ [ge_empty]) (gp_sub p)) e (mkGe (ge_done (deref p e)) (ge_item (deref p e)) (Some a)).
(* the end of elem.once.Do *)
Definition ge_mark_done (p : gparent) (e : option nat) : gparent :=
  set_ge p e (mkGe true (ge_item (deref p e)) (ge_next (deref p e))).
Definition ERecvAfterClosed : goerr := EErr err_after_closed.

(* the model's parent as that heap: element c < len holds item c and points to c+1; the last
   element is the unfilled tail, or the filled end-of-stream element *)
Fixpoint abs_from (c : nat) (items : list item) (eof : bool) : list gelem :=
  match items with
  | [] => [if eof then mkGe true eof_pair None else ge_empty]
  | x :: r => mkGe true (pair_of_item x) (Some (S c)) :: abs_from (S c) r eof
  end.
Definition abs_parent (P : parent) : gparent := mkGp (abs_from 0 (p_items P) (p_eof P)) (p_cur P).

(* ------------------------------------------------------------------ MergeStreamReaders

   The accumulator of the loop over the arguments: the two local slices and, for the calls that
   create objects (toStream, newStream), the store and the forwarder goroutines. *)
Record macc : Type := mkMacc { m_st : store; m_fw : list fwd; m_ss : list nat; m_arr : list N }.
Definition set_m_ss (a : macc) (l : list nat) : macc := mkMacc (m_st a) (m_fw a) l (m_arr a).
Definition set_m_arr (a : macc) (l : list N) : macc := mkMacc (m_st a) (m_fw a) (m_ss a) l.

Inductive rtyp : Type := TStream | TArray | TMulti | TConv | TChild.
Definition rd_typ (t : rd) : rtyp :=
  match t with RStr _ => TStream | RArr _ _ => TArray | RMul _ _ => TMulti | RConv _ _ _ _ => TConv | RChild _ _ => TChild end.
Definition rd_st (t : rd) : nat := match t with RStr s => s | _ => 0 end.                       (* sr.st *)
Definition rd_arr (t : rd) : list N := match t with RArr _ rest => rest | _ => [] end.          (* sr.ar.arr, seen from the reader's position *)
Definition rd_index (t : rd) : nat := 0.                                                         (* sr.ar.index, relative to that *)
Definition rd_sts (t : rd) : list nat := match t with RMul sts _ => sts | _ => [] end.         (* sr.msr.sts *)

(* sr.srw.toStream() / sr.csr.toStream(): a new stream of the given capacity and a goroutine that
   forwards the reader into it; the stream is the result *)
Definition to_stream (cap : nat) (a : macc) (t : rd) : macc * nat :=
  let sid := List.length (streams (m_st a)) in
  (mkMacc (add_stream (m_st a) (new_stream cap false)) (m_fw a ++ [mkF t sid FRecv false]) (m_ss a) (m_arr a), sid).
(* s := newStream[T](cap) *)
Definition new_stream_in (a : macc) (cap : nat) : macc * nat :=
  let sid := List.length (streams (m_st a)) in
  (mkMacc (add_stream (m_st a) (new_stream cap false)) (m_fw a) (m_ss a) (m_arr a), sid).
(* s.send(chunk, nil) / s.closeSend() on a stream of the accumulator's store *)
Definition stream_send_in (a : macc) (sid : nat) (p : gopair) : macc :=
  match nth_error (streams (m_st a)) sid, see p with
  | Some s, SeenItem x => mkMacc (set_stream (m_st a) sid (snd (stream_send s x))) (m_fw a) (m_ss a) (m_arr a)
  | _, _ => a
  end.
Definition close_send_in (a : macc) (sid : nat) : macc :=
  match nth_error (streams (m_st a)) sid with
  | Some s => mkMacc (set_stream (m_st a) sid (snd (stream_close_send s))) (m_fw a) (m_ss a) (m_arr a)
  | None => a
  end.
(* &StreamReader[T]{typ: readerTypeArray, ar: &arrayReader[T]{arr, index}} / {typ: readerTypeMultiStream, msr} *)
Definition mk_array_reader (arr : list N) (index : nat) : rd := RArr [] (skipn index arr).
Definition mk_multi_reader (m : msrd) : rd := RMul (msr_sts m) (msr_chosenList m).
Definition rd_nil : rd := RArr [] [].   (* placeholder for an index out of range *)
