(* Model/StreamGenLib.v — property C08: vocabulary of the translator tie "streamcode".

   tools/go2v/c08_streamcode.go translates a handful of small methods of schema/stream.go
   statement by statement into Gallina (Gen/StreamCode.v).  This file says what a Go slice
   operation, a Go (chunk, error) pair, a side effect on another object mean on the data of
   Model/Stream.v.  Definitions only; Proofs/GenAgreeStreamCode.v proves the generated functions
   equal to the operations of Model/Stream.v that the C08 theorems are about. *)
From Eino Require Import Base.Util Model.Stream.

(* Go error values that the translated code distinguishes *)
Inductive goerr : Type :=
| ENil                       (* nil *)
| EEOF                       (* io.EOF *)
| ENoValue (wrapped : bool)  (* schema.ErrNoValue, possibly wrapped with %w *)
| EErr (e : N).              (* any other error, by class *)

Definition goerr_eqb (a b : goerr) : bool :=          (* Go's == on error values *)
  match a, b with
  | ENil, ENil | EEOF, EEOF => true
  | ENoValue false, ENoValue false => true            (* a wrapped error is a different value *)
  | EErr x, EErr y => N.eqb x y
  | _, _ => false
  end.
Definition errors_is (a target : goerr) : bool :=     (* errors.Is(a, target) *)
  match a, target with
  | ENoValue _, ENoValue false => true
  | _, _ => goerr_eqb a target
  end.

(* a Go (chunk, err) pair *)
Definition gopair : Type := (N * goerr)%type.
Definition pair_of_item (x : item) : gopair :=
  match x with IVal v => (v, ENil) | IErr e => (0%N, EErr e) end.
Definition eof_pair : gopair := (0%N, EEOF).
(* what a reader that is handed the pair sees: an item of the model (the chunk beside a non-nil
   error is not part of an item), the end of the stream, or something the model has no name for *)
Inductive seen : Type := SeenItem (x : item) | SeenEOF | SeenOther.
Definition see (p : gopair) : seen :=
  match p with
  | (v, ENil) => SeenItem (IVal v)
  | (_, EErr e) => SeenItem (IErr e)
  | (_, EEOF) => SeenEOF
  | (_, ENoValue _) => SeenOther
  end.

(* user conversion function at the Go level, and its class in the model *)
Definition goconv : Type := N -> gopair.
Definition cres_of_go (p : gopair) : cres :=
  match p with
  | (v, ENil) => CVal v
  | (_, EErr e) => CErr e
  | (_, ENoValue _) => CSkip
  | (_, EEOF) => CSkip           (* excluded by [conv_ok] *)
  end.
Definition cfun_of_go (g : goconv) : cfun := fun v => cres_of_go (g v).
Definition conv_ok (g : goconv) : Prop := forall v, snd (g v) <> EEOF.

(* slices *)
Definition go_index {A} (d : A) (l : list A) (i : nat) : A := nth i l d.
Definition go_slice_to {A} (l : list A) (j : nat) : list A := firstn j l.        (* l[:j] *)
Definition go_slice_from {A} (l : list A) (i : nat) : list A := skipn i l.       (* l[i:] *)
Definition go_isnil {A} (o : option A) : bool := match o with None => true | Some _ => false end.

(* for i := range [0, n) { body } with break: body returns the new state and "break" *)
Fixpoint range_brk {S} (is : list nat) (f : S -> nat -> S * bool) (s : S) : S :=
  match is with
  | [] => s
  | i :: r => let '(s', b) := f s i in if b then s' else range_brk r f s'
  end.

(* arrayReader *)
Record arrd : Type := mkArrd { ar_arr : list N; ar_index : nat }.
Definition set_ar_index (a : arrd) (i : nat) : arrd := mkArrd (ar_arr a) i.

(* multiStreamReader (without the reflect cases) *)
Record msrd : Type := mkMsrd { msr_sts : list nat; msr_chosenList : list nat }.
Definition set_msr_chosenList (m : msrd) (l : list nat) : msrd := mkMsrd (msr_sts m) l.

(* parentStreamReader: the record of Model/Stream.v; subStreamList = p_cur, closedNum = p_closed *)
Definition set_p_cur (P : parent) (l : list (option nat)) : parent :=
  mkP (p_src P) (p_items P) (p_eof P) l (p_closed P) (p_srcclosed P) (p_pulls P) (p_got P) (p_sawEOF P).
Definition set_p_closed (P : parent) (n : nat) : parent :=
  mkP (p_src P) (p_items P) (p_eof P) (p_cur P) n (p_srcclosed P) (p_pulls P) (p_got P) (p_sawEOF P).

(* calls on other objects, logged in order *)
Inductive event : Type :=
| EvCloseSrc                 (* sr.Close() / srw.close() / csr.close(): the reader's own source *)
| EvCloseRecv (sid : nat)    (* s.closeRecv() *)
| EvSend (p : gopair)        (* ret.send(chunk, err) *)
| EvCloseSend.               (* ret.closeSend() *)

(* what Model/Stream.v assumes about the dispatch of the public methods on the kind of reader
   (recv / close_rd match on the constructor of [rd] in this way; Close of an array reader does
   nothing), and the test under which Copy returns the reader itself ([OCopy]: n < 2) *)
Definition recv_dispatch_model : list (string * string) :=
  [ ("readerTypeStream", "sr.st.recv()"); ("readerTypeArray", "sr.ar.recv()");
    ("readerTypeMultiStream", "sr.msr.recv()"); ("readerTypeWithConvert", "sr.srw.recv()");
    ("readerTypeChild", "sr.csr.recv()") ]%string.
Definition close_dispatch_model : list (string * string) :=
  [ ("readerTypeStream", "sr.st.closeRecv()"); ("readerTypeArray", "");
    ("readerTypeMultiStream", "sr.msr.close()"); ("readerTypeWithConvert", "sr.srw.close()");
    ("readerTypeChild", "sr.csr.close()") ]%string.
Definition copy_self_cond_model : string := "n<2"%string.

(* ------------------------------------------------------------------ stream.send as select statements

   [stream.send] is a sequence of select statements over the two channels of a stream.  The
   extractor reads them as data; [run_selects] gives them Go's meaning on the model's stream record
   (a case is ready when its channel operation can proceed: a receive from the closed-signal
   channel once closeRecv happened, a send into the item channel while there is room — or when that
   channel is closed, in which case choosing it panics; a select picks ANY ready case: the choice is
   the argument [chs]; without a ready case it takes [default] or parks).
   Proofs/GenAgreeStreamCode.v: for every choice, the extracted statements are [stream_send]. *)
Inductive selcase : Type :=
| SelRecvClosed (ret : bool)   (* case <-s.closed: return ret *)
| SelSendItem (ret : bool)     (* case s.items <- item: return ret *)
| SelDefault.                  (* default: (fall through to the next statement) *)

Inductive selres : Type := SrReturn (closed sent : bool) | SrFall | SrBlock | SrPanic.

Definition case_ready (s : stream) (c : selcase) : bool :=
  match c with
  | SelRecvClosed _ => Nat.ltb 0 (s_rclosed s)
  | SelSendItem _ => s_sclosed s || Nat.ltb (List.length (s_buf s)) (eff_cap (s_cap s))
  | SelDefault => false
  end.
Definition is_default (c : selcase) : bool := match c with SelDefault => true | _ => false end.

Definition run_select (s : stream) (cs : list selcase) (ch : nat) : selres :=
  match filter (case_ready s) cs with
  | [] => if existsb is_default cs then SrFall else SrBlock
  | c0 :: r =>
      match nth (Nat.modulo ch (List.length (c0 :: r))) (c0 :: r) c0 with
      | SelRecvClosed b => SrReturn b false
      | SelSendItem b => if s_sclosed s then SrPanic else SrReturn b true
      | SelDefault => SrFall
      end
  end.

Fixpoint run_selects (s : stream) (x : item) (sel : list (list selcase)) (chs : list nat) : sres * stream :=
  match sel with
  | [] => (SPanic, s)
  | cs :: rest =>
      match run_select s cs (hd 0 chs) with
      | SrReturn b sent =>
          (if b then SClosed else SOk,
           if sent then mkS (s_cap s) (s_buf s ++ [x]) (s_sclosed s) (s_rclosed s) (s_user s) (s_sent s ++ [x]) (s_deliv s)
           else s)
      | SrFall => run_selects s x rest (tl chs)
      | SrBlock => (SBlock, s)
      | SrPanic => (SPanic, s)
      end
  end.

(* the other primitives, as the channel operation they consist of *)
Definition recv_shape_model : list string := [ "item,ok:=<-s.items"; "if!ok{item.err=io.EOF}"; "returnitem.chunk,item.err" ]%string.
Definition close_send_model : string := "close(s.items)"%string.
Definition close_recv_model : string := "close(s.closed)"%string.
