(* Model/OptionsCtor.v — property C16: the public constructors of compose.Option and Option.DesignateNode,
   as Model/Options.v assumes them (script steps BItems / BHandlers / BDesignate of [build]):

     WithXxxOption(vs...) / WithLambdaOption(vs...)   an Option whose option values are the arguments, in
                                                     order; no handler, no path           = BItems vs
     WithCallbacks(hs...)                            an Option whose handlers are the arguments, in order;
                                                     no option value, no path             = BHandlers hs
     WithCheckPointID / WithStateModifier /          an Option without routing information
       WithRuntimeMaxSteps                                                                = BItems []
     o.DesignateNode(k1, ..., kn)                    o.DesignateNodeWithPath(p1, ..., pn), pi a fresh
                                                     NodePath of the one key ki          = BDesignate [[k1]; ...; [kn]]

   tools/go2v (extractor "c16construct") re-reads the constructors and DesignateNode with go/ast on every run
   (Gen/OptConstruct.v); Proofs/GenAgreeC16Ctor.v proves what it finds equal to this file. Also the vocabulary of
   the translation of DesignateNode: a slice of pointers is a list of options (None = nil pointer). *)
From Eino Require Import Base.Util Model.Options.

(* name, (the option values are the arguments, the handlers are the arguments) *)
Definition constructors : list (string * (bool * bool)) :=
  [ ("WithCallbacks"%string, (false, true));
    ("WithChatModelOption"%string, (true, false));
    ("WithChatTemplateOption"%string, (true, false));
    ("WithCheckPointID"%string, (false, false));
    ("WithDocumentTransformerOption"%string, (true, false));
    ("WithEmbeddingOption"%string, (true, false));
    ("WithIndexerOption"%string, (true, false));
    ("WithLambdaOption"%string, (true, false));
    ("WithLoaderOption"%string, (true, false));
    ("WithRetrieverOption"%string, (true, false));
    ("WithRuntimeMaxSteps"%string, (false, false));
    ("WithStateModifier"%string, (false, false));
    ("WithToolsNodeOption"%string, (true, false)) ].

(* the Option a constructor of that row builds when called with the values [its] (if it takes option
   values) / the handlers [hs] (if it takes handlers) *)
Definition ctor_opt (row : bool * bool) (its : list item) (hs : list N) : copt :=
  mkOpt (if fst row then its else []) (if snd row then hs else []) [].

(* the script step of Model/Options.v that stands for a call of that constructor *)
Definition ctor_step (row : bool * bool) (its : list item) (hs : list N) : bop :=
  if fst row then BItems its else if snd row then BHandlers hs else BItems [].

(* ---- Go vocabulary of DesignateNode ---- *)
(* make([]*T, n): n nil pointers *)
Definition go_make_nil {A} (n : nat) : list (option A) := repeat None n.
(* s[i] = v (None: index out of range) *)
Fixpoint go_set {A} (i : nat) (v : A) (l : list A) : option (list A) :=
  match l, i with
  | [], _ => None
  | _ :: t, O => Some (v :: t)
  | x :: t, S j => match go_set j v t with Some t' => Some (x :: t') | None => None end
  end.
(* for i, x := range l { acc = body i x acc }, the body may panic; [i]: index of the head of l *)
Fixpoint go_range_idx {X A} (l : list X) (i : nat) (body : nat -> X -> A -> option A) (acc : A) : option A :=
  match l with
  | [] => Some acc
  | x :: t => match body i x acc with None => None | Some a => go_range_idx t (S i) body a end
  end.

(* ---- Go vocabulary of convertOption ---- *)
(* for _, x := range l { acc, err = body x acc; if err != nil { return err } } *)
Fixpoint go_range_res {X A} (l : list X) (body : X -> A -> res A) (acc : A) : res A :=
  match l with
  | [] => Ok acc
  | x :: t => do a <- body x acc; go_range_res t body a
  end.
(* the type assertion v.(T) of convertOption[T]: in front of a component of option type ty, in front of a sub graph *)
Definition is_item_of (ty : N) (e : entry) : bool :=
  match e with EItem (t, _) => N.eqb t ty | EOpt _ => false end.
Definition is_opt (e : entry) : bool :=
  match e with EOpt _ => true | EItem _ => false end.
