(* Model/Types.v — the small type lattice of property C07.

   Go side (compose/utils.go, checkAssignable): types are compared by identity
   ([arg == input]), by [input.Implements(arg)] when [arg] is an interface, and by
   [arg.Implements(input)] when [input] is an interface.  [Implements] is inclusion of
   method sets, so the model gives every type a finite set of method ids:
     TConc c   a concrete (non-interface) type: struct, map[string]any, ...
     TIface i  a named interface type
     TAny      interface{} (empty method set)
   Two distinct named interfaces with the same method set are distinct types (as in
   reflect), which is why identity is on the constructor + id and not on the method set.

   Run-time values carry a dynamic concrete type or are nil ([dyn]). *)
From Eino Require Import Base.Util.

Inductive ty : Type :=
| TConc (c : N)
| TIface (i : N)
| TAny.

Definition ty_eqb (a b : ty) : bool :=
  match a, b with
  | TConc x, TConc y => N.eqb x y
  | TIface x, TIface y => N.eqb x y
  | TAny, TAny => true
  | _, _ => false
  end.

Definition oty_eqb (a b : option ty) : bool :=
  match a, b with
  | Some x, Some y => ty_eqb x y
  | None, None => true
  | _, _ => false
  end.

(* the universe: method sets of the concrete types and of the named interfaces *)
Record univ : Type := {
  u_conc : list (N * list N);
  u_iface : list (N * list N)
}.

Definition lookup_methods (k : N) (l : list (N * list N)) : list N :=
  match nlist_get k l with Some m => m | None => [] end.

Definition methods (u : univ) (t : ty) : list N :=
  match t with
  | TConc c => lookup_methods c (u_conc u)
  | TIface i => lookup_methods i (u_iface u)
  | TAny => []
  end.

Definition is_iface (t : ty) : bool :=
  match t with TConc _ => false | _ => true end.

Definition memN (x : N) (l : list N) : bool := existsb (N.eqb x) l.

Definition subsetN (a b : list N) : bool := forallb (fun x => memN x b) a.

(* reflect: t.Implements(a), a an interface type *)
Definition implements (u : univ) (t a : ty) : bool := subsetN (methods u a) (methods u t).

Inductive assignable : Type := MustNot | Must | May.

Definition assignable_eqb (a b : assignable) : bool :=
  match a, b with
  | MustNot, MustNot | Must, Must | May, May => true
  | _, _ => false
  end.

(* checkAssignable(input, arg): same decision structure, same order of the tests *)
Definition check_assignable (u : univ) (input arg : option ty) : assignable :=
  match input, arg with
  | Some i, Some a =>
      if ty_eqb a i then Must
      else if is_iface a && implements u i a then Must
      else if is_iface i then (if implements u a i then May else MustNot)
      else MustNot
  | _, _ => MustNot
  end.

(* ------------------------------------------------------------------ run-time values *)

Inductive dyn : Type :=
| DNil                (* the nil interface value *)
| DVal (c : N).       (* a value whose dynamic type is the concrete type c *)

Definition dyn_eqb (a b : dyn) : bool :=
  match a, b with
  | DNil, DNil => true
  | DVal x, DVal y => N.eqb x y
  | _, _ => false
  end.

(* Go assignability of a dynamic value to a variable of static type t:
   nil to every interface type, a concrete value to its own type and to every
   interface it implements. *)
Definition dyn_assignable (u : univ) (d : dyn) (t : ty) : bool :=
  match d with
  | DNil => is_iface t
  | DVal c => ty_eqb (TConc c) t || (is_iface t && implements u (TConc c) t)
  end.

(* compose/utils.go assertType[T](v) — the assertion made at every node entry, branch
   condition entry, state handler entry and by the run-time converter
   (defaultValueChecker): [v.(T)], and nil accepted when T is an interface type. *)
Definition assert_type (u : univ) (d : dyn) (t : ty) : bool :=
  match d with
  | DNil => is_iface t
  | DVal c =>
      match t with
      | TConc c' => N.eqb c c'
      | _ => implements u (TConc c) t
      end
  end.

(* the plain Go assertion [v.(T)] used before the repair F-C07b: never holds for nil *)
Definition assert_type_v0 (u : univ) (d : dyn) (t : ty) : bool :=
  match d with
  | DNil => false
  | DVal c =>
      match t with
      | TConc c' => N.eqb c c'
      | _ => implements u (TConc c) t
      end
  end.

(* what the Go compiler guarantees about a value produced at static type t
   (a node's output, the graph input, a handler's result) *)
Definition has_type (u : univ) (d : dyn) (t : ty) : bool := dyn_assignable u d t.
