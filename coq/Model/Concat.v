(* Model/Concat.v — executable model of internal/concat.go (generic chunk concatenation).
   Definitions only; proofs live in Proofs/Concat*.v.

   Chunk values are the values that can sit in a [map[string]any] chunk, plus the
   typed top-level cases [string], numbers ([useLast] kinds) and unregistered types.

   Modelled code: ConcatItems, concatMaps, concatSliceValue, toSliceValue, the
   [concatFuncs] registry restricted to string / useLast kinds (messages: Model/ConcatMsg.v). *)
From Eino Require Import Base.Util Model.ConcatTable.

Inductive cval : Type :=
| CStr (s : string)                       (* Go string: registered, concatStrings *)
| CNum (k : N) (z : Z)                    (* useLast kinds: k = 0 int, 1 int64, 2 bool, 3 float64 *)
| CNil                                    (* nil interface value under a map key *)
| COther (tag : N) (payload : N)          (* unregistered type [tag] (structs S0/S1, named string, named int,
                                             pointers *S0/*S1 ...); the zero value of the type iff payload = 0 *)
| CMap (mt : N) (m : list (string * cval)).
                                          (* a Go map with string keys; mt = 0: map[string]any, mt = 1: map[string]string
                                             (then every value is a CStr); key order is not observable *)

(* dynamic Go type, [None] for a nil interface *)
Inductive cty : Type := TStr | TNum (k : N) | TOther (tag : N) | TMap (mt : N).

Definition cty_eqb (a b : cty) : bool :=
  match a, b with
  | TStr, TStr => true
  | TNum k, TNum k' => N.eqb k k'
  | TOther t, TOther t' => N.eqb t t'
  | TMap m, TMap m' => N.eqb m m'
  | _, _ => false
  end.

Definition dyn_ty (v : cval) : option cty :=
  match v with
  | CStr _ => Some TStr
  | CNum k _ => Some (TNum k)
  | CNil => None
  | COther t _ => Some (TOther t)
  | CMap mt _ => Some (TMap mt)
  end.

(* Go type name of the numeric kinds the harness uses (k >= 3 is float64) *)
Definition kind_name (k : N) : string :=
  if N.eqb k 0 then "int"%string else if N.eqb k 1 then "int64"%string
  else if N.eqb k 2 then "bool"%string else "float64"%string.

(* Functions registered by the application (compose.RegisterStreamChunkConcatFunc[T]) for
   the types the model calls [COther]: tag -> function on the payloads of the chunks.  The
   model and every theorem are generic in this registry (a type class, resolved implicitly);
   the laws a registered function must satisfy are stated in Proofs/ConcatRechunk.v
   ([UserLaw]); the correspondence check instantiates it with the functions the harness
   registers (Model/ConcatUser.v). *)
Class UserFn : Type := { ufn : N -> option (list N -> res N) }.

Definition user_registered {U : UserFn} (t : cty) : option (N * (list N -> res N)) :=
  match t with
  | TOther tag => match ufn tag with Some g => Some (tag, g) | None => None end
  | _ => None
  end.

Definition payloads (vs : list cval) : list N :=
  flat_map (fun v => match v with COther _ p => [p] | _ => [] end) vs.

(* GetConcatFunc: the function registered for a dynamic type (Model/ConcatTable.v) *)
Definition registered (t : cty) : option cfun :=
  match t with
  | TStr => alist_get "string"%string table
  | TNum k => alist_get (kind_name k) table
  | TOther _ => None
  | TMap _ => None
  end.

(* the zero value of a non-map type *)
Definition zero_of (t : cty) : cval :=
  match t with
  | TStr => CStr EmptyString
  | TNum k => CNum k 0
  | TOther tag => COther tag 0
  | TMap _ => CNil
  end.

Definition is_nil (v : cval) : bool := match v with CNil => true | _ => false end.

(* reflect.Value.IsZero on the element *)
Definition is_zero (v : cval) : bool :=
  match v with
  | CStr s => String.eqb s EmptyString
  | CNum _ z => Z.eqb z 0
  | CNil => true
  | COther _ p => N.eqb p 0
  | CMap _ _ => false                     (* a non-nil map value is never the zero Value *)
  end.

Definition E_TYPE : N := 1%N.       (* toSliceValue: element types differ *)
Definition E_MULTI : N := 2%N.      (* concatSliceValue: several non-zero values of an unregistered type *)

(* keys of a list of maps, in order of first appearance *)
Fixpoint add_key (k : string) (ks : list string) : list string :=
  match ks with
  | [] => [k]
  | k' :: ks' => if String.eqb k k' then ks else k' :: add_key k ks'
  end.
Definition keys_of (ms : list (list (string * cval))) : list string :=
  fold_left (fun ks m => fold_left (fun ks kv => add_key (fst kv) ks) m ks) ms [].

(* values stored under [k], in chunk order (a Go map holds a key at most once) *)
Definition vals_at (k : string) (ms : list (list (string * cval))) : list cval :=
  flat_map (fun m => match alist_get k m with Some v => [v] | None => [] end) ms.

(* toSliceValue: every element must have the dynamic type of the first *)
Definition same_types (t : cty) (vs : list cval) : bool :=
  forallb (fun v => match dyn_ty v with Some t' => cty_eqb t t' | None => false end) vs.

Definition strs (vs : list cval) : list string :=
  flat_map (fun v => match v with CStr s => [s] | _ => [] end) vs.
Definition maps (vs : list cval) : list (list (string * cval)) :=
  flat_map (fun v => match v with CMap _ m => [m] | _ => [] end) vs.

(* the "all zero => zero, exactly one non-zero => it, otherwise error" rule *)
Definition single_nonzero (zero : cval) (vs : list cval) : res cval :=
  match filter (fun v => negb (is_zero v)) vs with
  | [] => Ok zero
  | [v] => Ok v
  | _ => Err E_MULTI
  end.

Section User.
Context {U : UserFn}.

Section WithFuel.
  (* [concat_maps_f] is the recursive call for nested maps; tying the knot with fuel
     (the nesting depth of the chunks) keeps the definition structurally recursive. *)
  Variable concat_maps_f : list (list (string * cval)) -> res (list (string * cval)).

  (* concatSliceValue / concatMaps dispatch on a non-empty, type-homogeneous list *)
  Definition concat_typed (t : cty) (vs : list cval) : res cval :=
    match t with
    | TMap mt => res_map (CMap mt) (concat_maps_f (maps vs))  (* even for a single map: concatMaps re-walks it *)
    | _ =>
      match vs with
      | [v] => Ok v                                           (* val.Len() == 1 *)
      | _ =>
        match registered t with                               (* GetConcatFunc(elmType) *)
        | Some FConcatStrings => Ok (CStr (concat_strings (strs vs)))
        | Some FUseLast => Ok (last vs CNil)
        | Some FUseFirst => Ok (hd CNil vs)
        | None =>
            match user_registered t with                      (* registered by the application *)
            | Some (tag, g) => res_map (COther tag) (g (payloads vs))
            | None => single_nonzero (zero_of t) vs           (* unregistered type *)
            end
        end
      end
    end.

  (* one key of concatMaps (after the repair of F-C14: nil values are ignored) *)
  Definition concat_key (vs : list cval) : res cval :=
    match filter (fun v => negb (is_nil v)) vs with
    | [] => Ok CNil
    | v0 :: rest =>
      match dyn_ty v0 with
      | None => Panic                                         (* unreachable: nils are filtered *)
      | Some t => if same_types t rest then concat_typed t (v0 :: rest) else Err E_TYPE
      end
    end.

  Definition concat_maps_step (ms : list (list (string * cval))) : res (list (string * cval)) :=
    res_mapM (fun k => res_map (fun v => (k, v)) (concat_key (vals_at k ms))) (keys_of ms).
End WithFuel.

Fixpoint concat_maps (fuel : nat) (ms : list (list (string * cval))) : res (list (string * cval)) :=
  match fuel with
  | O => Err 0%N                                              (* out of fuel: excluded by [depth] hypotheses *)
  | S f => concat_maps_step (concat_maps f) ms
  end.

Fixpoint depth (v : cval) : nat :=
  match v with
  | CMap _ m => S (fold_right (fun kv d => Nat.max (depth (snd kv)) d) O m)
  | _ => O
  end.
Definition depth_list (vs : list cval) : nat := fold_right (fun v d => Nat.max (depth v) d) O vs.

(* concatMaps on a list of maps with enough fuel for their nesting depth
   (ConcatItems[map[string]any] for any number of items, e.g. the Extra maps of messages) *)
Definition dmaps (ms : list (list (string * cval))) : nat := depth_list (map (CMap 0) ms).
Definition concat_maps_top (ms : list (list (string * cval))) : res (list (string * cval)) :=
  concat_maps (S (dmaps ms)) ms.

(* ConcatItems[T] for a statically typed item list of length >= 2.
   T = map[string]any goes to concatMaps; every other T to concatSliceValue. *)
Definition concat_items (vs : list cval) : res cval :=
  match vs with
  | [] => Panic                                               (* the caller guarantees len > 1 *)
  | v0 :: _ =>
    match dyn_ty v0 with
    | None => Panic
    | Some (TMap mt) => res_map (CMap mt) (concat_maps (S (depth_list vs)) (maps vs))
    | Some t => concat_typed (fun _ => Err 0%N) t vs
    end
  end.

(* what concatStreamReader does with the chunks it read *)
Definition E_EMPTY : N := 3%N.
Definition concat_stream (vs : list cval) : res cval :=
  match vs with
  | [] => Err E_EMPTY
  | [v] => Ok v
  | _ => concat_items vs
  end.

(* ConcatItems[T] for an interface type T (a stream of [any]; /repo commit c44e450): the
   chunks are concatenated by their common dynamic type exactly as the values under one key
   of a map chunk are: nil chunks are skipped (all nil: nil), differing dynamic types are an
   error, maps go to concatMaps, everything else to concatSliceValue. *)
Definition concat_items_any (vs : list cval) : res cval := concat_key concat_maps_top vs.

Definition concat_stream_any (vs : list cval) : res cval :=
  match vs with
  | [] => Err E_EMPTY
  | [v] => Ok v
  | _ => concat_items_any vs
  end.

End User.
