(* Model/FieldMapClean.v — a decision procedure, evaluated by the correspondence on the value the
   IMPLEMENTATION returned, for "the value differs from the zero value of its type only along the
   target paths W" (the invariant [clean] of Proofs/FieldMapGetPut.v; soundness and the consequence
   "every path that overlaps no target reads zero" in Proofs/FieldMapClean.v).  Definitions only. *)
From Eino Require Import Base.Util Base.FMUniverse Model.FieldMap.

(* the tails of the paths of W that start with f *)
Fixpoint psub (f : N) (W : list path) : list path :=
  match W with
  | [] => []
  | [] :: W' => psub f W'
  | (g :: r) :: W' => if N.eqb g f then r :: psub f W' else psub f W'
  end.

Definition has_nil (W : list path) : bool := existsb is_nil_path W.

Definition is_zero_b (t : ty) (v : val) : bool :=
  match t, v with
  | TInt, VInt z => Z.eqb z 0
  | TStr, VStr s => String.eqb s ""
  | TAny, VNil => true
  | TStruct n, VStruct m [] => N.eqb n m
  | TPtr u, VPtr u' None => ty_eqb u u'
  | TMap ks u, VMap ks' u' None => Bool.eqb ks ks' && ty_eqb u u'
  | _, _ => false
  end.

Definition heads_present (W : list path) (es : list (N * val)) : bool :=
  forallb (fun p => match p with k :: _ => match aget k es with Some _ => true | None => false end | [] => true end) W.

Fixpoint clean_b (fuel : nat) (env : senv) (t : ty) (v : val) (W : list path) : bool :=
  match W with
  | [] => is_zero_b t v
  | _ :: _ =>
      if has_nil W then true else
      match fuel with
      | O => false
      | S fuel' =>
          let fields m fs :=
            match nlist_get m env with
            | Some fds => forallb (fun fd => let '(f, (ex, ft)) := fd in
                                             if ex : bool then clean_b fuel' env ft (field_of ft (aget f fs)) (psub f W) else true) fds
            | None => true
            end in
          let entries e es :=
            forallb (fun kx => let '(k, x) := kx in
                               match psub k W with [] => false | _ => clean_b fuel' env e x (psub k W) end) es
            && heads_present W es in
          match t, v with
          | TStruct m, VStruct m' fs => N.eqb m m' && fields m fs
          | TPtr (TStruct m), VPtr (TStruct m') (Some (VStruct m'' fs)) => N.eqb m m' && N.eqb m m'' && fields m fs
          | TMap true e, VMap true e' (Some es) => ty_eqb e e' && entries e es
          | TAny, VMap true TAny (Some es) => entries TAny es
          | _, _ => false
          end
      end
  end.

