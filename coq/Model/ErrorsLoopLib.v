(* Model/ErrorsLoopLib.v — property C13: the vocabulary of the extractor "looperrs"
   (tools/go2v/c13_loop.go -> Gen/C13LoopErrors.v).  The head of the main loop of runner.run
   (compose/graph_run.go), before the tasks of the step are submitted, is a sequence of guards that end
   the run with an error:

       for step := 0; ; step++ {
           select { case <-ctx.Done(): return nil, <E1>   default: }      (or: if ctx.Err() != nil { return nil, <E1> })
           if !r.dag && step >= maxSteps { return nil, <E2> }
           ... tm.submit(nextTasks) ...

   The extractor reads the guards in the order of the source: a cancellation guard with the error it
   builds — as a function of the context's own error ctx.Err() and of the cause given to the
   cancellation, context.Cause(ctx) — and a step-limit guard with its condition (over the trigger mode,
   the loop counter and the limit) and its error.  Error expressions are translated constructor by
   constructor: newGraphRunError(x) = new_graph_run_error x, fmt.Errorf with exactly one %w = Wrapf x,
   fmt.Errorf without %w / errors.New = a message-only error (Leaf id_misc), ErrExceedMaxSteps,
   context.Canceled.  Here: what a head made of such guards returns, and what the model's run loop
   (Model/Errors.v, steps) returns at the same place.  Definitions only. *)
From Eino Require Import Base.Util Model.Errors.

Inductive lguard : Type :=
| LCancel (e : err -> err -> err)                        (* ctx.Err() -> context.Cause(ctx) -> the run's error *)
| LLimit (hit : bool -> nat -> nat -> bool) (e : err).   (* dag -> step -> maxSteps -> is the limit reached; the run's error *)

(* the error with which the head of the loop ends the run, if it does: [ctx_err] = Some (ctx.Err()) when
   the context is done; the first guard that fires decides *)
Fixpoint loop_check (gs : list lguard) (ctx_err : option err) (cause : err) (dag : bool) (step maxSteps : nat) : option err :=
  match gs with
  | [] => None
  | LCancel e :: gs' =>
      match ctx_err with
      | Some ce => Some (e ce cause)
      | None => loop_check gs' ctx_err cause dag step maxSteps
      end
  | LLimit hit e :: gs' =>
      if hit dag step maxSteps then Some e else loop_check gs' ctx_err cause dag step maxSteps
  end.

(* the same place of the model: [steps] tests its cancellation flag first and answers
   new_graph_run_error (Wrapf <the context's error>); then its step counter, which counts DOWN from the
   limit (k = maxSteps - step), and answers new_graph_run_error (Leaf id_exceed); an all-predecessor
   graph has no limit (its counter is exactly the number of stages) *)
Definition loop_check_model (ctx_err : option err) (dag : bool) (step maxSteps : nat) : option err :=
  match ctx_err with
  | Some ce => Some (new_graph_run_error (Wrapf ce))
  | None => if negb dag && Nat.leb maxSteps step then Some (new_graph_run_error (Leaf id_exceed)) else None
  end.

(* the guards the model assumes (what the neutral Gen file re-exports) *)
Definition model_loop_guards : list lguard :=
  [ LCancel (fun ctx_err _ => new_graph_run_error (Wrapf ctx_err));
    LLimit (fun dag step maxSteps => negb dag && Nat.leb maxSteps step) (new_graph_run_error (Leaf id_exceed)) ].
