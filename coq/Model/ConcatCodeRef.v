(* Model/ConcatCodeRef.v — the reference statement-by-statement translation of internal/concat.go
   (toSliceValue, concatSliceValue, concatMaps, concatInterfaces) and of the comparator / sort call of
   schema/message.go concatToolCalls: a copy of what tools/go2v (extractor "concatcode") generates from
   the sources the model was written from.  Proofs/ConcatCodeRef.v proves these definitions equal to the
   functions of Model/Concat.v / Model/ConcatOrder.v that the C14 theorems are about;
   Proofs/GenAgreeConcatCode.v proves, on every run, that the translation regenerated from the current
   sources (Gen/ConcatCode.v) is this one (by conversion: renamed locals and other changes that leave
   the term convertible are accepted, a statement that computes something else is not).
   Regenerate with: go run ./go2v -repo /repo -out <dir> concatcode, then copy the definitions. *)
From Eino Require Import Base.Util Model.ConcatTable Model.Concat Model.ConcatMsg Model.ConcatStream Model.ConcatGenLib.

Section Gen.
Context {U : UserFn}.

Definition gen_toSliceValue (vs : list cval) : res (sval) :=
  crun (S := unit) (
    cdo (r_nth vs 0) (fun x_1 =>
let typ := (dyn_ty x_1) in
    cdo (r_make_slice typ (List.length vs)) (fun ret =>
    cdo (r_nth vs 0) (fun x_3 =>
cdo (r_set_index ret 0 x_3) (fun ret =>
    cbind (cfold (fun ret '(i, vs_i) =>
        let v := vs_i in
        let vt := (dyn_ty v) in
        if (negb (oty_eqb typ vt)) then (Return (Err E_TYPE))
        else cdo (r_set_index ret i v) (fun ret =>
        Next ret))
      (skipn 1 (enumerate vs)) ret) (fun ret =>
    Return (Ok ret))))))).

Definition gen_concatSliceValue (val : sval) : res (option cval) :=
  crun (S := unit) (
    let elmType := (sv_elem val) in
    if (Nat.eqb (sv_len val) 1) then (cdo (r_index val 0) (fun x_1 =>
Return (Ok (Some x_1))))
    else let f := (get_concat_func elmType) in
    if (is_some f) then (Return (r_call f val))
    else let filtered := (@None cval) in
    cbind (cfold (fun filtered '(i, val_i) =>
        let oneVal := val_i in
        cbind (if (negb (is_zero oneVal)) then (if (is_some filtered) then (Return (Err E_MULTI))
          else let filtered := (Some oneVal) in
          Next filtered)
          else (Next filtered)) (fun filtered =>
        Next filtered))
      (skipn 0 (enumerate (sv_list val))) filtered) (fun filtered =>
    cbind (if (negb (is_some filtered)) then (let filtered := (Some (zero_of elmType)) in
      Next filtered)
      else (Next filtered)) (fun filtered =>
    Return (Ok filtered)))).

Definition gen_concatMaps (self : sval -> res (option cval)) (ms : sval) : res (option cval) :=
  crun (S := unit) (
    let typ := (sv_elem ms) in
    let rms := (@nil (string * list cval)) in
    cdo (r_make_map typ) (fun ret =>
    let n := (sv_len ms) in
    cbind (cfold (fun rms '(i, ms_i) =>
        let m := ms_i in
        cdo (r_map_keys m) (fun ks_2 =>
cbind (cfold (fun rms key =>
            let vals := (alist_get key rms) in
            cbind (if (negb (is_some vals)) then (let s := (@nil cval) in
              let vals := (Some s) in
              Next vals)
              else (Next vals)) (fun vals =>
            cdo (r_map_index m key) (fun val =>
            cdo (r_append vals val) (fun vals =>
            let rms := (r_set_anys rms key vals) in
            Next rms))))
          ks_2 rms) (fun rms =>
        Next rms)))
      (skipn 0 (enumerate (sv_list ms))) rms) (fun rms =>
    cbind (cfold (fun ret key =>
        let vals := (alist_get key rms) in
        cdo (r_anys vals) (fun anyVals =>
        let nonNilVals := (@nil cval) in
        cbind (cfold (fun nonNilVals anyVal =>
            cbind (if (negb (is_nil anyVal)) then (let nonNilVals := (nonNilVals ++ [anyVal]) in
              Next nonNilVals)
              else (Next nonNilVals)) (fun nonNilVals =>
            Next nonNilVals))
          anyVals nonNilVals) (fun nonNilVals =>
        if (Nat.eqb (List.length nonNilVals) 0) then (cdo (r_set_map ret key (Some (r_zero_elem typ))) (fun ret =>
          Next ret))
        else cdo (gen_toSliceValue nonNilVals) (fun v =>
        let cv := (@None cval) in
        cdo (if (rkind_eqb (ty_kind (sv_elem v)) KdMap) then (self v) else (gen_concatSliceValue v)) (fun cv =>
        cdo (r_set_map ret key cv) (fun ret =>
        Next ret))))))
      (List.map fst rms) ret) (fun ret =>
    Return (Ok (Some ret)))))).

Definition gen_concatInterfaces (concat_maps : sval -> res (option cval)) (vs : sval) : res (option cval) :=
  crun (S := unit) (
    let nonNilVals := (@nil cval) in
    cbind (cfold (fun nonNilVals '(i, vs_i) =>
        let item := vs_i in
        cbind (if (negb (is_nil item)) then (let nonNilVals := (nonNilVals ++ [item]) in
          Next nonNilVals)
          else (Next nonNilVals)) (fun nonNilVals =>
        Next nonNilVals))
      (skipn 0 (enumerate (sv_list vs))) nonNilVals) (fun nonNilVals =>
    if (Nat.eqb (List.length nonNilVals) 0) then (Return (Ok (@None cval)))
    else cdo (gen_toSliceValue nonNilVals) (fun v =>
    if (rkind_eqb (ty_kind (sv_elem v)) KdMap) then (Return (concat_maps v))
    else Return (gen_concatSliceValue v)))).

End Gen.

Definition gen_tc_less (a b : option Z) : option bool :=
  if ((negb (is_some a)) && (negb (is_some b))) then (Some false)
  else if ((negb (is_some a)) && (is_some b)) then (Some true)
  else if ((is_some a) && (negb (is_some b))) then (Some false)
  else (oz_cmp Z.ltb a b).

Definition gen_tc_sort_stable : bool := true.

(* ConcatItems[T] (generic in the static chunk type, which the value domain does not carry): its
   top-level statements as a table (what is tested / bound, what happens).  In model terms:
   T a map type -> concat_maps (Model/Concat.v concat_items, first branch); T an interface type without a
   registered function -> concat_items_any; any other T -> concat_typed; an error is handed on; the
   invalid Value (every chunk nil) and the nil result of a function registered for an interface
   type (F-C14b) are the zero value of T.  The names of the locals do not matter: the parameter is $p1, the
   locals $1, $2, ... in the order of their declaration; a tagless switch is the if / else-if chain. *)
Definition gen_concat_items_shape : list (string * string) :=
  [ (""%string, "$1:=generic.TypeOf[T]()"%string);
    (""%string, "$2:=reflect.ValueOf($p1)"%string);
    (""%string, "var $3 reflect.Value"%string);
    (""%string, "var $4 error"%string);
    ("if $1.Kind()==reflect.Map"%string, "$3,$4=concatMaps($2)"%string);
    ("if $1.Kind()==reflect.Interface&&GetConcatFunc($1)==nil"%string, "$3,$4=concatInterfaces($2)"%string);
    ("else"%string, "$3,$4=concatSliceValue($2)"%string);
    ("if $4!=nil"%string, "var $5 T; return $5,$4"%string);
    ("if !$3.IsValid()"%string, "var $5 T; return $5,nil"%string);
    ("if $3.Kind()==reflect.Interface&&$3.IsNil()"%string, "var $5 T; return $5,nil"%string);
    (""%string, "return $3.Interface().(T),nil"%string) ].

(* the stream entry points compose.concatStreamReader[T] (compose/stream_concat.go) and
   schema.ConcatMessageStream, and schema.concatMessageArray (the concat function registered for []*Message:
   position-wise, nil entries skipped, a lone entry unmerged): the drain loop (for { chunk, err := sr.Recv() ... }: io.EOF leaves the loop,
   another error is returned at once), the empty and the single-chunk case, the call of the concatenation
   function (a parameter: internal.ConcatItems[T] / ConcatMessages) *)
Section Stream.
Variable X : Type.
Variable zero : X.
Variable concat_items : list X -> res X.

Definition gen_concatStreamReader (sr : list (sitem X)) : res X :=
  crun (S := unit) (
    let items := (@nil X) in
    cbind (c_loop (S (List.length sr)) (fun '(sr, items) =>
        let '(chunk, err, sr) := (r_recv zero sr) in
        if (negb (rerr_is_nil err)) then (if (rerr_is_eof err) then (Next (inr (sr, items)))
          else let t := zero in
          Return (r_ret t err))
        else let items := (items ++ [chunk]) in
        Next (inl (sr, items)))
      (sr, items)) (fun '(sr, items) =>
    if (Nat.eqb (List.length items) 0) then (let t := zero in
      Return (Err E_EMPTY))
    else if (Nat.eqb (List.length items) 1) then (cdo (g_nth items 0) (fun x_1 =>
Return (Ok x_1)))
    else cdo (concat_items items) (fun res_ =>
    Return (Ok res_)))).

Definition gen_ConcatMessageStream (s : list (sitem X)) : res X :=
  crun (S := unit) (
    let msgs := (@nil X) in
    cbind (c_loop (S (List.length s)) (fun '(s, msgs) =>
        let '(msg, err, s) := (r_recv zero s) in
        if (negb (rerr_is_nil err)) then (if (rerr_is_eof err) then (Next (inr (s, msgs)))
          else Return (r_ret zero err))
        else let msgs := (msgs ++ [msg]) in
        Next (inl (s, msgs)))
      (s, msgs)) (fun '(s, msgs) =>
    if (Nat.eqb (List.length msgs) 0) then (Return (Err E_EMPTY))
    else if (Nat.eqb (List.length msgs) 1) then (cdo (g_nth msgs 0) (fun x_1 =>
Return (Ok x_1)))
    else Return (concat_items msgs))).

(* nil test of a chunk (a *Message) *)
Variable is_nil_x : X -> bool.

Definition gen_concatMessageArray (mas : list (list X)) : res (list X) :=
  crun (S := unit) (
    cdo (g_nth mas 0) (fun x_1 =>
let arrayLen := (List.length x_1) in
    let ret := (repeat zero arrayLen) in
    let slicesToConcat := (repeat (@nil X) arrayLen) in
    cbind (cfold (fun slicesToConcat ma =>
        if (negb (Nat.eqb (List.length ma) arrayLen)) then (Return (Err E_LEN))
        else cbind (cfold (fun slicesToConcat i =>
            cdo (g_nth ma i) (fun m =>
            cbind (if (negb (is_nil_x m)) then (cdo (g_nth slicesToConcat i) (fun x_3 =>
cdo (g_set slicesToConcat i (x_3 ++ [m])) (fun slicesToConcat =>
              Next slicesToConcat)))
              else (Next slicesToConcat)) (fun slicesToConcat =>
            Next slicesToConcat)))
          (seq 0 (arrayLen - 0)) slicesToConcat) (fun slicesToConcat =>
        Next slicesToConcat))
      mas slicesToConcat) (fun slicesToConcat =>
    cbind (cfold (fun ret '(i, slice) =>
        cbind (if (Nat.eqb (List.length slice) 0) then (cdo (g_set ret i zero) (fun ret =>
          Next ret))
          else (cbind (if (Nat.eqb (List.length slice) 1) then (cdo (g_nth slice 0) (fun x_4 =>
cdo (g_set ret i x_4) (fun ret =>
            Next ret)))
            else (cdo (concat_items slice) (fun cm =>
            cdo (g_set ret i cm) (fun ret =>
            Next ret)))) (fun ret =>
          Next ret))) (fun ret =>
        Next ret))
      (enumerate slicesToConcat) ret) (fun ret =>
    Return (Ok ret))))).

End Stream.

(* schema.concatToolCalls, statement by statement: the grouping loop (calls without index kept, the
   positions of the fragments collected per index), the loop over the index map (Go's order: the
   parameter [ord]) with the first fragment as the base, the three "first non-empty, later ones must
   agree" fields, the arguments joined, and the stable sort with the comparator gen_tc_less *)
Section ToolCalls.
(* the order in which Go visits the index map *)
Variable ord : list (Z * list nat) -> list (Z * list nat).

Definition gen_concatToolCalls (chunks : list toolcall) : res (list toolcall) :=
  crun (S := unit) (
    let merged := (@nil toolcall) in
    let m := (@nil (Z * list nat)) in
    cbind (cfold (fun '(merged, m) '(i, chunks_i) =>
        let index := (tc_idx chunks_i) in
        cbind (if (negb (is_some index)) then (let merged := (merged ++ [chunks_i]) in
          Next (merged, m))
          else (cdo (r_deref index) (fun d_1 =>
cdo (r_deref index) (fun d_2 =>
let m := (zm_put d_1 ((zm_get d_2 m) ++ [i]) m) in
          Next (merged, m))))) (fun '(merged, m) =>
        Next (merged, m)))
      (enumerate chunks) (merged, m)) (fun '(merged, m) =>
    let args := EmptyString in
    cbind (cfold (fun '(merged, args) '(k, v) =>
        let index := k in
        let toolCall := (tc_new (Some index)) in
        cbind (if (Nat.ltb 0 (List.length v)) then (cdo (g_nth v 0) (fun x_3 =>
cdo (g_nth chunks x_3) (fun toolCall =>
          Next toolCall)))
          else (Next toolCall)) (fun toolCall =>
        let args := EmptyString in
        let toolID := EmptyString in
        let toolType := EmptyString in
        let toolName := EmptyString in
        cbind (cfold (fun '(args, toolID, toolType, toolName) n =>
            cdo (g_nth chunks n) (fun chunk =>
            cbind (if (negb (String.eqb (tc_id chunk) EmptyString)) then (cbind (if (String.eqb toolID EmptyString) then (let toolID := (tc_id chunk) in
                Next toolID)
                else (if (negb (String.eqb toolID (tc_id chunk))) then (Return (Err E_CONFLICT))
                else Next toolID)) (fun toolID =>
              Next toolID))
              else (Next toolID)) (fun toolID =>
            cbind (if (negb (String.eqb (tc_type chunk) EmptyString)) then (cbind (if (String.eqb toolType EmptyString) then (let toolType := (tc_type chunk) in
                Next toolType)
                else (if (negb (String.eqb toolType (tc_type chunk))) then (Return (Err E_CONFLICT))
                else Next toolType)) (fun toolType =>
              Next toolType))
              else (Next toolType)) (fun toolType =>
            cbind (if (negb (String.eqb (tc_name chunk) EmptyString)) then (cbind (if (String.eqb toolName EmptyString) then (let toolName := (tc_name chunk) in
                Next toolName)
                else (if (negb (String.eqb toolName (tc_name chunk))) then (Return (Err E_CONFLICT))
                else Next toolName)) (fun toolName =>
              Next toolName))
              else (Next toolName)) (fun toolName =>
            cbind (if (negb (String.eqb (tc_args chunk) EmptyString)) then (let args := (args ++ (tc_args chunk))%string in
              Next args)
              else (Next args)) (fun args =>
            Next (args, toolID, toolType, toolName)))))))
          v (args, toolID, toolType, toolName)) (fun '(args, toolID, toolType, toolName) =>
        let toolCall := (tc_set_id toolCall toolID) in
        let toolCall := (tc_set_type toolCall toolType) in
        let toolCall := (tc_set_name toolCall toolName) in
        let toolCall := (tc_set_args toolCall args) in
        let merged := (merged ++ [toolCall]) in
        Next (merged, args))))
      (ord m) (merged, args)) (fun '(merged, args) =>
    cbind (if (Nat.ltb 1 (List.length merged)) then (cdo (r_sort_stable (fun a b => gen_tc_less (tc_idx a) (tc_idx b)) merged) (fun merged =>
      Next merged))
      else (Next merged)) (fun merged =>
    Return (Ok merged))))).

End ToolCalls.
