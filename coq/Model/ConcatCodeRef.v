(* Model/ConcatCodeRef.v — the reference statement-by-statement translation of internal/concat.go
   (toSliceValue, concatSliceValue, concatMaps, concatInterfaces) and of the comparator / sort call of
   schema/message.go concatToolCalls: a copy of what tools/go2v (extractor "concatcode") generates from
   the sources the model was written from.  Proofs/ConcatCodeRef.v proves these definitions equal to the
   functions of Model/Concat.v / Model/ConcatOrder.v that the C14 theorems are about;
   Proofs/GenAgreeConcatCode.v proves, on every run, that the translation regenerated from the current
   sources (Gen/ConcatCode.v) is this one (by conversion: renamed locals and other changes that leave
   the term convertible are accepted, a statement that computes something else is not).
   Regenerate with: go run ./go2v -repo /repo -out <dir> concatcode, then copy the definitions. *)
From Eino Require Import Base.Util Model.ConcatTable Model.Concat Model.ConcatGenLib.

Section Gen.
Context {U : UserFn}.

Definition gen_toSliceValue (vs : list cval) : res (sval) :=
  crun (S := unit) (
    cdo (r_nth vs 0) (fun x_1 =>
let typ := (dyn_ty x_1) in
    cdo (r_make_slice typ (List.length vs)) (fun ret =>
    cdo (r_nth vs 0) (fun x_3 =>
cdo (r_set_index ret 0 x_3) (fun ret =>
    cbind (cfold (fun ret '(i, vs_i) =>
        let v := vs_i in
        let vt := (dyn_ty v) in
        if (negb (oty_eqb typ vt)) then (Return (Err E_TYPE))
        else cdo (r_set_index ret i v) (fun ret =>
        Next ret))
      (skipn 1 (enumerate vs)) ret) (fun ret =>
    Return (Ok ret))))))).

Definition gen_concatSliceValue (val : sval) : res (option cval) :=
  crun (S := unit) (
    let elmType := (sv_elem val) in
    if (Nat.eqb (sv_len val) 1) then (cdo (r_index val 0) (fun x_1 =>
Return (Ok (Some x_1))))
    else let f := (get_concat_func elmType) in
    if (is_some f) then (Return (r_call f val))
    else let filtered := (@None cval) in
    cbind (cfold (fun filtered '(i, val_i) =>
        let oneVal := val_i in
        cbind (if (negb (is_zero oneVal)) then (if (is_some filtered) then (Return (Err E_MULTI))
          else let filtered := (Some oneVal) in
          Next filtered)
          else (Next filtered)) (fun filtered =>
        Next filtered))
      (skipn 0 (enumerate (sv_list val))) filtered) (fun filtered =>
    cbind (if (negb (is_some filtered)) then (let filtered := (Some (zero_of elmType)) in
      Next filtered)
      else (Next filtered)) (fun filtered =>
    Return (Ok filtered)))).

Definition gen_concatMaps (self : sval -> res (option cval)) (ms : sval) : res (option cval) :=
  crun (S := unit) (
    let typ := (sv_elem ms) in
    let rms := (@nil (string * list cval)) in
    cdo (r_make_map typ) (fun ret =>
    let n := (sv_len ms) in
    cbind (cfold (fun rms '(i, ms_i) =>
        let m := ms_i in
        cdo (r_map_keys m) (fun ks_2 =>
cbind (cfold (fun rms key =>
            let vals := (alist_get key rms) in
            cbind (if (negb (is_some vals)) then (let s := (@nil cval) in
              let vals := (Some s) in
              Next vals)
              else (Next vals)) (fun vals =>
            cdo (r_map_index m key) (fun val =>
            cdo (r_append vals val) (fun vals =>
            let rms := (r_set_anys rms key vals) in
            Next rms))))
          ks_2 rms) (fun rms =>
        Next rms)))
      (skipn 0 (enumerate (sv_list ms))) rms) (fun rms =>
    cbind (cfold (fun ret key =>
        let vals := (alist_get key rms) in
        cdo (r_anys vals) (fun anyVals =>
        let nonNilVals := (@nil cval) in
        cbind (cfold (fun nonNilVals anyVal =>
            cbind (if (negb (is_nil anyVal)) then (let nonNilVals := (nonNilVals ++ [anyVal]) in
              Next nonNilVals)
              else (Next nonNilVals)) (fun nonNilVals =>
            Next nonNilVals))
          anyVals nonNilVals) (fun nonNilVals =>
        if (Nat.eqb (List.length nonNilVals) 0) then (cdo (r_set_map ret key (Some (r_zero_elem typ))) (fun ret =>
          Next ret))
        else cdo (gen_toSliceValue nonNilVals) (fun v =>
        let cv := (@None cval) in
        cdo (if (rkind_eqb (ty_kind (sv_elem v)) KdMap) then (self v) else (gen_concatSliceValue v)) (fun cv =>
        cdo (r_set_map ret key cv) (fun ret =>
        Next ret))))))
      (List.map fst rms) ret) (fun ret =>
    Return (Ok (Some ret)))))).

Definition gen_concatInterfaces (concat_maps : sval -> res (option cval)) (vs : sval) : res (option cval) :=
  crun (S := unit) (
    let nonNilVals := (@nil cval) in
    cbind (cfold (fun nonNilVals '(i, vs_i) =>
        let item := vs_i in
        cbind (if (negb (is_nil item)) then (let nonNilVals := (nonNilVals ++ [item]) in
          Next nonNilVals)
          else (Next nonNilVals)) (fun nonNilVals =>
        Next nonNilVals))
      (skipn 0 (enumerate (sv_list vs))) nonNilVals) (fun nonNilVals =>
    if (Nat.eqb (List.length nonNilVals) 0) then (Return (Ok (@None cval)))
    else cdo (gen_toSliceValue nonNilVals) (fun v =>
    if (rkind_eqb (ty_kind (sv_elem v)) KdMap) then (Return (concat_maps v))
    else Return (gen_concatSliceValue v)))).

End Gen.

Definition gen_tc_less (a b : option Z) : option bool :=
  if ((negb (is_some a)) && (negb (is_some b))) then (Some false)
  else if ((negb (is_some a)) && (is_some b)) then (Some true)
  else if ((is_some a) && (negb (is_some b))) then (Some false)
  else (oz_cmp Z.ltb a b).

Definition gen_tc_sort_stable : bool := true.
