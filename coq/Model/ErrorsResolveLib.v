(* Model/ErrorsResolveLib.v — property C13: the vocabulary of the extractor "c13resolve"
   (tools/go2v/c13_resolve.go -> Gen/C13Resolve.v).  runner.resolveInterruptCompletedTasks
   (compose/graph_run.go) walks the completed tasks of a step from the first to the last; for each it
   either goes on (the task succeeded, or its error is an interrupt: a sub-graph's interrupt or
   InterruptAndRerun — bookkeeping that is property C06's) or ends the run with
   wrapGraphNodeError(<key>, <the task's error>).  The extractor reads what ONE task does to the walk, as
   a function of the task's key and error (and of the key of the first task of the list, should the code
   use it); here: the walk, and what the model's step ([stage_fold] of Model/Errors.v) says about the
   same tasks.  Definitions only. *)
From Eino Require Import Base.Util Model.Errors.

Inductive tverdict : Type := TVNext | TVFail (e : err) | TVStop.   (* TVStop: the walk ends here without an error (a `break`) *)

(* isSubGraphInterrupt(err) != nil : errors.As finds a *subGraphInterruptError on the chain *)
Definition go_is_sub_graph_interrupt (e : err) : bool := existsb is_subinterrupt_e (chain e).

(* the walk over the completed tasks (key, error or nil), front to back; the first verdict TVFail ends it *)
Fixpoint resolve_from (f : string -> option err -> tverdict) (ts : list (string * option err)) : option err :=
  match ts with
  | [] => None
  | (k, e) :: r => match f k e with TVFail x => Some x | TVNext => resolve_from f r | TVStop => None end
  end.

Definition resolve_all (f : string -> string -> option err -> tverdict) (ts : list (string * option err)) : option err :=
  match ts with
  | [] => None
  | (k0, _) :: _ => resolve_from (f k0) ts
  end.

(* what the model assumes of one task: an interrupt is not a failure; a failure is reported under the
   key of the task that failed *)
Definition model_resolve_task (key0 key : string) (e : option err) : tverdict :=
  match e with
  | None => TVNext
  | Some ev => if is_interrupt_task ev then TVNext else TVFail (wrap_node key ev)
  end.

(* the first failing task in completion order, under its own key *)
Fixpoint first_failure (ts : list (string * option err)) : option err :=
  match ts with
  | [] => None
  | (k, None) :: r => first_failure r
  | (k, Some e) :: r => if is_interrupt_task e then first_failure r else Some (wrap_node k e)
  end.

(* a completed task as the model's step sees it *)
Definition task_res (e : option err) : nres :=
  match e with None => NOk [] false | Some e => NErr [e] end.
