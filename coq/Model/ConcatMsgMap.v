(* Model/ConcatMsgMap.v — concatMaps on map chunks whose values may be chat messages
   (map[string]any holding *schema.Message values — what a fan-in of message streams
   produces — or a map[string]*schema.Message), through concatStreamReader.  Definitions only.

   Under each key the values are collected in chunk order; nil interface values are
   ignored; toSliceValue requires every value to have the dynamic type of the first
   (a message pointer versus anything else is a type clash); a single value is returned as it is;
   several *Message values go to the registered function ConcatMessages (a typed nil
   pointer among them is its "nil chunk" error); everything else is concat_key of
   Model/Concat.v. *)
From Eino Require Import Base.Util Model.Concat Model.ConcatMsg.

(* generic helpers: keys in order of first appearance, values under a key in chunk order *)
Definition gkeys_of {A} (ms : list (list (string * A))) : list string :=
  fold_left (fun ks m => fold_left (fun ks kv => add_key (fst kv) ks) m ks) ms [].
Definition gvals_at {A} (k : string) (ms : list (list (string * A))) : list A :=
  flat_map (fun m => match alist_get k m with Some v => [v] | None => [] end) ms.

(* one key-wise pass with per-key concatenation [kc] *)
Definition kstep {A} (kc : list A -> res A) (ms : list (list (string * A))) : res (list (string * A)) :=
  res_mapM (fun k => res_map (fun v => (k, v)) (kc (gvals_at k ms))) (gkeys_of ms).

Inductive mval : Type :=
| MVPtrNil                 (* a typed nil *Message *)
| MVMsg (m : msg)          (* a *Message *)
| MVVal (v : cval).        (* any other value; [MVVal CNil] is the nil interface *)

Definition is_mnil (v : mval) : bool := match v with MVVal CNil => true | _ => false end.
Definition is_msgkind (v : mval) : bool := match v with MVVal _ => false | _ => true end.
Definition to_omsg (v : mval) : option msg := match v with MVMsg m => Some m | _ => None end.
Definition to_cval (v : mval) : cval := match v with MVVal c => c | _ => CNil end.

Section User.
Context {U : UserFn}.

Definition concat_mkey (vs : list mval) : res mval :=
  let nn := filter (fun v => negb (is_mnil v)) vs in
  match nn with
  | [] => Ok (MVVal CNil)
  | v0 :: _ =>
      if is_msgkind v0 then
        if forallb is_msgkind nn then
          match nn with
          | [v] => Ok v                                              (* val.Len() == 1 *)
          | _ => res_map MVMsg (concat_msgs (map to_omsg nn))        (* the registered ConcatMessages *)
          end
        else Err E_TYPE
      else
        if forallb (fun v => negb (is_msgkind v)) nn
        then res_map MVVal (concat_key concat_maps_top (map to_cval nn))
        else Err E_TYPE
  end.

Definition concat_mmaps (ms : list (list (string * mval))) : res (list (string * mval)) :=
  kstep concat_mkey ms.

(* concatStreamReader[map[string]any] / [map[string]*Message] *)
Definition mmap_stream (l : list (list (string * mval))) : res (list (string * mval)) :=
  match l with
  | [] => Err E_EMPTY
  | [x] => Ok x
  | _ => concat_mmaps l
  end.

End User.
