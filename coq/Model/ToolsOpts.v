(* Model/ToolsOpts.v — the option list of one Invoke / Stream of compose.ToolsNode
   (compose/tool_node.go: getToolsNodeOptions 356-364, WithToolOption 42-46, WithToolList 49-53)
   and components/tool/option.go GetImplSpecificOptions.  Definitions only; the node itself is
   Model/Tools.v. *)
From Eino Require Import Base.Util Model.Tools.
Local Open Scope string_scope.

(* ---- the call's option list: getToolsNodeOptions (356-364), WithToolOption (42-46),
        WithToolList (49-53); components/tool/option.go GetImplSpecificOptions --------------- *)
(* Invoke / Stream receive a LIST of options and fold it, in the order given, over an empty
   record: WithToolOption(os...) appends os to the tool options collected so far; WithToolList
   (tools...) REPLACES the list collected so far — by nil when it is given no argument, and a nil
   list means "no list option" to Invoke / Stream (the configured tools answer).  So the last
   WithToolList decides, and every WithToolOption counts, in order.
   A tool.Option wraps a function on ONE implementation-specific option struct type: [topt] =
   (that type, payload).  An implementation reads its options with GetImplSpecificOptions, which
   applies, in the order given, the options of the implementation's own type and skips the others.
   [D] = what a tool list contains (the model runs on [tooldecl (list topt)]). *)
Section NodeOptions.
  Variable P : Type.
  Variable D : Type.

  Definition topt : Type := (N * P)%type.

  Definition impl_specific (ty : N) (os : list topt) : list P :=
    map snd (filter (fun o => N.eqb (fst o) ty) os).

  Inductive nodeopt : Type :=
  | WithToolOption (os : list topt)
  | WithToolList (l : option (list D)).

  Definition nodeopts : Type := (option (list D) * list topt)%type.

  Definition apply_nodeopt (st : nodeopts) (o : nodeopt) : nodeopts :=
    match o with
    | WithToolOption os => (fst st, (snd st ++ os)%list)
    | WithToolList l => (l, snd st)
    end.

  Definition get_node_opts (l : list nodeopt) : nodeopts := fold_left apply_nodeopt l (None, []).
End NodeOptions.
Arguments impl_specific {P} _ _.
Arguments WithToolOption {P D} _.
Arguments WithToolList {P D} _.
Arguments apply_nodeopt {P D} _ _.
Arguments get_node_opts {P D} _.

(* one Invoke / Stream of a node built by NewToolNode, given the call's option list *)
Section CallWithOptions.
  Variable P : Type.
  Variable handler : option (string -> string -> tres).
  Let decl : Type := tooldecl (list (topt P)).

  Definition call_invoke (cfg : list decl) (opts : list (nodeopt P decl))
             (pi : list nat) (role_ok : bool) (calls : list call) : res (list tmsg) :=
    node_invoke handler cfg (fst (get_node_opts opts)) (snd (get_node_opts opts)) pi role_ok calls.

  Definition call_stream_open (cfg : list decl) (opts : list (nodeopt P decl))
             (pi : list nat) (role_ok : bool) (calls : list call) : res (list tstream) :=
    node_stream_open handler cfg (fst (get_node_opts opts)) (snd (get_node_opts opts)) pi role_ok calls.

  Definition call_executed (cfg : list decl) (opts : list (nodeopt P decl))
             (role_ok : bool) (calls : list call) : list call :=
    node_executed handler cfg (fst (get_node_opts opts)) (snd (get_node_opts opts)) role_ok calls.
End CallWithOptions.
Arguments call_invoke {P} _ _ _ _ _ _.
Arguments call_stream_open {P} _ _ _ _ _ _.
Arguments call_executed {P} _ _ _ _ _.
