(* Model/ConcatState.v — the package-level state of the concatenation code, as the models of C14 assume it.

   The models (Model/Concat.v, ConcatMsg.v, ...) are pure functions of the chunk list and of the registry of
   concatenation functions (the fixed parameter [U : UserFn] plus Model/ConcatTable.v): the result is a function
   OF THE CHUNK SEQUENCE.  That pictures the Go code faithfully only if the code keeps no other state between
   calls and writes the registry only when a function is registered.  This table lists every use of a
   package-level variable by the concatenation code (internal/concat.go and compose/stream_concat.go: every
   function; schema/message.go: what is reachable from ConcatMessages, ConcatMessageStream, concatMessageArray,
   concatToolCalls and init).  The same table is regenerated from the Go sources on every run
   (tools/go2v "concatstate" -> Gen/ConcatState.v) and Proofs/GenAgreeConcatState.v proves the two equal. *)
From Eino Require Import Base.Util.

Inductive effect : Type :=
| EWrite    (* assigned; an element / field of it assigned; ++ / --; delete; the target of a range *)
| EAddr     (* its address is taken *)
| ECall     (* a method is called on it (pool.Get(), once.Do(..), mu.Lock()) *)
| EIndex    (* v[..] is read *)
| ERead.    (* any other mention: the value (or an alias of it) leaves the expression *)

Definition effect_eqb (a b : effect) : bool :=
  match a, b with
  | EWrite, EWrite | EAddr, EAddr | ECall, ECall | EIndex, EIndex | ERead, ERead => true
  | _, _ => false
  end.

(* may change the variable, or hand out the means to *)
Definition mutating (e : effect) : bool :=
  match e with EWrite | EAddr | ECall => true | EIndex | ERead => false end.

(* (file, variable, function, effect); the function is "" for the two reading effects *)
Definition state_effects : list (string * string * string * effect) :=
  [ ("compose/stream_concat.go"%string, "emptyStreamConcatErr"%string, ""%string, ERead);
    ("internal/concat.go"%string, "concatFuncs"%string, ""%string, EIndex);
    ("internal/concat.go"%string, "concatFuncs"%string, "RegisterStreamChunkConcatFunc"%string, EWrite) ].

(* the rows that can change a variable *)
Definition state_mutations (t : list (string * string * string * effect)) : list (string * string * string) :=
  map (fun r => match r with (f, v, fn, _) => (f, v, fn) end)
      (filter (fun r => match r with (_, _, _, e) => mutating e end) t).

(* a variable whose value (a reference) is handed out whole by some reader: aliases of it escape the analysis *)
Definition state_leaks (t : list (string * string * string * effect)) : list (string * string) :=
  map (fun r => match r with (f, v, _, _) => (f, v) end)
      (filter (fun r => match r with (_, _, _, e) => effect_eqb e ERead end) t).
