(* Model/StateLockType.v — C11: which state object a handler / a ProcessState call finds,
   and of which type (compose/state.go getState: "have not set state" / "unexpected state
   type"; compose/graph.go:184-224 AddNode: a state handler needs a graph that declares state,
   of the handler's state type).

   A typing of a program: per graph the state type it declares ([gty]), per node the state
   type its pre-handler / post-handler / ProcessState calls are written for ([nty]).
   [build_err_t]: AddNode / Compile refuses the program. [must_fail_t]: some lambda calls
   ProcessState where no enclosing graph declares state, or for another type than the one of
   the nearest enclosing graph that does (the run fails). [nest_ok]: the forest is a tree of
   nested graphs (every graph that is used as a nested graph is used by the nodes of one
   graph only, which comes earlier in the forest) - hypothesis under which the static
   [owner] (Model/StateLock.v) is the graph whose generator made the object an instance sees.
   [obj_root]: the graph whose generator made an object, through any number of resumes.
   Definitions only; evaluated by Corr/C11.v on every case; theorems in Proofs/StateLockType.v. *)
From Eino Require Import Base.Util Model.StateLock Model.StateLockLTS.
Open Scope N_scope.

Definition typing := list (N * (N * (N * N))).

Definition gty_of (gty : list N) (g : nat) : N := nth g gty 0.
Definition nty_of (nty : typing) (n : N) : N * (N * N) :=
  match nlist_get n nty with Some t => t | None => (0, (0, 0)) end.
Definition t_pre (nty : typing) (a : node) : N := fst (nty_of nty (n_id a)).
Definition t_post (nty : typing) (a : node) : N := fst (snd (nty_of nty (n_id a))).
Definition t_ps (nty : typing) (a : node) : N := snd (snd (nty_of nty (n_id a))).

Definition graphs_of (f : forest) : list (nat * graph) := combine (seq 0 (List.length f)) f.

(* the graph whose state the nodes of graph g find in their context *)
Definition owner_of (f : forest) (g : nat) : option nat := owner (S (List.length f)) f g.

(* AddNode rejects a state handler on a node of a graph that declares no state, and a state
   handler written for another state type than the graph's *)
Definition build_err_t (f : forest) (gty : list N) (nty : typing) : bool :=
  existsb (fun gg => let '(gi, g) := gg in
             if g_state g then
               existsb (fun a => (n_pre a && negb (N.eqb (t_pre nty a) (gty_of gty gi))) ||
                                 (n_post a && negb (N.eqb (t_post nty a) (gty_of gty gi)))) (g_nodes g)
             else existsb (fun a => n_pre a || n_post a) (g_nodes g))
          (graphs_of f).

(* a lambda that calls ProcessState where no enclosing graph declares state, or for another
   state type than the one of the nearest enclosing graph that does, fails the run *)
Definition must_fail_t (f : forest) (gty : list N) (nty : typing) : bool :=
  existsb (fun gg => let '(gi, g) := gg in
             existsb (fun a => match n_sub a with
                               | Some _ => false
                               | None => Nat.ltb 0 (n_ps a) &&
                                         match owner_of f gi with
                                         | Some og => negb (N.eqb (t_ps nty a) (gty_of gty og))
                                         | None => true
                                         end
                               end) (g_nodes g))
          (graphs_of f).

(* every node that runs graph s as a nested graph belongs to the graph [parent_of f s] names,
   and that graph comes before s in the forest (so graph 0 is nobody's nested graph) *)
Definition nest_ok (f : forest) : bool :=
  forallb (fun gg => let '(gi, g) := gg in
             forallb (fun a => match n_sub a with
                               | Some s => match parent_of f s with
                                           | Some (pg, _) => Nat.eqb pg gi && Nat.ltb gi s
                                           | None => false
                                           end
                               | None => true
                               end) (g_nodes g))
          (graphs_of f).

(* the graph whose generator made object o (followed through resumes) *)
Fixpoint obj_root {S : Type} (fuel : nat) (objs : list (objrec S)) (o : nat) : option nat :=
  match fuel with
  | O => None
  | Datatypes.S fu =>
    match nth_error objs o with
    | None => None
    | Some r => match o_origin r with
                | OGen g => Some g
                | OResumed o' _ => obj_root fu objs o'
                end
    end
  end.

(* the conclusion of state_lookup_well_typed (first part), evaluated: every instance sees no
   object if no enclosing graph declares state, otherwise an object made by the generator of
   the nearest enclosing graph that does *)
Definition lookup_ok {S X : Type} (f : forest) (c : config S X) : bool :=
  forallb (fun J => match owner_of f (i_graph J), i_obj J with
                    | None, None => true
                    | Some og, Some o =>
                        match obj_root (List.length (c_objs c)) (c_objs c) o with
                        | Some g => Nat.eqb g og
                        | None => false
                        end
                    | _, _ => false
                    end) (c_insts c).
