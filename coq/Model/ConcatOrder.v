(* Model/ConcatOrder.v — the places where the Go code iterates over a Go map, made
   explicit.  Definitions only.

   Go's map iteration order is arbitrary and may differ from call to call.  The code
   iterates over a map in three places:
     concatMaps        for _, key := range rms.MapKeys()      (internal/concat.go, second loop;
                                                               the first loop fills the map rms,
                                                               so its order leaves no trace)
     concatToolCalls   for k, v := range m                    (schema/message.go), followed by
                       sort.SliceStable(merged, nil index first, then ascending index)
   [Model/Concat.v] and [Model/ConcatMsg.v] (the functions the correspondence check
   evaluates) fix one order: first appearance of the key, ascending index.  Here the same
   functions take the iteration order as an argument: a *schedule* gives, for every call of
   concatMaps in the call tree (one per nested map key), the permutation applied to the key
   list.  Proofs/ConcatOrder.v shows that the result does not depend on it. *)
From Eino Require Import Base.Util Model.ConcatTable Model.Concat Model.ConcatMsg.
From Coq Require Import Sorting.Permutation.

Section User.
Context {U : UserFn}.

(* ---------------------------------------------------------------- Go maps up to representation *)

(* A [CMap] is an association list; the Go value it stands for is the lookup function.
   Two chunk values are the same Go value iff they agree up to the order (and shadowed
   duplicates) of the association lists, at every depth. *)
Inductive ceq : cval -> cval -> Prop :=
| ceq_str s : ceq (CStr s) (CStr s)
| ceq_num k z : ceq (CNum k z) (CNum k z)
| ceq_nil : ceq CNil CNil
| ceq_other t p : ceq (COther t p) (COther t p)
| ceq_map mt m m' :
    (forall k, alist_get k m = None <-> alist_get k m' = None) ->
    (forall k v v', alist_get k m = Some v -> alist_get k m' = Some v' -> ceq v v') ->
    ceq (CMap mt m) (CMap mt m').

Definition meq (m m' : list (string * cval)) : Prop := ceq (CMap 0 m) (CMap 0 m').

(* a decision procedure for [ceq] (sound: Proofs/ConcatOrder.v, ceqb_sound); fuel = nesting depth + 1 *)
Fixpoint ceqb (fuel : nat) (a b : cval) : bool :=
  match fuel with
  | O => false
  | S f =>
    match a, b with
    | CStr s, CStr s' => String.eqb s s'
    | CNum k z, CNum k' z' => N.eqb k k' && Z.eqb z z'
    | CNil, CNil => true
    | COther t p, COther t' p' => N.eqb t t' && N.eqb p p'
    | CMap mt m, CMap mt' m' =>
        N.eqb mt mt' &&
        forallb (fun kv => match alist_get (fst kv) m, alist_get (fst kv) m' with
                           | Some v, Some v' => ceqb f v v'
                           | _, _ => false
                           end) m &&
        forallb (fun kv => match alist_get (fst kv) m with Some _ => true | None => false end) m'
    | _, _ => false
    end
  end.

(* results: equal Go values, or both fail (the error that is reported may be the one of
   another key: the code returns at the first failing key it happens to visit), or both panic *)
Definition rrel {A} (R : A -> A -> Prop) (r r' : res A) : Prop :=
  match r, r' with
  | Ok a, Ok b => R a b
  | Err _, Err _ => True
  | Panic, Panic => True
  | _, _ => False
  end.

(* ---------------------------------------------------------------- schedules *)

(* [Sched ord sub]: this call of concatMaps visits the keys [ks] in the order [ord ks]; the
   nested call for the values under key [k] follows [sub k].  [SFirst]: first-appearance
   order here and below (the order Model/Concat.v uses). *)
Inductive sched : Type :=
| SFirst
| Sched (ord : list string -> list string) (sub : string -> sched).

Definition s_ord (s : sched) : list string -> list string :=
  match s with SFirst => fun l => l | Sched o _ => o end.
Definition s_sub (s : sched) : string -> sched :=
  match s with SFirst => fun _ => SFirst | Sched _ sb => sb end.

(* a schedule is admissible when every order it chooses is a permutation of the keys *)
Inductive sched_ok : sched -> Prop :=
| ok_first : sched_ok SFirst
| ok_sched o sb : (forall l, Permutation (o l) l) -> (forall k, sched_ok (sb k)) -> sched_ok (Sched o sb).

(* an admissible schedule that differs from first-appearance order: the key list reversed
   at every nesting level down to depth [n] (used by the correspondence check, which
   evaluates the model under this schedule as well, and by the non-vacuity examples) *)
Fixpoint rev_sched (n : nat) : sched :=
  match n with O => SFirst | S n' => Sched (@rev string) (fun _ => rev_sched n') end.

(* concatMaps under a schedule *)
Fixpoint concat_maps_o (fuel : nat) (s : sched) (ms : list (list (string * cval))) : res (list (string * cval)) :=
  match fuel with
  | O => Err 0%N
  | S f =>
      res_mapM (fun k => res_map (fun v => (k, v)) (concat_key (concat_maps_o f (s_sub s k)) (vals_at k ms)))
               (s_ord s (keys_of ms))
  end.

Definition concat_maps_top_o (s : sched) (ms : list (list (string * cval))) : res (list (string * cval)) :=
  concat_maps_o (S (dmaps ms)) s ms.

(* ConcatItems / concatStreamReader under a schedule *)
Definition concat_items_o (s : sched) (vs : list cval) : res cval :=
  match vs with
  | [] => Panic
  | v0 :: _ =>
    match dyn_ty v0 with
    | None => Panic
    | Some (TMap mt) => res_map (CMap mt) (concat_maps_o (S (depth_list vs)) s (maps vs))
    | Some t => concat_typed (fun _ => Err 0%N) t vs
    end
  end.

Definition concat_stream_o (s : sched) (vs : list cval) : res cval :=
  match vs with
  | [] => Err E_EMPTY
  | [v] => Ok v
  | _ => concat_items_o s vs
  end.

(* ---------------------------------------------------------------- tool calls *)

(* the comparator given to sort.SliceStable *)
Definition tc_less (a b : toolcall) : bool :=
  match tc_idx a, tc_idx b with
  | None, None => false
  | None, Some _ => true
  | Some _, None => false
  | Some i, Some j => Z.ltb i j
  end.

(* a stable sort: [x] is placed before the first element that is not smaller than it, so
   elements that compare equal keep their order (every stable sort computes this list) *)
Fixpoint sinsert (x : toolcall) (l : list toolcall) : list toolcall :=
  match l with
  | [] => [x]
  | y :: l' => if tc_less y x then y :: sinsert x l' else x :: y :: l'
  end.
Definition ssort (l : list toolcall) : list toolcall := fold_right sinsert [] l.

(* concatToolCalls when the index map is visited in the order [p] *)
Definition concat_toolcalls_o (p : list Z) (cs : list toolcall) : res (list toolcall) :=
  do merged <- res_mapM (fun i => merge_group i (filter (has_idx i) cs)) p;
  Ok (ssort (filter is_nil_idx cs ++ merged)).

(* ---------------------------------------------------------------- messages *)

(* ConcatMessages when concatToolCalls visits its index map in the order [po idxs] and
   the Extra maps are concatenated under schedule [s] *)
Definition concat_msgs_o (po : list Z -> list Z) (s : sched) (l : list (option msg)) : res msg :=
  match all_some l with
  | None => Err E_NILMSG
  | Some ms =>
      do role <- pick (map m_role ms);
      do name <- pick (map m_name ms);
      do tcid <- pick (map m_tcid ms);
      do tcs <- concat_toolcalls_o (po (idxs_of (flat_map m_tcs ms))) (flat_map m_tcs ms);
      do extra <- concat_maps_top_o s (filter nonempty_map (map m_extra ms));
      Ok (mkMsg role name tcid
                (concat_strings (map m_content ms))
                (concat_multi (map m_multi ms))
                tcs
                (concat_meta (map m_meta ms))
                extra)
  end.

(* two messages that are the same Go value: equal fields, Extra maps equal as Go maps *)
Definition msg_same (a b : msg) : Prop :=
  m_role a = m_role b /\ m_name a = m_name b /\ m_tcid a = m_tcid b /\ m_content a = m_content b /\
  m_multi a = m_multi b /\ m_tcs a = m_tcs b /\ m_meta a = m_meta b /\ meq (m_extra a) (m_extra b).

Definition omsg_same (a b : option msg) : Prop :=
  match a, b with Some x, Some y => msg_same x y | None, None => True | _, _ => False end.

End User.
