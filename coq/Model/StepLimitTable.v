(* Model/StepLimitTable.v — property C01: the default step limit of graph.compile as the
   constants tools/go2v regenerates from compose/graph.go on every run (Gen/StepLimit.v;
   Proofs/GenAgreeGraph.v proves them equal and ties them to [default_limit_of] of
   Model/Graph.v).  Definitions only. *)
From Eino Require Import Base.Util Model.Graph.
Local Open Scope string_scope.

Definition default_step_addend : nat := 10.
(* the expression the addend is added to: one channel per node that can be triggered *)
Definition default_step_base : string := "len(r.chanSubscribeTo)".
(* the default applies in any-predecessor mode when no limit was given *)
Definition default_step_guard : string := "!r.dag&&r.options.maxRunSteps==0".
