(* Model/ConcatOrderList.v — concatMessageArray / concatStreamReader[[]*Message] with Go's map
   iteration made explicit: every ConcatMessages call (one per position of the lists) visits
   the tool-call index map in the order [po] dictates and concatenates the Extra maps under the
   schedule [s] (Model/ConcatOrder.v).  Definitions only. *)
From Eino Require Import Base.Util Model.Concat Model.ConcatMsg Model.ConcatOrder.

Section User.
Context {U : UserFn}.

Definition concat_column_o (po : list Z -> list Z) (s : sched) (slice : list msg) : res (option msg) :=
  match slice with
  | [] => Ok None
  | [m] => Ok (Some m)
  | _ => res_map Some (concat_msgs_o po s (map Some slice))
  end.

Definition concat_msg_arrays_o (po : list Z -> list Z) (s : sched) (mas : list (list (option msg))) : res (list (option msg)) :=
  match mas with
  | [] => Panic
  | ma0 :: _ =>
      let n := List.length ma0 in
      if forallb (fun ma => Nat.eqb (List.length ma) n) mas
      then res_mapM (fun i => concat_column_o po s (column i mas)) (seq 0 n)
      else Err E_LEN
  end.

Definition msglist_stream_o (po : list Z -> list Z) (s : sched) (l : list (list (option msg))) : res (list (option msg)) :=
  match l with
  | [] => Err E_EMPTY
  | [x] => Ok x
  | _ => concat_msg_arrays_o po s l
  end.

End User.
