(* Model/C04GenLib.v — property C04: the vocabulary of the statement-by-statement
   translations that tools/go2v (extractors c04concat, c04conv, c04handle, c04keys, c04copy)
   emits into coq/Gen/C04*.v: what a Go operation of the translated fragment means on the
   data of Model/Paradigm.v / Model/StreamOps.v.  Definitions only.

   Readers.  A [stream X] is the list of items a reader still has to deliver.  One Recv:
       []            -> io.EOF                         (the reader stays empty)
       Bad e :: s'   -> the error item e               (the reader goes on with s')
       Val x :: s'   -> the chunk x, nil
   The translator turns `x, err := sr.Recv()` into a [match] on the reader with these three
   cases and resolves the tests `err != nil`, `err == io.EOF` statically in each of them.

   Errors are classes ([N], Model/Paradigm.v), never messages. *)
From Eino Require Import Base.Util Model.Paradigm Model.StreamOps.

(* ---------------------------------------------------------------- slices *)
(* l[i]: an index out of range is a run-time panic *)
Definition go_idx {X} (l : list X) (i : nat) : res X :=
  match nth_error l i with Some x => Ok x | None => Panic end.

(* for _, v := range l { s, err = f(s, v); if err != nil { return …, err } } *)
Fixpoint fold_res {S V} (f : S -> V -> res S) (l : list V) (s : S) : res S :=
  match l with
  | [] => Ok s
  | v :: l' => do s' <- f s v; fold_res f l' s'
  end.

(* ---------------------------------------------------------------- convert functions *)
(* what the function handed to schema.StreamReaderWithConvert returns for one chunk:
   (y, nil) / (_, schema.ErrNoValue) / (_, another error) *)
Inductive conv (Y : Type) : Type :=
| CVal (y : Y)
| CNoValue
| CErr (e : N).
Arguments CVal {Y} y.
Arguments CNoValue {Y}.
Arguments CErr {Y} e.

(* the result of one recv of a reader: a chunk, an error item, io.EOF *)
Inductive rres (Y : Type) : Type :=
| RVal (y : Y)
| RErr (e : N)
| REOF.
Arguments RVal {Y} y.
Arguments RErr {Y} e.
Arguments REOF {Y}.

(* everything a consumer receives from a reader whose recv is [recv], read to io.EOF.  Every
   recv that does not report io.EOF consumes at least one item of the source, so
   [S (length s)] calls suffice; the bound is explicit and a theorem about [read_all] has to
   show that it is not reached (the last call returns REOF). *)
Fixpoint read_all {X Y} (fuel : nat) (recv : stream X -> rres Y * stream X) (s : stream X) : stream Y :=
  match fuel with
  | O => []
  | S f =>
      match recv s with
      | (RVal y, s') => Val y :: read_all f recv s'
      | (RErr e, s') => Bad e :: read_all f recv s'
      | (REOF, _) => []
      end
  end.

(* the item-wise meaning of a converted reader: chunks are converted, ErrNoValue chunks
   vanish, conversion errors become error items, error items pass *)
Definition conv_item {X Y} (f : X -> conv Y) (it : item X) : list (item Y) :=
  match it with
  | Val x => match f x with CVal y => [Val y] | CNoValue => [] | CErr e => [Bad e] end
  | Bad e => [Bad e]
  end.

Definition s_convert {X Y} (f : X -> conv Y) (s : stream X) : stream Y := flat_map (conv_item f) s.

(* ---------------------------------------------------------------- values of type any *)
(* map[string]any{key: v} *)
Definition wrap_key (k : N) (v : val) : val :=
  match v with
  | VS s => VM [(kstr k, s)]
  | VM m => VM (nest k m)
  end.

(* v.(map[string]any) without the ok result: a failed assertion panics *)
Definition as_map (v : val) : res amap :=
  match v with VM m => Ok m | VS _ => Panic end.

(* v, ok := x.(T) where [has_ty] says which values have the type T *)
Definition assert_ty (has_ty : val -> bool) (v : val) : option val :=
  if has_ty v then Some v else None.

(* what flows through the graph engine as `any`: a plain value or a streamReader *)
Inductive gval : Type :=
| GV (x : val)
| GS (s : stream val).

(* value.(streamReader) without the ok result *)
Definition as_stream (g : gval) : res (stream val) :=
  match g with GS s => Ok s | GV _ => Panic end.

(* s, ok := item.(streamReader) *)
Definition stream_of (g : gval) : option (stream val) :=
  match g with GS s => Some s | GV _ => None end.

(* ---------------------------------------------------------------- handler pairs *)
(* handlerPair of compose/generic_helper.go: the invoke form and the transform form of one
   edge / pre-node / pre-branch handler *)
Record hpair : Type := {
  hp_invoke : val -> res val;
  hp_transform : stream val -> stream val
}.

(* v.invoke(value): the value handlers (defaultValueChecker, the field mapping converter)
   are written for plain values; a streamReader fails their type test *)
Definition call_invoke (h : hpair) (g : gval) : res gval :=
  match g with
  | GV x => res_map GV (hp_invoke h x)
  | GS _ => Err e_type
  end.

(* Go maps keyed by node keys, as association lists *)
Definition go_get {A} (k : N) (m : list (N * A)) : option A := nlist_get k m.

(* m[k] without the ok result: the zero value when the key is missing *)
Definition go_at {A} (zero : A) (k : N) (m : list (N * A)) : A :=
  match nlist_get k m with Some a => a | None => zero end.

(* the handlers a handler manager applies, in order, in their two forms *)
Definition handlers_value (hs : list hpair) (x : val) : res val :=
  fold_res (fun v h => hp_invoke h v) hs x.

Definition handlers_stream (hs : list hpair) (s : stream val) : stream val :=
  fold_left (fun o h => hp_transform h o) hs s.

(* ---------------------------------------------------------------- Go maps (reflect) *)
(* reflect.MakeMap(typ): panics when typ is not a map type ([is_map] of the value the type
   was taken from) *)
Definition make_map (typ_is_map : bool) : res amap := if typ_is_map then Ok [] else Panic.

(* reflect.ValueOf(m).MapRange(): the entries (key, value) of the map, one per top-level key.
   A value is the string or the nested map under the key; in the flattened representation it
   is the list of the entries whose path starts with the key.  Consecutive entries with the
   same top-level key form one entry of the Go map (the maps of a run are sorted by key, so
   all entries of a key are consecutive: [grouped]). *)
Fixpoint go_map_range (m : amap) : list (N * amap) :=
  match m with
  | [] => []
  | e :: m' =>
      match go_map_range m' with
      | (k, g) :: r => if N.eqb (fst (fst e)) k then (k, e :: g) :: r
                       else (fst (fst e), [e]) :: (k, g) :: r
      | [] => [(fst (fst e), [e])]
      end
  end.

(* every top-level key forms one run of consecutive entries *)
Definition grouped (m : amap) : bool := nodup_N (map fst (go_map_range m)).

(* m.SetMapIndex(key, value) for a key the map does not hold yet: the entries of the value (they
   carry the key as the head of their paths) go to their sorted places *)
Definition go_map_set (k : N) (v : amap) (m : amap) : amap := ins_all v m.

(* ---------------------------------------------------------------- the fan-in dispatch (mergeValues) *)
(* reflect.ValueOf(x).Type().Kind() == reflect.Map for what flows through the engine: true of a
   plain map value; a streamReader is a struct, a string is a string *)
Definition g_is_map (g : gval) : bool :=
  match g with GV v => is_map v | GS _ => false end.

(* the plain values of a list without readers *)
Fixpoint all_vals (vs : list gval) : option (list val) :=
  match vs with
  | [] => Some []
  | GV x :: r => match all_vals r with Some l => Some (x :: l) | None => None end
  | GS _ :: _ => None
  end.

(* mergeMap(vs) as called by mergeValues on the engine's values: on plain values it is [mm]; a
   reader among them is a value of another type (mergeMap: "field type mismatch", unless it
   meets a duplicated key first: an error either way) *)
Definition merge_map_on (mm : list val -> res val) (vs : list gval) : res gval :=
  match all_vals vs with
  | Some l => res_map GV (mm l)
  | None => Err e_type
  end.
