(* Model/SerStream.v — what a streaming run does with a value that sits in a checkpoint as a
   stream (a pending node input or a channel value written by a streaming predecessor):
   compose/checkpoint.go convertCheckPoint / restoreCheckPoint -> convert / restore, with the
   stream <-> value pair of compose/generic_helper.go defaultStreamConvertPair.

     convert (before the checkpoint is written):
        the stream is concatenated; no chunk at all      -> nil is stored
                                   the nil value of an interface chunk type
                                                          -> the marker nilChunk{} is stored   (fix 5464095, F-C12l;
                                                             before: nil, like the empty stream)
                                   any other value v      -> v is stored
     restore (after it was read back), resumed through Stream:
        nil -> a stream without chunks;  nilChunk{} -> a stream of the one chunk nil;  v -> a stream of the one chunk v
     restore, resumed through Invoke:   nilChunk{} -> nil;  everything else is left as it is.
     convert in a run without streams (the pending input is a value): nil -> nilChunk{} (fix fb04a24:
        a resume through Stream would read a plain nil as a stream without chunks); v -> v.

   A chunk of a stream of chunk type any is a value or the nil interface ([None]).  The
   concatenation of two or more chunks is a parameter (property C14 is about it); of one chunk it
   is that chunk.  Definitions only. *)
From Coq Require Import List Bool NArith String.
From Eino Require Import Base.Util Base.Universe Model.Ser Model.SerCheckpoint.
Import ListNotations.

Definition chunk : Type := option val.
Inductive stored : Type :=
| SNil                 (* a plain nil *)
| SNilChunk            (* the marker nilChunk{} *)
| SVal (v : val).

Section Conv.
  Variable concat : list chunk -> res chunk.      (* concatStreamReader on a stream with at least one chunk *)
  Variable fix_l : bool.                          (* fix 5464095 *)

  Definition convert (s : list chunk) : res stored :=
    match s with
    | [] => Ok SNil                               (* emptyStreamConcatErr *)
    | _ => do c <- concat s;
           match c with
           | None => Ok (if fix_l then SNilChunk else SNil)
           | Some v => Ok (SVal v)
           end
    end.
  (* a run without streams: the value itself is the pending input; fix_m = fix fb04a24 *)
  Definition convert_value (fix_m : bool) (c : chunk) : stored :=
    match c with
    | None => if fix_m then SNilChunk else SNil
    | Some v => SVal v
    end.
  Definition restore_stream (st : stored) : list chunk :=
    match st with
    | SNil => []
    | SNilChunk => [None]
    | SVal v => [Some v]
    end.
  (* resumed without streams: the value the successor is handed *)
  Definition restore_value (st : stored) : chunk :=
    match st with
    | SNil | SNilChunk => None
    | SVal v => Some v
    end.
End Conv.

(* the marker as a value of the universe: a struct without fields, registered by compose *)
Definition nil_chunk_val : val := VStruct S_NILCHUNK [].
Definition stored_val (st : stored) : val :=
  match st with
  | SNil => VIface TAny None
  | SNilChunk => VIface TAny (Some nil_chunk_val)
  | SVal v => VIface TAny (Some v)
  end.

(* the concatenation the correspondence check evaluates: streams of at most one chunk *)
Definition concat_c (s : list chunk) : res chunk :=
  match s with
  | [c] => Ok c
  | _ => Err E_UNMODELLED
  end.
