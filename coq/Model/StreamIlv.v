(* Model/StreamIlv.v — property C08: a polynomial-time evaluation of the interleaving predicate.

   [is_interleaving_of] (Model/Stream.v) decides [Shuf] by backtracking; on histories in which
   several strands share items (copies of one source merged again, the same source through
   different conversions: error items pass unchanged) a wrong early choice is discovered late
   and the search is exponential.  [ilv_fast] decides the same predicate by a breadth-first
   sweep over the *set* of reachable position vectors (one step per observed item, states
   de-duplicated by their remaining lengths) with a symmetry reduction: a strand whose remaining
   items equal those of an earlier strand of the same state is not advanced (the two successors
   differ by a transposition of strands; without it k copies of one source merged again give
   C(t+k-1,k-1) position vectors after t items — minutes of vm_compute for k = 7).  Linear in the
   history for unambiguous strands and for copies of one strand, polynomial in general.
   Proofs/StreamIlv.v: [ilv_fast full l strs = true <-> Shuf full l strs] (what the
   correspondence check accepts is exactly the specification the theorems prove of the model). *)
From Eino Require Import Base.Util Model.Stream.

Definition pstrand : Type := (nat * list item)%type.
Definition pstate : Type := list pstrand.
Definition pinit (strs : list (list item)) : pstate := map (fun s => (List.length s, s)) strs.

(* equality of two strands of a state (remaining length first: cheap when they differ) *)
Fixpoint items_eqb (a b : list item) : bool :=
  match a, b with
  | [], [] => true
  | x :: a', y :: b' => if item_eqb x y then items_eqb a' b' else false
  | _, _ => false
  end.
Definition strand_eqb (p q : pstrand) : bool :=
  if Nat.eqb (fst p) (fst q) then items_eqb (snd p) (snd q) else false.

(* all states reached from [st] by taking [x] from the head of one strand (order of the
   strands kept); of several equal strands only the first is advanced *)
Fixpoint pstep_go (x : item) (pre : list pstrand) (post : pstate) {struct post} : list pstate :=
  match post with
  | [] => []
  | (n, s) :: post' =>
      match s with
      | y :: s' =>
          if item_eqb x y
          then if existsb (strand_eqb (n, s)) pre
               then pstep_go x ((n, s) :: pre) post'
               else rev_append pre ((Nat.pred n, s') :: post') :: pstep_go x ((n, s) :: pre) post'
          else pstep_go x ((n, s) :: pre) post'
      | [] => pstep_go x ((n, s) :: pre) post'
      end
  end.
Definition pstep (x : item) (st : pstate) : list pstate := pstep_go x [] st.

Fixpoint lens_eqb (a b : pstate) : bool :=
  match a, b with
  | [], [] => true
  | (n, _) :: a', (m, _) :: b' => Nat.eqb n m && lens_eqb a' b'
  | _, _ => false
  end.
(* keep one representative of every vector of remaining lengths *)
Fixpoint pdedup (acc l : list pstate) : list pstate :=
  match l with
  | [] => acc
  | st :: l' => if existsb (lens_eqb st) acc then pdedup acc l' else pdedup (st :: acc) l'
  end.
Definition pdone (full : bool) (st : pstate) : bool :=
  if full then forallb (fun p => nilb (snd p)) st else true.
Fixpoint ilv_sweep (full : bool) (obs : list item) (states : list pstate) {struct obs} : bool :=
  match obs with
  | [] => existsb (pdone full) states
  | x :: obs' =>
      match pdedup [] (flat_map (pstep x) states) with
      | [] => false
      | next => ilv_sweep full obs' next
      end
  end.
Definition ilv_fast (full : bool) (obs : list item) (strs : list (list item)) : bool :=
  ilv_sweep full obs [pinit strs].
