(* Model/ChainSpec.v — what a Chain MEANS (C01): sequential composition of its stages.
   [eval_chain] never builds a graph: it folds over the list of stages, handing the value from one stage to
   the next.
     node stage      v |-> node(v)
     parallel stage  v |-> merge by key of { outkey_i : node_i(v) }          (all nodes run on the same v)
     branch stage    v |-> merge of node_j(v) for the nodes j the condition selects for v
   The merge is the engine's fan-in [get_merge] (one value: itself). Failures are part of the meaning: a
   failing node fails the chain with that node's error; an illegal branch choice, a failed merge, a branch
   selecting nothing ("no tasks") and the step limit (one step per stage) are reported as the engine does.
   Proofs/PregelChain.v: running the lowered graph ([chain_lower], Model/Chain.v) = [eval_chain]. *)
From Eino Require Import Base.Util Model.Graph Model.Chain.
Open Scope N_scope.

Definition stage_snodes (st : stage) : list snode :=
  match st with SNode n => [n] | SPar ns => ns | SBranch ns _ => ns end.

Definition branch_of (ns : list snode) (table : list (list key)) : branch :=
  {| b_ends := map sn_key ns; b_nodata := false; b_table := table |}.

Definition snode_ltb (a b : snode) : bool := N.ltb (sn_key a) (sn_key b).

Section ChainSpec.
  Variable V : Type.
  Variable St : Type.
  Variable ops : vops V.
  Variable exec : St -> path -> V -> res V * St.
  Variable sub : nat -> path -> V -> St -> outcome V * St.

  (* the nodes of a stage that run on input v *)
  Definition group_of (st : stage) (v : V) : res (list snode) :=
    match st with
    | SNode n => Ok [n]
    | SPar ns => Ok ns
    | SBranch ns table =>
        let sel := choose V ops (branch_of ns table) v in
        if subset sel (map sn_key ns) then Ok (filter (fun n => memb (sn_key n) sel) ns) else Err eBranch
    end.

  (* run the nodes one after the other on the same input (state is threaded; order = ascending key) *)
  Fixpoint run_group (p : path) (ns : list snode) (v : V) (s : St) : list (key * tres V) * log V * St :=
    match ns with
    | [] => ([], [], s)
    | n :: rest =>
        let '(r, l1, s1) := run_task V St ops exec sub p (node_of n) v s in
        let '(rs, l2, s2) := run_group p rest v s1 in
        ((sn_key n, r) :: rs, l1 ++ l2, s2)
    end.

  (* [outs]: the outputs of the previous stage, keyed by node (initially the chain input, keyed START) *)
  Fixpoint eval_stages (p : path) (sts : list stage) (budget : nat) (outs : list (key * V)) (s : St) (lg : log V)
    : outcome V * St :=
    match get_merge V ops outs with
    | Err e => (Fail [mkerr e] lg, s)
    | Panic => (Fail [mkerr ePanic] lg, s)
    | Ok v =>
      match sts with
      | [] => (Done v lg, s)
      | st :: rest =>
        match group_of st v with
        | Err e => (Fail [mkerr e] lg, s)
        | Panic => (Fail [mkerr ePanic] lg, s)
        | Ok grp =>
          match budget with
          | O => (Fail [mkerr eMaxSteps] lg, s)
          | S b =>
            let grp' := sort_by snode_ltb grp in
            let tasks := map (fun n => (sn_key n, v)) grp' in
            let '(results, sublog, s') := run_group p grp' v s in
            let lg' := lg ++ (match tasks with [] => [] | _ => [step_entry V p tasks] end) ++ sublog in
            match task_errors V results with
            | (_ :: _) as es => (Fail es lg', s')
            | [] =>
              match results with
              | [] => (Fail [mkerr eNoTasks] lg', s')
              | _ => eval_stages p rest b (task_outputs V results) s' lg'
              end
            end
          end
        end
      end
    end.

  (* number of graph nodes of a chain = number of stage nodes; default limit as graph.compile computes it *)
  Definition chain_max_steps (sts : list stage) (max : nat) : nat :=
    match max with
    | O => default_limit_of (List.length (flat_map stage_snodes sts))
    | m => m
    end.

  Definition eval_chain (p : path) (sts : list stage) (max : nat) (x : V) (s : St) : outcome V * St :=
    eval_stages p sts (chain_max_steps sts max) [(kSTART, x)] s [run_marker V p].
End ChainSpec.
