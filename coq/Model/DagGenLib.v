(* Model/DagGenLib.v — property C02: the vocabulary of the statement-by-statement translation of the
   all-predecessor bookkeeping of compose/graph_run.go (calculateBranch), compose/graph.go (getSuccessors,
   validateDAG, the predecessor tables of graph.compile) and compose/graph_manager.go (reportBranch)
   (tools/go2v, extractor "dagcode" -> Gen/DagCode.v).  What a Go map / slice operation means on the
   model's data.  Definitions only.

   Go                                   Gallina
   map[string]struct{}   (key set)      list key without duplicates, in insertion order (Go's iteration order
                                         is arbitrary: every theorem about a translated function that ranges
                                         over such a set is stated up to the order of the result)
     s[k] = struct{}{}                   ks_add k s          delete(s, k)  ks_del k s     _, ok := s[k]  ks_has k s
   map[string]int                        list (key * Z) sorted by key:  m[k] -> im_get k m (0 when absent),
                                         m[k] = v -> im_set k v m
   map[string][]string                   list (key * list key) sorted by key:  l, ok := m[k] -> km_get k m : option
   []T                                   list T:  append(l, x) -> l ++ [x],  append(l, xs...) -> l ++ xs,
                                         l[i] -> l_get d i l,  l[i] = x -> l_set i x l,
                                         for i, x := range l -> over l_enum l
   for init; cond; post { body }         loop_fuel fuel cond body s: the Go loop has no bound; the translation takes
                                         an explicit fuel and fails with eLoopFuel when it runs out (the agreement
                                         theorems say for which fuel that cannot happen)                           *)
From Eino Require Import Base.Util Model.Graph.
Open Scope N_scope.

Definition ks_empty : list key := [].
Definition ks_has (k : key) (s : list key) : bool := memb k s.
Definition ks_add (k : key) (s : list key) : list key := if memb k s then s else s ++ [k].
Definition ks_del (k : key) (s : list key) : list key := filter (fun x => negb (N.eqb x k)) s.

Definition im_get (k : key) (m : list (key * Z)) : Z := match alookup k m with Some v => v | None => 0%Z end.
Definition im_has (k : key) (m : list (key * Z)) : bool := match alookup k m with Some _ => true | None => false end.
Definition im_set (k : key) (v : Z) (m : list (key * Z)) : list (key * Z) := ainsert k v m.

Definition km_get (k : key) (m : list (key * list key)) : option (list key) := alookup k m.
Definition km_has (k : key) (m : list (key * list key)) : bool := match alookup k m with Some _ => true | None => false end.
Definition km_set (k : key) (l : list key) (m : list (key * list key)) : list (key * list key) := ainsert k l m.
(* len(m[k]) and ranging over m[k] for an absent key: the nil slice *)
Definition km_at (k : key) (m : list (key * list key)) : list key := match alookup k m with Some l => l | None => [] end.

Definition l_get {A} (d : A) (i : nat) (l : list A) : A := nth i l d.
Fixpoint l_set {A} (i : nat) (x : A) (l : list A) : list A :=
  match l, i with
  | [], _ => []
  | _ :: l', O => x :: l'
  | a :: l', S i' => a :: l_set i' x l'
  end.
Definition l_enum {A} (l : list A) : list (nat * A) := combine (seq 0 (List.length l)) l.

(* a range loop whose body can fail *)
Fixpoint fold_res {T A} (f : T -> A -> res T) (l : list A) (s : T) : res T :=
  match l with
  | [] => Ok s
  | a :: l' => do s' <- f s a; fold_res f l' s'
  end.

(* `for cond { body }` / `for init; cond; post { body }` *)
Fixpoint loop_fuel {T} (fuel : nat) (cond : T -> bool) (body : T -> res T) (s : T) : res T :=
  match fuel with
  | O => Err eLoopFuel
  | S f => if cond s then do s' <- body s; loop_fuel f cond body s' else Ok s
  end.

(* errors the translated functions construct themselves (by the text of the message) *)
Definition eUnreachableLen : N := 11.   (* calculateBranch: "calculate next input length is shorter than branches" *)
Definition eDagLoop        : N := 12.   (* validateDAG: "DAG invalid, node[..] has loop"                          *)

(* c.channels[t].reportSkip(ks) on the channel table of the channel manager (a missing channel is a nil
   interface in Go — the call would panic; compiled graphs never get there, the model leaves the table alone) *)
Definition chans_reportSkip {V} (cs : chans V) (t : key) (ks : list key) : chans V * bool :=
  match alookup t cs with
  | None => (cs, false)
  | Some c => let '(c', b) := dag_report_skip V c ks in (upd_chan V cs t (fun _ => c'), b)
  end.
