(* Model/AcctGenLib.v — property C19: what the Go operations used by compose/graph_run.go
   (copyItem, uniqueKeys, the loop body of runner.resolveCompletedTasks) and by
   compose/graph_manager.go (the inner loop of channelManager.updateValues) mean on the data of
   Model/StreamAcct.v.  tools/go2v (extractor "acctcode") translates those functions statement by
   statement into Gallina over this vocabulary (coq/Gen/AcctCode.v); Proofs/GenAgreeAcct.v proves
   the translation equal to the hand-written model.  Executable definitions only.

   Go integers are Z (a length is never negative, a difference of lengths may be); a slice
   expression or an index out of range is [Panic], as in Go (with cap = len: every slice the
   translated code re-slices upwards was made with exactly its length). *)
From Eino Require Import Base.Util Model.StreamAcct.
Open Scope Z_scope.

(* len(x) *)
Definition glen {A} (l : list A) : Z := Z.of_nat (List.length l).

(* x[a:] *)
Definition g_slice_from {A} (l : list A) (a : Z) : res (list A) :=
  if (a <? 0) || (glen l <? a) then Panic else Ok (skipn (Z.to_nat a) l).

(* x[:b] *)
Definition g_slice_to {A} (l : list A) (b : Z) : res (list A) :=
  if (b <? 0) || (glen l <? b) then Panic else Ok (firstn (Z.to_nat b) l).

(* x[i] *)
Definition g_index {A} (l : list A) (i : Z) : res A :=
  if i <? 0 then Panic
  else match nth_error l (Z.to_nat i) with Some x => Ok x | None => Panic end.

(* s.copy(n) of a stream for n >= 2 (streamReaderPacker.copy -> schema.StreamReader.Copy): n fresh
   readers, the original lives on in them *)
Definition g_stream_copy (h : handle) (n : Z) (s : store) : list handle * store :=
  let hs := fresh_handles (s_next s) (Z.to_nat n) in
  (hs, {| s_next := (s_next s + Z.to_N n)%N;
          s_open := remove_one h (s_open s) ++ hs;
          s_log := s_log s ++ [n];
          s_hist := HCopy h hs :: s_hist s |}).

(* r.calculateBranch(ctx, t.nodeKey, t.call, input, isStream, cm) — not translated: it fails when it
   is handed fewer inputs than there are branches, otherwise branch i consumes input[i] and the
   keys the conditions selected are returned (in branch order) *)
Definition g_calculate_branch (t : task) (input : list handle) : res (list key * list handle) :=
  if glen input <? glen (t_branches t) then Err 1%N
  else Ok (selected t, firstn (List.length (t_branches t)) input).

(* for i, next := range keys { writeChannelValues[next][t.nodeKey] = vs[i] } — the map of this
   task's node only: assignment overwrites, vs[i] out of range panics *)
Definition g_write_range (keys : list key) (vs : list handle) : res (list (key * handle)) :=
  assign_all keys vs [].

(* sets of keys: seen := make(map[string]struct{}) ; _, ok := seen[k] ; seen[k] = struct{}{} *)
Definition g_set_empty : list key := [].
Definition g_set_mem (k : key) (m : list key) : bool := memb k m.
Definition g_set_add (k : key) (m : list key) : list key := k :: m.

(* for _, x := range l { st = body st x } *)
Definition g_range {A S} (l : list A) (st : S) (body : S -> A -> S) : S := fold_left body l st.

(* ---- channelManager.updateValues, for one target: the values written to it in this step
   (fromMap: writer -> value) against dataPredecessors[target] *)
Record upd_acc := {
  ua_kept : list (key * handle);   (* nFromMap: handed on to toChannel.reportValues *)
  ua_closed : list handle;         (* sr.close() *)
}.
Definition ua_empty : upd_acc := {| ua_kept := []; ua_closed := [] |}.
(* nFromMap[from] = handle(value): a converter wraps the stream one-to-one (the same handle) *)
Definition ua_keep (from : key) (h : handle) (a : upd_acc) : upd_acc :=
  {| ua_kept := ua_kept a ++ [(from, h)]; ua_closed := ua_closed a |}.
Definition ua_close (h : handle) (a : upd_acc) : upd_acc :=
  {| ua_kept := ua_kept a; ua_closed := ua_closed a ++ [h] |}.

(* ---- internal/callbacks.OnWithStreamHandle *)
(* cpy(n) = StreamReader.Copy(n) (streamReader.copy for the graph-level sites): the stream itself for
   n < 2, otherwise n fresh readers *)
Definition g_cpy (h : handle) (n : Z) (s : store) : list handle * store := StreamAcct.copy_item h n s.

(* for i, handler := range handlers { ctx = handle(ctx, handler, inOuts[i]) }: the copies handed to the
   handlers, in order; inOuts[i] out of range panics *)
Fixpoint g_hand_range {A} (hs : list A) (xs : list handle) : res (list handle) :=
  match hs, xs with
  | [], _ => Ok []
  | _ :: hs', x :: xs' => do r <- g_hand_range hs' xs'; Ok (x :: r)
  | _ :: _, [] => Panic
  end.
