(* Model/CallbacksEager.v — schedules beyond the program tree: eager task collection (property C10).

   [graph_prog] (Model/CallbacksSched.v) is the run of a graph whose task manager collects ALL
   tasks of a step before the next step (Graph, Chain: taskManager.needAll).  A Workflow
   collects eagerly (compose/graph_manager.go wait -> waitOne, graph_run.go:285-300): the run
   returns as soon as ONE collected task has failed, the graph reports its error, and the other
   tasks of that step - goroutines that are not cancelled - finish on their own, a nested
   workflow among them going through all of its remaining steps; a task that was submitted but
   has not yet created its callback context does so after the graph's error has been reported.
   Such an execution performs the same operations as the canonical order, every unit in its own
   order, every context created before it is used - but it is not a schedule of the tree.

   [reorder c t]: t is obtained from c by exchanging, any number of times, two adjacent
   operations that are independent: they belong to different units and neither creates the
   context the other one reads.  [linearisation c t]: t is a permutation of c that keeps the
   order of every two operations that are not independent (per-unit order, creation before use).
   Every linearisation is a reordering (Proofs/CallbacksEager.v [linearisation_reorder]); that an
   eager execution is a linearisation of the canonical order is the assumption about the
   goroutine scheduler made for the eager mode.

   Definitions only. *)
From Coq Require Import List NArith Bool Permutation.
From Eino Require Import Base.Util Base.GoSlice Model.Callbacks Model.CallbacksSched.
Import ListNotations.

(* the unit whose context the operation creates *)
Definition op_creates (o : op) : option ukey :=
  match o with
  | ORaw n _ _ _ _ => Some n
  | OAppend _ n _ _ => Some n
  | OReuse _ n _ => Some n
  | OOn _ _ => None
  | OAlias _ n _ _ _ => Some n
  end.

(* the units whose context the operation reads *)
Definition op_reads (o : op) : list ukey :=
  match o with
  | ORaw _ _ _ _ _ => []
  | OAppend None _ _ _ => []
  | OAppend (Some p) _ _ _ => [p]
  | OReuse p _ _ => [p]
  | OOn u _ => [u]
  | OAlias src _ _ _ _ => [src]
  end.

Definition indep (x y : op) : Prop :=
  op_unit x <> op_unit y /\
  (forall u, op_creates x = Some u -> ~ In u (op_reads y)) /\
  (forall u, op_creates y = Some u -> ~ In u (op_reads x)).

Inductive reorder : list op -> list op -> Prop :=
| RO_refl : forall l, reorder l l
| RO_swap : forall l a x y b, reorder l (a ++ x :: y :: b) -> indep x y -> reorder l (a ++ y :: x :: b).

(* independence, decided *)
Definition indepb (x y : op) : bool :=
  negb (N.eqb (op_unit x) (op_unit y)) &&
  match op_creates x with Some u => negb (existsb (N.eqb u) (op_reads y)) | None => true end &&
  match op_creates y with Some u => negb (existsb (N.eqb u) (op_reads x)) | None => true end.

(* x occurs before y *)
Inductive before {A : Type} : list A -> A -> A -> Prop :=
| bf_here : forall l x y, In y l -> before (x :: l) x y
| bf_skip : forall a l x y, before l x y -> before (a :: l) x y.

(* t is a permutation of c in which every two operations that are not independent keep their order *)
Definition linearisation (c t : list op) : Prop :=
  Permutation c t /\ forall x y, before c x y -> indepb x y = false -> before t x y.

(* an eager execution of the F-C10 shape: the failing node's sibling creates its context and
   runs after the graph has reported the error.  Moves the k-th operation to the end when it
   is independent of everything behind it (used for examples) *)
Fixpoint move_last (k : nat) (l : list op) : list op :=
  match k, l with
  | O, x :: l' => l' ++ [x]
  | S k', x :: l' => x :: move_last k' l'
  | _, [] => []
  end.
