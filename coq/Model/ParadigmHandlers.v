(* Model/ParadigmHandlers.v — property C04: the handlers the graph engine keeps per edge / per
   node / per branch (compose/graph_manager.go: edgeHandlerManager, preNodeHandlerManager,
   preBranchHandlerManager; lists of handlerPair{invoke, transform}) as the model sees them.

   The handlers of the modelled graphs are the run-time type checks of any-typed edges
   ([PCheck]: defaultValueChecker / defaultStreamConverter) and the Workflow field mappings
   ([PMap]: fieldMap + converter / streamFieldMap + converter).  In a [prog] they are written
   in sequence after the stage they follow; [handlers_sprog] is that sequence for a handler
   list, [hp_of] the handlerPair a handler stands for.  Proofs/GenAgreeC04Handle.v proves that
   the engine's `handle` methods (translated from the source) applied to such a list compute
   what [run_value] / [run_stream] compute on the sequence.  Definitions only. *)
From Eino Require Import Base.Util Model.Paradigm Model.StreamOps Model.StreamGenLib
  Model.ParadigmProg Model.ParadigmSpec.

Inductive hspec : Type :=
| HMap (f : fmap)
| HCheck (want_map : bool).

Definition hp_of (h : hspec) : hpair :=
  match h with
  | HMap f => {| hp_invoke := v_fmap f; hp_transform := s_fmap f |}
  | HCheck m => {| hp_invoke := v_check m; hp_transform := s_check m |}
  end.

Definition sprog_of_h (h : hspec) : sprog :=
  match h with HMap f => SMap f | HCheck m => SCheck m end.

Fixpoint handlers_sprog (hs : list hspec) : sprog :=
  match hs with
  | [] => SId
  | h :: r => SSeq (sprog_of_h h) (handlers_sprog r)
  end.
