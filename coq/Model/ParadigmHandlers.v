(* Model/ParadigmHandlers.v — property C04: the handlers the graph engine keeps per edge / per
   node / per branch (compose/graph_manager.go: edgeHandlerManager, preNodeHandlerManager,
   preBranchHandlerManager; lists of handlerPair{invoke, transform}) as the model sees them.

   The handlers of the modelled graphs are the run-time type checks of any-typed edges
   ([PCheck]: defaultValueChecker / defaultStreamConverter) and the Workflow field mappings
   ([PMap]: fieldMap + converter / streamFieldMap + converter).  In a [prog] they are written
   in sequence after the stage they follow; [handlers_sprog] is that sequence for a handler
   list, [hp_of] the handlerPair a handler stands for.  Proofs/GenAgreeC04Handle.v proves that
   the engine's `handle` methods (translated from the source) applied to such a list compute
   what [run_value] / [run_stream] compute on the sequence.  Definitions only. *)
From Eino Require Import Base.Util Model.Paradigm Model.StreamOps Model.C04GenLib
  Model.ParadigmProg Model.ParadigmSpec.

Inductive hspec : Type :=
| HMap (f : fmap)
| HCheck (want_map : bool).

Definition hp_of (h : hspec) : hpair :=
  match h with
  | HMap f => {| hp_invoke := v_fmap f; hp_transform := s_fmap f |}
  | HCheck m => {| hp_invoke := v_check m; hp_transform := s_check m |}
  end.

Definition sprog_of_h (h : hspec) : sprog :=
  match h with HMap f => SMap f | HCheck m => SCheck m end.

Fixpoint handlers_sprog (hs : list hspec) : sprog :=
  match hs with
  | [] => SId
  | h :: r => SSeq (sprog_of_h h) (handlers_sprog r)
  end.

(* ---------------------------------------------------------------- mappings with nested paths *)
(* FromFieldPath / ToFieldPath / MapFieldPaths over maps (compose/field_mapping.go: fieldMap walks
   the source path with takeOne step by step, assignOne builds the target path) as the sequence of
   the one-step mappings they are made of: step into the source map field by field ([FTake a true]),
   put the value found under the innermost target field ([FTo [(last, y)]]), then that map under
   the next field outwards ([FTo [(None, x)]]), ...  The harness prints a path mapping as this
   sequence; every theorem about [prog]s covers it.  (Chunk-wise the implementation maps a chunk
   that lacks the source path to the empty map and the sequence to {x: {}}: the same up to
   concatenation, so the exact chunk lists of such graphs are not compared.) *)
Fixpoint seq_of (l : list sprog) : sprog :=
  match l with
  | [] => SId
  | [s] => s
  | s :: r => SSeq s (seq_of r)
  end.

Definition path_sprog (from to : list N) (take_map : bool) : sprog :=
  let steps_in := map (fun a => SMap (FTake a true)) (removelast from) in
  let lastf := last (map Some from) None in
  match rev to with
  | [] => seq_of (steps_in ++ match lastf with Some a => [SMap (FTake a take_map)] | None => [] end)
  | y :: outer =>
      seq_of (steps_in ++ SMap (FTo [(lastf, y)]) :: map (fun x => SMap (FTo [(None, x)])) outer)
  end.

(* a Stream-native map producer in two chunks under the output key 0 ({aa: {ac: …, ad: …}}),
   MapFieldPaths aa.ac -> af.ag, a Collect-native node that renders its input; next to it
   ToFieldPath ah.ai of a chunk-by-chunk string transformer; the two fan in *)
Definition paths_prog : sprog :=
  SSeq (SPar [SSeq (SNode (sw_outkey 0) 1 (spec_simple 2 "n1" 2 3 false true false false 1 false))
                   (path_sprog [0%N; 2%N] [5%N; 6%N] false);
              SSeq (SNode sw_none 2 (spec_simple 0 "n2" 0 0 false false false true 3 true))
                   (path_sprog [] [7%N; 8%N] false)])
       (SNode sw_none 3 (spec_simple 1 "n3" 0 0 false false true false 0 false)).
