(* Model/FieldMapOwn.v — target assignment with OWNERSHIP tags: which Go objects (pointer
   targets, maps) convertTo writes to.

   A pointer target or a map is a heap object; structs are inline in their container (a
   struct assigned to a field / map entry / interface is copied, the pointers and maps in
   it are shared).  Every object carries a tag: [true] = allocated by this convertTo call
   (newInstanceByType, instantiateIfNeeded, the map[string]any made for an `any` slot),
   [false] = it existed before (it is reachable from a predecessor's output or from a static
   value).  [oassign] is [assign] (Model/FieldMap.v) on tagged values and returns, in
   addition, whether it wrote to an object tagged [false]:
     SetMapIndex on a map, field.Set on the target of a pointer
   (writes to inline struct memory are writes to the enclosing object).  Definitions only. *)
From Eino Require Import Base.Util Base.FMUniverse Model.FieldMap.

Inductive oval : Type :=
| ONil
| OInt (z : Z)
| OStr (s : string)
| OStruct (n : N) (fs : list (N * oval))
| OPtr (own : bool) (t : ty) (o : option oval)
| OMap (own : bool) (ks : bool) (t : ty) (o : option (list (N * oval))).

Fixpoint erase (v : oval) : val :=
  match v with
  | ONil => VNil
  | OInt z => VInt z
  | OStr s => VStr s
  | OStruct n fs => VStruct n (map (fun kv => (fst kv, erase (snd kv))) fs)
  | OPtr _ t o => VPtr t (match o with Some w => Some (erase w) | None => None end)
  | OMap _ ks t o => VMap ks t (match o with Some es => Some (map (fun kv => (fst kv, erase (snd kv))) es) | None => None end)
  end.

(* every object of the value gets the tag [own] *)
Fixpoint tag (own : bool) (v : val) : oval :=
  match v with
  | VNil => ONil
  | VInt z => OInt z
  | VStr s => OStr s
  | VStruct n fs => OStruct n (map (fun kv => (fst kv, tag own (snd kv))) fs)
  | VPtr t o => OPtr own t (match o with Some w => Some (tag own w) | None => None end)
  | VMap ks t o => OMap own ks t (match o with Some es => Some (map (fun kv => (fst kv, tag own (snd kv))) es) | None => None end)
  end.

Definition oinstantiate (v : oval) : oval :=
  match v with
  | OPtr _ u None => OPtr true u (Some (tag true (zero u)))
  | OMap _ ks e None => OMap true ks e (Some [])
  | _ => v
  end.

Definition oany_enter (t : ty) (v : oval) : oval :=
  match t with
  | TAny => match v with
            | OMap _ true TAny _ => v
            | _ => OMap true true TAny (Some [])
            end
  | _ => v
  end.

(* (is a pointer, tag of the pointer's target, pointee type, the struct) *)
Definition ounwrap (v : oval) (last : bool) : option (bool * bool * ty * oval) :=
  match v with
  | OPtr own u (Some w) => Some (true, own, u, w)
  | OPtr _ u None => if last then Some (true, true, u, tag true (zero u)) else None
  | _ => Some (false, true, TInt, v)
  end.
Definition orewrap (isptr own : bool) (u : ty) (w : oval) : oval :=
  if isptr then OPtr own u (Some w) else w.

Definition oentry_of (e : ty) (o : option oval) : oval :=
  match o with Some w => w | None => tag true (new_instance e) end.
Definition ofield_of (ft : ty) (o : option oval) : oval :=
  match o with Some w => w | None => tag true (zero ft) end.

(* the stored value comes from a predecessor (or is a static value): tag [false] *)
Definition ostore_map (e : ty) (x : val) : option oval :=
  match dyn x with
  | None => if nilable e then Some (tag true (zero e)) else None
  | Some d => if assignable d e then Some (tag false x) else None
  end.
Definition ostore_field (ft : ty) (old : oval) (x : val) : option oval :=
  match dyn x with
  | None => if nilable ft then Some old else None
  | Some d => if assignable d ft then Some (tag false x) else None
  end.

Definition with_flag (fl : bool) (r : option (oval * bool)) (k : oval -> oval) : option (oval * bool) :=
  match r with Some (a, fl') => Some (k a, fl' || fl) | None => None end.
Definition noflag (r : option oval) : option (oval * bool) :=
  match r with Some a => Some (a, false) | None => None end.

Fixpoint oassign (env : senv) (t : ty) (v : oval) (p : path) (x : val) {struct p} : option (oval * bool) :=
  match p with
  | [] => None
  | f :: rest =>
      match oany_enter t v with
      | OMap own ks e o =>
          if negb ks then None else
          match o with
          | None => None
          | Some es =>
              with_flag (negb own)                              (* SetMapIndex on this map *)
                (match rest with
                 | [] => noflag (ostore_map e x)
                 | _ :: _ => oassign env e (oentry_of e (aget f es)) rest x
                 end)
                (fun a => OMap own ks e (Some (ains f a es)))
          end
      | v1 =>
          match ounwrap v1 (is_nil_path rest) with
          | Some (isptr, own, u, OStruct n fs) =>
              if isptr && is_any u then None else
              match lookup_field env n f with
              | Some (true, ft) =>
                  let old := ofield_of ft (aget f fs) in
                  with_flag (isptr && negb own)                 (* field.Set in the pointer's target *)
                    (match rest with
                     | [] => noflag (ostore_field ft old x)
                     | _ :: _ => oassign env ft (oinstantiate old) rest x
                     end)
                    (fun a => orewrap isptr own u (OStruct n (ains f a fs)))
              | _ => None
              end
          | _ => None
          end
      end
  end.

Definition oassign_one (env : senv) (T : ty) (dest : oval) (to : path) (x : val) : option (oval * bool) :=
  match to with
  | [] =>
      (* the whole input: the destination variable is overwritten, no object is written to *)
      match dyn x with
      | None => if nilable T then Some (tag true (zero T), false) else None
      | Some d => if assignable d T then Some (tag false x, false) else None
      end
  | _ => oassign env T dest to x
  end.

Fixpoint oassign_all (env : senv) (T : ty) (dest : oval) (m : fmap) : option (oval * bool) :=
  match m with
  | [] => Some (dest, false)
  | (to, x) :: m' =>
      match oassign_one env T dest to x with
      | Some (d', fl) =>
          match oassign_all env T d' m' with
          | Some (d'', fl') => Some (d'', fl || fl')
          | None => None
          end
      | None => None
      end
  end.

(* convertTo with the write report: (result, "an object that existed before was written to") *)
Definition convert_to_w (env : senv) (T : ty) (m : fmap) : res (oval * bool) :=
  match oassign_all env T (tag true (new_instance T)) m with
  | Some r => Ok r
  | None => Panic
  end.

(* ================================================================ whole runs with the write report *)

Definition convert_flag (env : senv) (T : ty) (m : fmap) : res (val * bool) :=
  res_map (fun r => (erase (fst r), snd r)) (convert_to_w env T m).

(* Invoke (no plain edge): (input of the successor, "convertTo wrote to an object that existed before") *)
Definition run_invoke_w (env : senv) (T : ty) (ds : list decl) (ss : statics) (ckss : list checks) (srcs : list val) : res (val * bool) :=
  do ms <- edges_out env ds ckss srcs;
  do m <- merge_maps (match ss with [] => ms | _ => ms ++ [ss] end) [];
  convert_flag env T m.

Fixpoint stream_chunks_w (env : senv) (T : ty) (ms : list mapping) (cks : checks) (chunks : list val) : res (list val * bool) :=
  match chunks with
  | [] => Ok ([], false)
  | c :: cs =>
      do m <- edge_out env ms cks true c;
      do vf <- convert_flag env T m;
      do r <- stream_chunks_w env T ms cks cs;
      Ok (fst vf :: fst r, snd vf || snd r)
  end.

Fixpoint run_stream_from_w (env : senv) (T : ty) (ds : list decl) (ckss : list checks) (srcs : list (list val)) : res (list val * bool) :=
  match ds, ckss, srcs with
  | d :: ds', c :: cs', s :: ss' =>
      do a <- stream_chunks_w env T (d_maps d) c s;
      do r <- run_stream_from_w env T ds' cs' ss';
      Ok (fst a ++ fst r, snd a || snd r)
  | _, _, _ => Ok ([], false)
  end.

Definition run_stream_w (env : senv) (T : ty) (ds : list decl) (ss : statics) (ckss : list checks) (srcs : list (list val)) : res (list val * bool) :=
  match ss with
  | [] => run_stream_from_w env T ds ckss srcs
  | _ =>
      do r <- run_stream_from_w env T ds ckss srcs;
      do vf <- convert_flag env T ss;
      Ok (fst r ++ [fst vf], snd r || snd vf)
  end.
