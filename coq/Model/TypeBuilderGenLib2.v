(* Model/TypeBuilderGenLib2.v — property C07: vocabulary added in round 6 for the regenerated
   translations Gen/CompileCode.v and Gen/NodeTypeCode.v (tools/go2v extractors "c07_compile",
   "c07_nodetype") after the repair 0136457 (F-C20h: a pass-through node with an input / output
   key whose type nothing has inferred yet).  Executable definitions only; a file of its own so
   that the other translations (and their agreement proofs) are not rebuilt. *)
From Coq Require Import List NArith Bool.
Import ListNotations.
From Eino Require Import Base.Util Model.Types Model.TypesGenLib Model.TypeBuilder Model.TypeBuilderGenLib.

(* h == nil for a *genericHelper *)
Definition gh_is_nil (h : helper) : bool := match h with None => true | Some _ => false end.

(* for key, node := range g.nodes { if C(key, node) { return nil, err } ... } : some node satisfies
   one of the tests (whichever error is returned, compile fails) *)
Definition x_any_node_k (p : key -> node -> bool) (xs : xstate) : bool :=
  existsb (fun kn => p (fst kn) (snd kn)) (g_nodes (x_st xs)).

(* node.cr.genericHelper for the node stored under [k] in g.nodes: the helper the builder keeps for
   that node.  g.nodes never holds a reserved key (addNode refuses START and END:
   Proofs/GenAgreeC07AddNode.v), so what is read under a reserved key is immaterial; it is given the
   value getNodeGenericHelper has there (the graph's own helper, never nil). *)
Definition x_node_cr_gh (xs : xstate) (k : key) : helper :=
  if N.eqb k kSTART then gh_for_pred (x_graph_gh xs)
  else if N.eqb k kEND then gh_for_succ (x_graph_gh xs)
  else x_node_gh xs k.
