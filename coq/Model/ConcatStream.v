(* Model/ConcatStream.v — the drain loop in front of every stream-level entry point
   (compose.concatStreamReader, schema.ConcatMessageStream): the reader delivers chunks
   until EOF; an item that is a read error ends the loop at once and the error is returned
   (concatStreamReader wraps it, ConcatMessageStream returns it as it is), whatever was
   read before and whatever would follow.  Definitions only. *)
From Eino Require Import Base.Util.

(* what one Recv() delivers before EOF: a chunk, or an error other than io.EOF *)
Inductive sitem (A : Type) : Type := SVal (a : A) | SErr.
Arguments SVal {A} a.
Arguments SErr {A}.

(* the chunks collected by the loop; [None] when some Recv() reported an error *)
Fixpoint drain {A} (l : list (sitem A)) : option (list A) :=
  match l with
  | [] => Some []
  | SErr :: _ => None
  | SVal a :: l' => match drain l' with Some r => Some (a :: r) | None => None end
  end.

(* all chunks among the items *)
Definition svals {A} (l : list (sitem A)) : list A :=
  flat_map (fun i => match i with SVal a => [a] | SErr => [] end) l.

Definition E_READ : N := 8%N.       (* a Recv() error *)

(* a stream-level entry point [F] (concat_stream, concat_stream_any, msg_stream,
   msglist_stream, mmap_stream ...) applied to what the reader delivers *)
Definition stream_entry {A} (F : list A -> res A) (l : list (sitem A)) : res A :=
  match drain l with
  | None => Err E_READ
  | Some vs => F vs
  end.
