(* Model/Confluence.v — property C03, the order side: what the run loop of compose/graph_run.go
   does with the completed tasks that taskManager.wait hands back in an arbitrary order.

   resolveCompletedTasks builds writeChannelValues[target][source] and newDependencies[target]
   (map writes at distinct (target, source) keys), updateValues / updateDependencies store them in
   the channels, getFromReadyChannels asks every channel whether it is ready (pregel: some value
   present; dag: every control predecessor reported and every data predecessor delivered) and
   a ready channel hands out the merge of its values and is cleared.  Batch mode (Graph) feeds the
   whole completed list of a step at once, eager mode (Workflow) feeds one completed task at a time.

   Values are the harness's uninterpreted terms, serialised: a node with key token [n] returns
   {n: input}, a fan-in merges key-disjoint maps; the serialisation of a map is the
   concatenation, in key-token order, of [k; 0] ++ ser v ++ [1].  So a value records the complete
   data-flow history that produced it.

   Branches, interrupts, state handlers and streams are not part of this model (other properties).
   Definitions only; proofs in Proofs/Confluence.v. *)
From Eino Require Import Base.Util.

Notation val := (list N) (only parsing).
Notation nid := N (only parsing).
Definition START : nid := 0%N.
Definition END : nid := 1%N.
Definition tok_in : N := 2%N.                     (* key "in" of the graph input {"in": {}} *)
Definition input_val : val := [tok_in; 0%N; 1%N].

(* a node: identifier (>= 3, also its key token), predecessors in increasing order (START = 0
   may be among them), behaviour 0 = ok, 1 = returns an error, 2 = panics, 3 = its state
   post-handler fails, 4 = its state pre-handler fails *)
Record node := mkn { n_id : nid; n_preds : list nid; n_fail : N }.
Definition graph := list node.                    (* END is the node with n_id = 1 *)

Inductive mode := Pregel | Dag.

Notation key2 := (N * N)%type (only parsing).     (* (target, source) *)
Definition k2eqb (a b : key2) : bool := N.eqb (fst a) (fst b) && N.eqb (snd a) (snd b).

Record cstate := mkc { vals : list (key2 * val); deps : list key2 }.
Definition cinit : cstate := mkc [] [].

Fixpoint vfind (k : key2) (m : list (key2 * val)) : option val :=
  match m with
  | [] => None
  | (k', v) :: m' => if k2eqb k k' then Some v else vfind k m'
  end.
Definition dmem (k : key2) (d : list key2) : bool := existsb (k2eqb k) d.

Definition nmem (x : nid) (xs : list nid) : bool := existsb (N.eqb x) xs.
Definition succs (g : graph) (t : nid) : list nid :=
  map n_id (filter (fun n => nmem t (n_preds n)) g).

(* one completed task (source, output): the writes of resolveCompletedTasks + updateValues +
   updateDependencies for it *)
Definition report (g : graph) (s : cstate) (c : nid * val) : cstate :=
  mkc (map (fun d => ((d, fst c), snd c)) (succs g (fst c)) ++ vals s)
      (map (fun d => (d, fst c)) (succs g (fst c)) ++ deps s).

Definition report_all (g : graph) (s : cstate) (cs : list (nid * val)) : cstate :=
  fold_left (report g) cs s.

Definition has_val (s : cstate) (n p : nid) : bool :=
  match vfind (n, p) (vals s) with Some _ => true | None => false end.

Definition ready (m : mode) (s : cstate) (n : node) : bool :=
  match m with
  | Pregel => existsb (has_val s (n_id n)) (n_preds n)
  | Dag => match n_preds n with [] => false | _ => true end &&
           forallb (fun p => dmem (n_id n, p) (deps s) && has_val s (n_id n) p) (n_preds n)
  end.

(* merge of the delivered values, in predecessor (= key token) order *)
Definition get_input (s : cstate) (n : node) : val :=
  flat_map (fun p => match vfind (n_id n, p) (vals s) with Some v => v | None => [] end) (n_preds n).

Definition clear (s : cstate) (n : nid) : cstate :=
  mkc (filter (fun kv => negb (N.eqb (fst (fst kv)) n)) (vals s))
      (filter (fun k => negb (N.eqb (fst k) n)) (deps s)).

Definition node_out (n : nid) (input : val) : val := [n; 0%N] ++ input ++ [1%N].

(* getFromReadyChannels: every ready node, in graph order, with its input; all of them cleared *)
Definition take_ready (m : mode) (g : graph) (s : cstate) : list (node * val) * cstate :=
  let rs := filter (ready m s) g in
  (map (fun n => (n, get_input s n)) rs, fold_left clear (map n_id rs) s).

Inductive outcome := ODone (v : val) | OFail | OFuel.
Definition exec_log := list (nid * val).

Definition is_end (nv : node * val) : bool := N.eqb (n_id (fst nv)) END.
Definition failed (nv : node * val) : bool := negb (N.eqb (n_fail (fst nv)) 0).
(* behaviour 4: the state pre-handler of the node fails.  taskManager.submit runs the pre-processors
   of all new tasks before it starts any of them and returns at the first one that fails
   (graph_manager.go:306-317; since fix 559768a the error is that node's error): the run fails,
   none of the new tasks is started, the tasks already in flight (eager mode) stay in flight *)
Definition prefail (nv : node * val) : bool := N.eqb (n_fail (fst nv)) 4.

(* calculateNextTasks on a completed list *)
Inductive next := NReturn (v : val) | NTasks (ts : list (node * val)) (s : cstate).
Definition calc_next (m : mode) (g : graph) (s : cstate) (completed : list (nid * val)) : next :=
  let s1 := report_all g s completed in
  let '(rs, s2) := take_ready m g s1 in
  match find is_end rs with
  | Some (_, v) => NReturn v
  | None => NTasks rs s2
  end.

Definition run_task (t : node * val) : nid * val := (n_id (fst t), node_out (n_id (fst t)) (snd t)).
Definition log_of (ts : list (node * val)) : exec_log := map (fun t => (n_id (fst t), snd t)) ts.

(* batch mode: submit all, wait for all (in the order [ord] chooses), resolve.  [ord] stands
   for the completion order of the step. *)
Fixpoint run_batch (ord : list (nid * val) -> list (nid * val)) (m : mode) (g : graph) (fuel : nat)
         (s : cstate) (tasks : list (node * val)) (log : exec_log) : outcome * exec_log :=
  match fuel with
  | O => (OFuel, log)
  | S f =>
      if existsb prefail tasks then (OFail, log) else   (* submit fails: nothing of the step is started *)
      let log' := log ++ log_of tasks in
      if existsb failed tasks then (OFail, log') else
      match tasks with
      | [] => (OFail, log')                       (* "no tasks to execute" *)
      | _ =>
        match calc_next m g s (ord (map run_task tasks)) with
        | NReturn v => (ODone v, log')
        | NTasks ts s' => run_batch ord m g f s' ts log'
        end
      end
  end.

Definition start_next (m : mode) (g : graph) : next := calc_next m g cinit [(START, input_val)].

Definition batch (ord : list (nid * val) -> list (nid * val)) (m : mode) (g : graph) (fuel : nat)
  : outcome * exec_log :=
  match start_next m g with
  | NReturn v => (ODone v, [])
  | NTasks ts s => run_batch ord m g fuel s ts []
  end.

(* eager mode (Workflow, always Dag channels): [pick] chooses which running task completes next *)
Fixpoint remove_nth {A} (i : nat) (xs : list A) : list A :=
  match xs, i with
  | [], _ => []
  | _ :: xs', O => xs'
  | x :: xs', S j => x :: remove_nth j xs'
  end.

Definition ids_of (ts : list (node * val)) : list nid := map (fun t => n_id (fst t)) ts.

(* result, executions started, and the nodes that are still running when the run returns.
   [pick] is any function of the running list; its value is reduced modulo the number of
   running tasks, so every function is a schedule (x mod 0 = x, and nothing is found in []). *)
Fixpoint run_eager (pick : list (node * val) -> nat) (g : graph) (fuel : nat)
         (s : cstate) (running : list (node * val)) (log : exec_log) : outcome * exec_log * list nid :=
  match fuel with
  | O => (OFuel, log, ids_of running)
  | S f =>
      let i := Nat.modulo (pick running) (List.length running) in
      match nth_error running i with
      | None => (OFail, log, [])                  (* nothing is running: "no tasks to execute" *)
      | Some t =>
          if failed t then (OFail, log, ids_of (remove_nth i running)) else
          match calc_next Dag g s [run_task t] with
          | NReturn v => (ODone v, log, ids_of (remove_nth i running))
          | NTasks ts s' =>
              if existsb prefail ts then (OFail, log, ids_of (remove_nth i running))
              else run_eager pick g f s' (remove_nth i running ++ ts) (log ++ log_of ts)
          end
      end
  end.

Definition eager (pick : list (node * val) -> nat) (g : graph) (fuel : nat) : outcome * exec_log * list nid :=
  match start_next Dag g with
  | NReturn v => (ODone v, [], [])
  | NTasks ts s => if existsb prefail ts then (OFail, [], []) else run_eager pick g fuel s ts (log_of ts)
  end.

(* two particular schedules: the oldest running task first; the oldest running task that does
   not fail first (a failing one only when nothing else is running) *)
Definition pick_first (ts : list (node * val)) : nat := O.
Fixpoint pick_ok (ts : list (node * val)) : nat :=
  match ts with
  | [] => O
  | t :: ts' => if failed t then S (pick_ok ts') else O
  end.

(* the schedule recorded by a run: [seq] lists the nodes in the order in which they were collected;
   the running task that comes first in [seq] completes next (a task that is not in [seq] was
   never collected: it comes last) *)
Fixpoint pos_in (x : nid) (seq : list nid) : nat :=
  match seq with
  | [] => O
  | y :: seq' => if N.eqb x y then O else S (pos_in x seq')
  end.
Fixpoint best_pos (seq : list nid) (ts : list (node * val)) : nat * nat :=   (* (index, position) *)
  match ts with
  | [] => (O, S (List.length seq))
  | t :: ts' =>
      let p := pos_in (n_id (fst t)) seq in
      let '(i, q) := best_pos seq ts' in
      if Nat.leb p q then (O, p) else (S i, q)
  end.
Definition pick_seq (seq : list nid) (ts : list (node * val)) : nat := fst (best_pos seq ts).

(* nodes from which END is reachable (the executions that feed the result) *)
Fixpoint anc_iter (g : graph) (fuel : nat) (acc : list nid) : list nid :=
  match fuel with
  | O => acc
  | S f =>
      let more := flat_map (fun n => if nmem (n_id n) acc then n_preds n else []) g in
      anc_iter g f (fold_left (fun a x => if nmem x a then a else x :: a) more acc)
  end.
Definition ancestors (g : graph) : list nid := anc_iter g (List.length g) [END].

(* the executions of a log that feed END *)
Definition feeding (g : graph) (l : exec_log) : exec_log :=
  let a := ancestors g in filter (fun x => nmem (fst x) a) l.
