(* Model/StateLock.v — C11: graph state is per run and accessed under mutual exclusion.

   Anchors: compose/state.go (internalState = state + mutex; convertPreHandler /
   convertPostHandler / ProcessState lock, run the user function, unlock),
   compose/graph.go:790 (runCtx: a graph that declares state calls its generator once
   per run and puts the fresh object in the context; a graph without state leaves the
   context alone, so its nodes see the state of the nearest enclosing stateful graph),
   compose/graph_manager.go (submit: the pre-handlers of all tasks of a batch run one
   after the other on the run-loop goroutine before any node is spawned and their
   result becomes the task's input; waitOne: the post-handler runs on the run-loop
   goroutine when the task is collected, collection is in completion order, and its
   result becomes the task's output), compose/graph_run.go (checkpoint carries
   cp.State; resume wraps the restored value in a new internalState after the
   caller's StateModifier ran on it).

   Part 1  programs (forests of layered graphs), values, the concrete state and the
           concrete handler functions used by the harness.
   Part 2  the specification layer: replay of an acquisition-ordered log of critical
           sections ("spec_run"), used by Corr/C11.v on the observed log.
   Part 3  the labelled transition system (one lock per state object, critical
           sections in four micro-steps, run-loop vs node goroutine), generic in the
           state type, the value type and the handler functions.
   Definitions only. *)
From Eino Require Import Base.Util.
Open Scope N_scope.

(* ------------------------------------------------------------------ Part 1: programs *)

Inductive mode := MPregel | MDag | MEager.

(* A node of a graph. [n_id] is unique in the whole forest. [n_sub = Some g]: the node is
   the nested graph number g of the forest (g is used by exactly this node), otherwise a
   lambda that calls compose.ProcessState [n_ps] times. [n_preds = []]: fed by START,
   otherwise by exactly these nodes of the same graph (all in the previous layer). *)
Record node := mkNodeZ {
  n_id : N; n_pre : bool; n_post : bool; n_sub : option nat; n_ps : nat; n_preds : list N;
  n_zero : bool }.
(* [n_zero]: the node is the re-execution of a node that interrupted itself (compose.InterruptAndRerun):
   it starts when its predecessors are final, like every node, but its input is the zero value of the
   input type (the empty merge), not what the predecessors deliver (graph_run.go
   handleInterruptWithSubGraphAndRerunNodes: cp.Inputs[rerun node] = inputZeroValue). The interrupted
   first execution is a node of its own (the pre-handler and the ProcessState calls it performed, no
   post-handler) whose only successor is the re-execution: its output is never used. *)
Definition mkNode (id : N) (pre post : bool) (sub : option nat) (ps : nat) (preds : list N) : node :=
  mkNodeZ id pre post sub ps preds false.

Record graph := mkGraph { g_mode : mode; g_state : bool; g_nodes : list node }.
Definition forest := list graph.     (* graph 0 is the top-level graph *)

Inductive kind := KPre | KPost | KBody (j : nat).
Definition kind_eqb (a b : kind) : bool :=
  match a, b with
  | KPre, KPre => true | KPost, KPost => true
  | KBody i, KBody j => Nat.eqb i j | _, _ => false
  end.
Definition kcode (k : kind) : N :=
  match k with KPre => 0 | KPost => 1 | KBody j => 2 + N.of_nat j end.
Definition code (n : N) (k : kind) : N := n * 16 + kcode k.

Fixpoint find_in_graph (n : N) (ns : list node) : option node :=
  match ns with
  | [] => None
  | a :: ns' => if N.eqb (n_id a) n then Some a else find_in_graph n ns'
  end.

(* (graph index, node) of node id n *)
Fixpoint find_node_from (gi : nat) (f : forest) (n : N) : option (nat * node) :=
  match f with
  | [] => None
  | g :: f' => match find_in_graph n (g_nodes g) with
               | Some a => Some (gi, a)
               | None => find_node_from (S gi) f' n
               end
  end.
Definition find_node (f : forest) (n : N) : option (nat * node) := find_node_from 0 f n.

(* the node whose nested graph is g *)
Fixpoint parent_in (g : nat) (ns : list node) : option node :=
  match ns with
  | [] => None
  | a :: ns' => match n_sub a with
                | Some g' => if Nat.eqb g g' then Some a else parent_in g ns'
                | None => parent_in g ns'
                end
  end.
Fixpoint parent_from (gi : nat) (f : forest) (g : nat) : option (nat * node) :=
  match f with
  | [] => None
  | gr :: f' => match parent_in g (g_nodes gr) with
                | Some a => Some (gi, a)
                | None => parent_from (S gi) f' g
                end
  end.
Definition parent_of (f : forest) (g : nat) : option (nat * node) := parent_from 0 f g.

(* The graph whose state object the nodes of graph g see in their context: g itself if it
   declares state, otherwise what its parent sees (context inheritance); None = no state
   anywhere above ("have not set state"). *)
Fixpoint owner (fuel : nat) (f : forest) (g : nat) : option nat :=
  match fuel with
  | O => None
  | S fu =>
    match nth_error f g with
    | None => None
    | Some gr => if g_state gr then Some g
                 else match parent_of f g with
                      | Some (pg, _) => owner fu f pg
                      | None => None
                      end
    end
  end.

Definition is_pred_of (n : N) (a : node) : bool := existsb (N.eqb n) (n_preds a).
(* nodes of the graph that feed END: nobody's predecessor *)
Definition sinks (g : graph) : list node :=
  filter (fun a => negb (existsb (is_pred_of (n_id a)) (g_nodes g))) (g_nodes g).

(* well-formedness of a program: in every graph the node ids are pairwise different and every
   node is listed after its predecessors (layered / acyclic graphs) *)
Fixpoint preds_earlier (seen : list N) (ns : list node) : bool :=
  match ns with
  | [] => true
  | a :: ns' => forallb (fun p => existsb (N.eqb p) seen) (n_preds a) && preds_earlier (n_id a :: seen) ns'
  end.
Fixpoint ids_unique (ns : list node) : bool :=
  match ns with
  | [] => true
  | a :: ns' => negb (existsb (fun b => N.eqb (n_id a) (n_id b)) ns') && ids_unique ns'
  end.
Definition topo_ok (f : forest) : bool :=
  forallb (fun g => preds_earlier [] (g_nodes g) && ids_unique (g_nodes g)) f.

(* ------------------------------------------------------------------ values and state *)

Definition X := list (N * Z).      (* map[string]any{"k<N>": int64}, sorted by key *)

Definition kv_lt (a b : N * Z) : bool := N.ltb (fst a) (fst b).
Definition merge (xs : list X) : X := sort_by kv_lt (List.concat xs).

Record sstate := mkS { s_total : Z; s_cnt : list (N * Z); s_log : list N }.

Definition gen_state (g : nat) : sstate := mkS (Z.of_nat g * 1000) [] [].

Definition cnt_incr (cd : N) (l : list (N * Z)) : list (N * Z) :=
  match nlist_get cd l with
  | Some z => nlist_insert_sorted cd (z + 1)%Z l
  | None => nlist_insert_sorted cd 1%Z l
  end.

Definition PRIME : Z := 1000003.
Definition mixv (v : Z) (cd : N) (c : Z) : Z := ((v * 31 + Z.of_N cd * 7 + c * 13 + 1) mod PRIME)%Z.

(* what every critical section of the harness does: the value flowing through is mixed
   with the label and with the number of critical sections the state has seen so far; the
   state counts and logs the label. *)
(* one pre-handler in seven returns the EMPTY value (the nil map, the zero value of the node's value type):
   what a handler returns is what the node / its successors receive also when it is the zero value.  A
   post-handler does so (one in five) only for node ids of the upper half of a block of 1000: the generator
   gives such ids to some graphs that are not Workflows - the Workflow graphs of the harness map the output
   keys of every node by name, an empty output is a legitimate mapping failure there.  Not the ProcessState
   callbacks: their values never pass through eino. *)
Definition cs_empty (k : kind) (n : N) (c : Z) : bool :=
  match k with
  | KPre => Z.eqb ((Z.of_N n * 5 + c * 3) mod 7) 0
  | KPost => N.leb 500 (n mod 1000) && Z.eqb ((Z.of_N n * 3 + c) mod 5) 0
  | KBody _ => false
  end.

Definition cs_fun (k : kind) (n : N) (x : X) (s : sstate) : X * sstate :=
  let cd := code n k in
  let c := s_total s in
  ((if cs_empty k n c then [] else map (fun kv => (fst kv, mixv (snd kv) cd c)) x),
   mkS (c + 1)%Z (cnt_incr cd (s_cnt s)) (s_log s ++ [cd])).

Definition leaf_out (n : N) (x : X) : X :=
  [(n, ((fold_left (fun a kv => (a + (Z.of_N (fst kv) + 1) * snd kv)%Z) x 0%Z + Z.of_N n) mod PRIME)%Z)].

(* caller-supplied state modifier used at resume *)
Definition modifier (s : sstate) : sstate := mkS (s_total s + 100000)%Z (s_cnt s) (s_log s).

(* ------------------------------------------------------------------ Part 2: specification replay *)

(* One observed critical section: run, node, kind; [e_obj] is the identity of the state
   object the implementation handed to the callback (index of the pointer in order of
   first appearance); x_in / x_out are the values that went in and came out. *)
Record event := mkEv { e_run : N; e_node : N; e_kind : kind; e_obj : N; e_in : X; e_out : X; e_seen : Z }.

(* an item of the global, acquisition-ordered log *)
Inductive item :=
| IEv (e : event)
| IResume (r : N) (mods : list nat) (snaps : list (nat * sstate)).
   (* run r was interrupted and is resumed: the state modifier was applied to the state of
      the graphs in [mods]; [snaps] = observed value, at the interrupt, of the state
      objects of run r that the checkpoint carries (keyed by owning graph) *)

Section Spec.
  Variable f : forest.
  Variable x0 : X.            (* input of every run *)

  (* table of the value returned by each critical section seen so far, keyed by (run, code) *)
  Definition tab := list (N * N * X).
  Fixpoint tab_get (r cd : N) (t : tab) : option X :=
    match t with
    | [] => None
    | (r', cd', x) :: t' => if N.eqb r r' && N.eqb cd cd' then Some x else tab_get r cd t'
    end.

  Inductive query := QIn (n : N) | QBodyIn (n : N) | QBodyOut (n : N) | QFinal (n : N).

  Fixpoint opt_mapM {A B} (g : A -> option B) (l : list A) : option (list B) :=
    match l with
    | [] => Some []
    | a :: l' => match g a with
                 | Some b => match opt_mapM g l' with Some bs => Some (b :: bs) | None => None end
                 | None => None
                 end
    end.

  (* data flow, evaluated on demand from the table: None = a value that is needed has not
     been produced yet (the log is not admissible) or fuel ran out *)
  Fixpoint eval (fuel : nat) (r : N) (t : tab) (q : query) : option X :=
    match fuel with
    | O => None
    | S fu =>
      match q with
      | QIn n =>
          match find_node f n with
          | None => None
          | Some (gi, a) =>
            match n_preds a with
            | [] => match gi with
                    | O => Some x0
                    | _ => match parent_of f gi with
                           | Some (_, p) => eval fu r t (QBodyIn (n_id p))
                           | None => None
                           end
                    end
            | ps => match opt_mapM (fun p => eval fu r t (QFinal p)) ps with
                    | Some xs => Some (if n_zero a then merge [] else merge xs)
                    | None => None
                    end
            end
          end
      | QBodyIn n =>
          match find_node f n with
          | None => None
          | Some (_, a) => if n_pre a then tab_get r (code n KPre) t else eval fu r t (QIn n)
          end
      | QBodyOut n =>
          match find_node f n with
          | None => None
          | Some (_, a) =>
            match n_sub a with
            | Some g =>
                match nth_error f g with
                | None => None
                | Some gr => match opt_mapM (fun s => eval fu r t (QFinal (n_id s))) (sinks gr) with
                             | Some xs => Some (merge xs)
                             | None => None
                             end
                end
            | None =>
                match n_ps a with
                | O => match eval fu r t (QBodyIn n) with Some x => Some (leaf_out n x) | None => None end
                | S j => match tab_get r (code n (KBody j)) t with Some x => Some (leaf_out n x) | None => None end
                end
            end
          end
      | QFinal n =>
          match find_node f n with
          | None => None
          | Some (_, a) => if n_post a then tab_get r (code n KPost) t else eval fu r t (QBodyOut n)
          end
      end
    end.

  Definition fuel_of : nat := 4 * (List.length (List.concat (map g_nodes f))) + 8.

  (* value a critical section must receive *)
  Definition expected_in (r : N) (t : tab) (n : N) (k : kind) : option X :=
    match k with
    | KPre => eval fuel_of r t (QIn n)
    | KBody O => eval fuel_of r t (QBodyIn n)
    | KBody (S j) => tab_get r (code n (KBody j)) t
    | KPost => eval fuel_of r t (QBodyOut n)
    end.

  (* does the program have this critical section at all *)
  Definition has_cs (a : node) (k : kind) : bool :=
    match k with
    | KPre => n_pre a
    | KPost => n_post a
    | KBody j => match n_sub a with Some _ => false | None => Nat.ltb j (n_ps a) end
    end.

  (* state objects of the specification: keyed by (run, owning graph) *)
  Definition objs := list (N * nat * sstate).
  Fixpoint obj_get (r : N) (g : nat) (o : objs) : option sstate :=
    match o with
    | [] => None
    | (r', g', s) :: o' => if N.eqb r r' && Nat.eqb g g' then Some s else obj_get r g o'
    end.
  Fixpoint obj_set (r : N) (g : nat) (s : sstate) (o : objs) : objs :=
    match o with
    | [] => [(r, g, s)]
    | (r', g', s') :: o' => if N.eqb r r' && Nat.eqb g g' then (r, g, s) :: o' else (r', g', s') :: obj_set r g s o'
    end.

  Record spec_state := mkSp { sp_tab : tab; sp_objs : objs }.

  Inductive verdict := VOk (st : spec_state) | VBad (why : N).
  (* why: 1 unknown node / no such critical section, 2 duplicate, 3 needed value missing
     (order violated), 4 no state visible, 5 x_in differs, 6 x_out differs, 7 seen differs,
     8 snapshot differs, 9 modifier on a graph without live state *)

  Definition x_eqb (a b : X) : bool :=
    (fix go (a b : X) : bool :=
       match a, b with
       | [], [] => true
       | (k, v) :: a', (k', v') :: b' => N.eqb k k' && Z.eqb v v' && go a' b'
       | _, _ => false
       end) a b.

  Definition spec_event (st : spec_state) (e : event) : verdict :=
    let r := e_run e in let n := e_node e in let k := e_kind e in
    match find_node f n with
    | None => VBad 1
    | Some (gi, a) =>
      if negb (has_cs a k) then VBad 1 else
      match tab_get r (code n k) (sp_tab st) with
      | Some _ => VBad 2
      | None =>
        match expected_in r (sp_tab st) n k with
        | None => VBad 3
        | Some xin =>
          match owner (S (List.length f)) f gi with
          | None => VBad 4
          | Some og =>
            let s := match obj_get r og (sp_objs st) with Some s => s | None => gen_state og end in
            let '(xout, s') := cs_fun k n xin s in
            if negb (x_eqb xin (e_in e)) then VBad 5
            else if negb (x_eqb xout (e_out e)) then VBad 6
            else if negb (Z.eqb (s_total s) (e_seen e)) then VBad 7
            else VOk (mkSp ((r, code n k, xout) :: sp_tab st) (obj_set r og s' (sp_objs st)))
          end
        end
      end
    end.

  Fixpoint l_eqb {A} (eqb : A -> A -> bool) (a b : list A) : bool :=
    match a, b with
    | [], [] => true
    | x :: a', y :: b' => eqb x y && l_eqb eqb a' b'
    | _, _ => false
    end.
  Definition s_eqb (a b : sstate) : bool :=
    Z.eqb (s_total a) (s_total b)
    && l_eqb (fun p q => N.eqb (fst p) (fst q) && Z.eqb (snd p) (snd q)) (s_cnt a) (s_cnt b)
    && l_eqb N.eqb (s_log a) (s_log b).

  Definition obj_cur (r : N) (g : nat) (o : objs) : sstate :=
    match obj_get r g o with Some s => s | None => gen_state g end.

  Definition declares_state (g : nat) : bool :=
    match nth_error f g with Some gr => g_state gr | None => false end.

  Definition spec_resume (st : spec_state) (r : N) (mods : list nat) (snaps : list (nat * sstate)) : verdict :=
    (* the state at the interrupt is what the fold produced so far (a graph whose state has
       not been touched yet still has the generated value) *)
    if negb (forallb (fun gs => declares_state (fst gs) && s_eqb (obj_cur r (fst gs) (sp_objs st)) (snd gs)) snaps)
    then VBad 8
    else if negb (forallb declares_state mods) then VBad 9
    else VOk (mkSp (sp_tab st)
               (fold_left (fun o g => obj_set r g (modifier (obj_cur r g o)) o) mods (sp_objs st))).

  Fixpoint spec_run (st : spec_state) (l : list item) : verdict :=
    match l with
    | [] => VOk st
    | IEv e :: l' => match spec_event st e with VOk st' => spec_run st' l' | bad => bad end
    | IResume r mods snaps :: l' =>
        match spec_resume st r mods snaps with VOk st' => spec_run st' l' | bad => bad end
    end.

  (* result of run r once everything has been logged *)
  Definition spec_result (st : spec_state) (r : N) : option X :=
    match nth_error f 0 with
    | None => None
    | Some gr => match opt_mapM (fun s => eval fuel_of r (sp_tab st) (QFinal (n_id s))) (sinks gr) with
                 | Some xs => Some (merge xs)
                 | None => None
                 end
    end.

  (* number of critical sections one complete run performs *)
  Definition cs_count_node (a : node) : nat :=
    (if n_pre a then 1 else 0) + (if n_post a then 1 else 0)
    + (match n_sub a with Some _ => 0 | None => n_ps a end).
  Definition cs_count : nat :=
    fold_left (fun acc a => acc + cs_count_node a)%nat (List.concat (map g_nodes f)) 0%nat.
End Spec.

(* order constraints of the property as a predicate on a log of labels (run, node, kind):
   no label twice; a body section only after the node's pre-handler (if it has one) and
   after the previous body section; the post-handler only after the pre-handler and all
   body sections. This is the predicate proved of every trace of the transition system
   (Proofs/StateLock*.v) and evaluated on the observed log (Corr/C11.v). *)
Definition lbl := (N * N * kind)%type.
Definition lbl_eqb (a b : lbl) : bool :=
  N.eqb (fst (fst a)) (fst (fst b)) && N.eqb (snd (fst a)) (snd (fst b)) && kind_eqb (snd a) (snd b).
Definition lmem (l : lbl) (s : list lbl) : bool := existsb (lbl_eqb l) s.

Definition prereqs (f : forest) (l : lbl) : list lbl :=
  let '(r, n, k) := l in
  match find_node f n with
  | None => []
  | Some (_, a) =>
    let pre := if n_pre a then [(r, n, KPre)] else [] in
    match k with
    | KPre => []
    | KBody O => pre
    | KBody (S j) => [(r, n, KBody j)]
    | KPost => pre ++ (match n_sub a with
                       | Some _ => []
                       | None => map (fun j => (r, n, KBody j)) (seq 0 (n_ps a))
                       end)
    end
  end.

(* [seen] = labels logged so far, newest first *)
Fixpoint order_ok_from (f : forest) (seen : list lbl) (tr : list lbl) : bool :=
  match tr with
  | [] => true
  | l :: tr' => negb (lmem l seen) && forallb (fun p => lmem p seen) (prereqs f l)
                && order_ok_from f (l :: seen) tr'
  end.
Definition order_ok (f : forest) (tr : list lbl) : bool := order_ok_from f [] tr.
