(* Model/ParadigmTable.v — property C04: newRunnablePacker as two tables that tools/go2v
   regenerates from compose/runnable.go on every run (Gen/ParadigmTable.v), and an interpreter
   of the adapter programs, so that Proofs/GenAgreeParadigm.v can prove that the four views of
   Model/Paradigm.v ([view_I] … [view_T]) are exactly "find the first native in the order of
   the table and run the adapter program the source has for (view, native)".

   [aop]: the steps an adapter xByY takes around the call of the native implementation:
     ABoxIn      schema.StreamReaderFromArray([]I{input})
     AConcatIn   defaultImplConcatStreamReader(input, …)
     ACall       the native function
     AConcatOut  defaultImplConcatStreamReader(output stream, …)
     ABoxOut     schema.StreamReaderFromArray([]O{out})
   Definitions only. *)
From Eino Require Import Base.Util Model.Paradigm.

Inductive aop : Type := ABoxIn | AConcatIn | ACall | AConcatOut | ABoxOut.

Definition order_table : list (par * list par) :=
  [ (PI, [PI; PS; PC; PT]);
    (PS, [PS; PT; PI; PC]);
    (PC, [PC; PT; PI; PS]);
    (PT, [PT; PS; PC; PI]) ].

Definition adapter_table : list ((par * par) * list aop) :=
  [ ((PI, PS), [ACall; AConcatOut]);
    ((PI, PC), [ABoxIn; ACall]);
    ((PI, PT), [ABoxIn; ACall; AConcatOut]);
    ((PS, PT), [ABoxIn; ACall]);
    ((PS, PI), [ACall; ABoxOut]);
    ((PS, PC), [ABoxIn; ACall; ABoxOut]);
    ((PC, PT), [ACall; AConcatOut]);
    ((PC, PI), [AConcatIn; ACall]);
    ((PC, PS), [AConcatIn; ACall; AConcatOut]);
    ((PT, PS), [AConcatIn; ACall]);
    ((PT, PC), [ACall; ABoxOut]);
    ((PT, PI), [AConcatIn; ACall; ABoxOut]) ].

Fixpoint par_assoc {X} (p : par) (l : list (par * X)) : option X :=
  match l with
  | [] => None
  | (q, x) :: l' => if par_eqb p q then Some x else par_assoc p l'
  end.

Fixpoint pp_assoc {X} (v p : par) (l : list ((par * par) * X)) : option X :=
  match l with
  | [] => None
  | ((v', p'), x) :: l' => if par_eqb v v' && par_eqb p p' then Some x else pp_assoc v p l'
  end.

(* the program of view [v] from native [p] according to a table: the native itself when they
   coincide (newRunnablePacker assigns it unchanged) *)
Definition prog_of (tbl : list ((par * par) * list aop)) (v p : par) : option (list aop) :=
  if par_eqb v p then Some [ACall] else pp_assoc v p tbl.

Section Interp.
  Variables A B : Type.
  Variable concatA : list A -> res A.
  Variable concatB : list B -> res B.

  (* what flows into / out of an adapter: a value or a stream *)
  Inductive din : Type := InV (x : A) | InS (s : stream A).
  Inductive dout : Type := OutV (y : B) | OutS (s : stream B).

  Definition call_native (n : node A B) (p : par) (i : din) : res dout :=
    match p, i with
    | PI, InV x => res_map OutV (callI n x)
    | PS, InV x => res_map OutS (callS n x)
    | PC, InS s => res_map OutV (callC n s)
    | PT, InS s => res_map OutS (callT n s)
    | _, _ => Err e_type                      (* ill-typed program: Go's type checker excludes it *)
    end.

  Definition pre_op (o : aop) (i : din) : res din :=
    match o, i with
    | ABoxIn, InV x => Ok (InS (box x))
    | AConcatIn, InS s => do x <- sconcat concatA s; Ok (InV x)
    | _, _ => Err e_type
    end.

  Definition post_op (o : aop) (r : dout) : res dout :=
    match o, r with
    | AConcatOut, OutS s => do y <- sconcat concatB s; Ok (OutV y)
    | ABoxOut, OutV y => Ok (OutS (box y))
    | _, _ => Err e_type
    end.

  Fixpoint run_post (ops : list aop) (r : dout) : res dout :=
    match ops with
    | [] => Ok r
    | o :: ops' => do r' <- post_op o r; run_post ops' r'
    end.

  (* the steps before ACall transform the input, ACall calls the native, the rest the output *)
  Fixpoint run_prog (n : node A B) (p : par) (ops : list aop) (i : din) : res dout :=
    match ops with
    | [] => Err e_type                        (* a program that never calls the native *)
    | ACall :: ops' => do r <- call_native n p i; run_post ops' r
    | o :: ops' => do i' <- pre_op o i; run_prog n p ops' i'
    end.

  Definition out_val (r : res dout) : res B :=
    match r with Ok (OutV y) => Ok y | Ok (OutS _) => Err e_type | Err e => Err e | Panic => Panic end.
  Definition out_str (r : res dout) : res (stream B) :=
    match r with Ok (OutS s) => Ok s | Ok (OutV _) => Err e_type | Err e => Err e | Panic => Panic end.

  (* a view computed from the two tables alone *)
  Definition table_view (ord : list (par * list par)) (tbl : list ((par * par) * list aop))
             (n : node A B) (v : par) (i : din) : res dout :=
    match par_assoc v ord with
    | None => Err e_type
    | Some o =>
      match find (has n) o with
      | None => Err e_none
      | Some p =>
        match prog_of tbl v p with
        | None => Err e_type
        | Some ops => run_prog n p ops i
        end
      end
    end.
End Interp.

Arguments InV {A} x.
Arguments InS {A} s.
Arguments OutV {B} y.
Arguments OutS {B} s.
Arguments call_native {A B} n p i.
Arguments run_prog {A B} concatA concatB n p ops i.
Arguments out_val {B} r.
Arguments out_str {B} r.
Arguments table_view {A B} concatA concatB ord tbl n v i.
