(* Model/BuilderGenLib.v — property C20: the vocabulary of the statement-by-statement translation of
   compose/graph.go (methods addNode, addEdgeWithMappings, addBranch, compile of *graph) made by
   tools/go2v, extractor "c20graph" -> Gen/C20Graph.v: what the Go statements used there mean on the
   model's builder state [gstate] (Model/Builder.v).

     Go                                                       here
     return X        (X of type error)                         [ret hooked g X]: the deferred function
                                                               `if err != nil { g.buildError = err }`, once
                                                               installed ([hooked = true]), records X
     errors.New / fmt.Errorf("<text> …")                       [Some E], E = family of the text
     an error variable (err, e, g.buildError)                  [option ecls]
     g.nodes[k] = n                                            [nodes_put]
     _, ok := g.nodes[k]                                       [has_node]
     g.controlEdges[a] = append(g.controlEdges[a], b)          [ctrl_append]   (same for dataEdges)
     for i := range g.controlEdges[a] { if …[i] == b {ret} }   [pmem a b (g_ctrl g)]
     g.startNodes = append(g.startNodes, b)                    [starts_append] (same for endNodes)
     g.addToValidateMap(a, b, m)                               [to_validate_add]
     g.updateToValidateMap()                                   [update_to_validate_map]: the model's
                                                               [update_pending]; never an error, typing being
                                                               abstracted to one type (assumption 1 of C20)
     g.nodes[a].cr.inputType = t / .outputType = t             [set_in_typed] / [set_out_typed]
     g.handlerPreBranch[a] = append(g.handlerPreBranch[a], h)  [prebranch_append]  (one entry per branch)
     g.branches[a] = append(g.branches[a], branch)             [branches_append]
     for x := range m { … return err … }                       [for_each]
   Definitions only. *)
From Eino Require Import Base.Util Model.Builder.
Local Open Scope string_scope.
Local Open Scope list_scope.

(* ---------------------------------------------------------------- returns *)
Definition ret (hooked : bool) (g : gstate) (eo : option ecls) : gstate * outcome :=
  match eo with
  | None => (g, OOk)
  | Some e => ((if hooked then set_err (Some e) g else g), OErr e)
  end.

(* an error value handed back as the outcome of a call *)
Definition oerr (eo : option ecls) : outcome := match eo with Some e => OErr e | None => OOk end.

(* ---------------------------------------------------------------- tests *)
Definition cmp_is_chain (c : cmp) : bool := match c with CChain => true | _ => false end.
Definition cmp_is_workflow (c : cmp) : bool := match c with CWorkflow => true | _ => false end.

(* g.nodes[k].executorMeta.component == ComponentOfPassthrough *)
Definition node_is_pass (g : gstate) (k : string) : bool :=
  match alist_get k (g_nodes g) with Some n => nkind_eqb (n_kind n) NPass | None => false end.

(* _, ok := g.handlerPreBranch[k]: the model keeps one entry per branch added *)
Definition prebranch_has (k : string) (g : gstate) : bool := smem k (g_h_prebranch g).

(* ---------------------------------------------------------------- updates *)
Definition nodes_put (k : string) (n : node) (g : gstate) : gstate := set_nodes (alist_set k n (g_nodes g)) g.
Definition ctrl_append (a b : string) (g : gstate) : gstate := set_ctrl (g_ctrl g ++ [(a, b)]) g.
Definition data_append (a b : string) (g : gstate) : gstate := set_data (g_data g ++ [(a, b)]) g.
Definition starts_append (b : string) (g : gstate) : gstate := set_starts (g_starts g ++ [b]) g.
Definition ends_append (b : string) (g : gstate) : gstate := set_ends (g_ends g ++ [b]) g.
Definition to_validate_add (a b : string) (m : list string) (g : gstate) : gstate :=
  set_pending (g_pending g ++ [(a, b, m)]) g.
Definition update_to_validate_map (g : gstate) : gstate * option ecls := (update_pending g, None).

Definition set_in_typed (k : string) (g : gstate) : gstate :=
  set_nodes (map (fun kn => if String.eqb (fst kn) k
                            then (fst kn, mkNode (n_kind (snd kn)) true (n_out (snd kn)) (n_state (snd kn))) else kn)
                 (g_nodes g)) g.
Definition set_out_typed (k : string) (g : gstate) : gstate :=
  set_nodes (map (fun kn => if String.eqb (fst kn) k
                            then (fst kn, mkNode (n_kind (snd kn)) (n_in (snd kn)) true (n_state (snd kn))) else kn)
                 (g_nodes g)) g.

(* g.handlerPreBranch[k] = [][]handlerPair{} : an empty list of handler lists, invisible in the model *)
Definition prebranch_init (k : string) (g : gstate) : gstate := g.
Definition prebranch_append (k : string) (g : gstate) : gstate := set_h_prebranch (g_h_prebranch g ++ [k]) g.
Definition branches_append (a : string) (ends : list string) (no_data_flow : bool) (g : gstate) : gstate :=
  set_branches (g_branches g ++ [(a, (ends, no_data_flow))]) g.

(* ---------------------------------------------------------------- loops *)
(* for x := range l { body }, the body returning an error (Some e) or falling through (None) *)
Fixpoint for_each {A} (body : gstate -> A -> gstate * option ecls) (l : list A) (g : gstate) : gstate * option ecls :=
  match l with
  | [] => (g, None)
  | a :: r =>
    match body g a with
    | (g', Some e) => (g', Some e)
    | (g', None) => for_each body r g'
    end
  end.

(* ---------------------------------------------------------------- checkAssignable's answer *)
Inductive asg : Type := AMust | AMustNot | AMay.
Definition asg_eqb (a b : asg) : bool :=
  match a, b with AMust, AMust | AMustNot, AMustNot | AMay, AMay => true | _, _ => false end.

(* ---------------------------------------------------------------- what the model cannot see *)
(* Once the deferred hook has recorded an error nothing reads the rest of the builder state any more
   (every method returns g.buildError first; a runnable cannot exist, the graph not being compiled), and the
   model drops the partial effects of the failed call ([fail g e] with the state from BEFORE the call);
   the translated code keeps them, as the Go code does.  [canon g0 r]: r with those effects dropped. *)
Definition canon (g0 : gstate) (r : gstate * outcome) : gstate * outcome :=
  match g_err (fst r) with
  | Some e => (set_err (Some e) g0, snd r)
  | None => r
  end.

(* ---------------------------------------------------------------- graph.compile *)
(* what a translated compile hands back besides the builder state: an error, or the parts of the
   runner that are decided there (the tables are the builder's own: r_nodes .. r_branches) *)
Inductive cresult : Type :=
| CErr (e : ecls)
| CDone (dag eager : bool) (max_steps : Z) (prenode : list string) (prenode_is_copy : bool)
| COther.

(* return nil, X *)
Definition cerr (eo : option ecls) : cresult := match eo with Some e => CErr e | None => COther end.

Definition cresult_of (o : outcome) : cresult :=
  match o with
  | OErr e => CErr e
  | OCompiled r =>
    match r_prenode r with
    | Some h => CDone (r_dag r) (r_eager r) (r_max_steps r) h true
    | None => COther
    end
  | _ => COther
  end.

Definition trigger_given (o : copt) : bool := is_some (o_trigger o).
Definition trigger_is_all (o : copt) : bool := match o_trigger o with Some true => true | _ => false end.

(* the loop over g.nodes in which the sub graphs are compiled (node.compileIfNeeded): an invalid sub graph is
   one whose own Compile fails with 'start node not set' (assumption 4 of C20) *)
Definition sub_graph_error (g : gstate) : option ecls :=
  if existsb (fun kn => nkind_eqb (n_kind (snd kn)) NSubBad) (g_nodes g) then Some ENoStart else None.

(* validateDAG(r.chanSubscribeTo, controlPredecessors): the counter algorithm of the model, proved to accept
   exactly the graphs with a topological order whatever order the maps are visited in *)
Definition validate_dag_result (g : gstate) : option ecls := if validate_dag g then None else Some EDagLoop.

(* where the runner of the model takes its handler tables and a node's edge lists from ([runner_view]:
   pre-branch and edge handlers are the builder's own maps, the pre-node handlers a copy made by this Compile;
   [r_ctrl] / [r_data]: the builder's slices) *)
Definition model_handler_sources : list string :=
  ["preBranchHandlerManager.h = g.handlerPreBranch"; "preNodeHandlerManager.h = handlerPreNode"; "edgeHandlerManager.h = g.handlerOnEdges"].
Definition model_node_edge_sources : list string := ["writeTo = g.dataEdges[name]"; "controls = g.controlEdges[name]"].
