(* Model/ErrorsResume.v — property C13: a run that is interrupted (a node returns
   compose.InterruptAndRerun) and resumed from its checkpoint until it no longer interrupts.

   The nodes of the harness are deterministic and a node that asked for a rerun succeeds when it
   is run again.  What had completed before the interrupt is not run again; its outputs (streams
   are converted to values in the checkpoint — an error item or a panicking stream among them
   fails the run INSTEAD of interrupting it, see [steps]) are what they would be in a run from
   the start.  A stage that completed holds no rerun request, at any depth (a request always
   interrupts or fails); so the stage that interrupted is the first stage, in order, that holds
   one — in the top graph, and again inside every sub-graph node of that stage.  One resume =
   the same forest with the rerun requests of exactly those stages turned into successes, run
   from the start ([round]).  The step counter restarts on resume: the harness resumes only cases
   without an explicit step limit.
   Definitions only (evaluated by the correspondence on CaseR cases). *)
From Eino Require Import Base.Util Model.Errors.

Fixpoint has_rerun (F : forest) (fuel : nat) (n : node) : bool :=
  match n with
  | NLam _ _ BRerun => true
  | NLam _ _ _ => false
  | NTools _ _ => false
  | NSub _ gi =>
      match fuel with
      | O => false
      | S fuel' =>
          match nth_error F gi with
          | Some g => existsb (existsb (has_rerun F fuel')) (g_stages g)
          | None => false
          end
      end
  end.

(* index of the first stage that holds a rerun request *)
Fixpoint first_rerun_stage (F : forest) (fuel : nat) (sts : list (list node)) (k : nat) : option nat :=
  match sts with
  | [] => None
  | st :: r => if existsb (has_rerun F fuel) st then Some k else first_rerun_stage F fuel r (S k)
  end.

Definition sub_indices (st : list node) : list nat :=
  flat_map (fun n => match n with NSub _ gi => [gi] | _ => [] end) st.

(* the (graph index, stage index) pairs whose rerun requests are served by one resume, from graph gi down *)
Fixpoint marks (F : forest) (fuel : nat) (gi : nat) : list (nat * nat) :=
  match fuel with
  | O => []
  | S fuel' =>
      match nth_error F gi with
      | None => []
      | Some g =>
          match first_rerun_stage F fuel' (g_stages g) 0 with
          | None => []
          | Some k => (gi, k) :: flat_map (marks F fuel') (sub_indices (nth k (g_stages g) []))
          end
      end
  end.

Definition derun_node (n : node) : node :=
  match n with
  | NLam k f BRerun => NLam k f BOk
  | _ => n
  end.

Fixpoint map_at {A} (f : A -> A) (k : nat) (l : list A) : list A :=
  match l, k with
  | [], _ => []
  | x :: r, O => f x :: r
  | x :: r, S k' => x :: map_at f k' r
  end.

Definition is_marked (ms : list (nat * nat)) (gi : nat) : option nat :=
  match find (fun m => Nat.eqb (fst m) gi) ms with Some m => Some (snd m) | None => None end.

Fixpoint round_from (ms : list (nat * nat)) (gi : nat) (F : forest) : forest :=
  match F with
  | [] => []
  | g :: r =>
      (match is_marked ms gi with
       | Some k => mkGraph (g_dag g) (map_at (map derun_node) k (g_stages g)) (g_loop g) (g_max g) (g_br g)
       | None => g
       end) :: round_from ms (S gi) r
  end.

(* the forest after one resume *)
Definition round (F : forest) : forest := round_from (marks F (S (List.length F)) 0) 0 F.

Definition is_interrupt_answer (l : list answer) : bool :=
  match l with [AErr InterruptE] => true | _ => false end.

(* the legal answers of: call, and while the answer is an interrupt resume from the checkpoint
   (at most n times; still interrupted after that: the interrupt is the answer) *)
Fixpoint resumed_answers_n (n : nat) (F : forest) (p : paradigm) (cancel_before : bool) (in_item : option err) : list answer :=
  let a := answers F p cancel_before in_item in
  match n with
  | O => a
  | S n' => if is_interrupt_answer a then resumed_answers_n n' (round F) p cancel_before in_item else a
  end.

Definition resumed_answers := resumed_answers_n 8.
