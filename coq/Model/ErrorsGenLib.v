(* Model/ErrorsGenLib.v — property C13: the vocabulary of the statement-by-statement translation of
   compose/error.go (newGraphRunError, wrapGraphNodeError, newStreamWrapperError,
   wrapStreamWrapperError, the methods Unwrap and Error of internalError), compose/interrupt.go:isInterruptError
   and internal/safe/panic.go (tools/go2v, extractor "errcode" -> Gen/ErrorCode.v): what the Go
   operations used there mean on the model's error terms (Model/Errors.v).
   Definitions only. *)
From Eino Require Import Base.Util Model.Errors.
Local Open Scope string_scope.

(* What the Go variable [ie] holds after  errors.As(err, &ie)  succeeded: the fields of the first
   *internalError on the chain of err, and whether that wrapper is err itself (pointer identity
   error(ie) == err: the chain starts with err, so the identity holds exactly when the wrapper was
   found at position 0).  Also the receiver of a method of *internalError. *)
Record ieptr : Type := mkIe {
  ie_typ : ityp;
  ie_sp : list action;
  ie_np : list string;
  ie_orig : err;
  ie_self : bool
}.

Fixpoint find_ie (first : bool) (l : list err) : option ieptr :=
  match l with
  | [] => None
  | Internal t sp np o :: _ => Some (mkIe t sp np o first)
  | _ :: r => find_ie false r
  end.

(* var ie *internalError; errors.As(err, &ie) *)
Definition go_errors_as_internal (e : err) : option ieptr := find_ie true (chain e).

(* the pointer ie used as an error value *)
Definition ie_err (i : ieptr) : err := Internal (ie_typ i) (ie_sp i) (ie_np i) (ie_orig i).

(* compose/interrupt.go: ExtractInterruptInfo(err) succeeds / isSubGraphInterrupt(err) != nil /
   errors.Is(err, target) *)
Definition go_extract_interrupt (e : err) : bool := extract_interrupt_gen true e.
Definition go_is_sub_interrupt (e : err) : bool := is_sub_interrupt_gen true e.
Definition go_errors_is (target e : err) : bool := is_ target e.
Definition go_interrupt_and_rerun : err := Leaf id_rerun.

(* isInterruptError(err) as the constructors of error.go call it *)
Definition go_is_interrupt_error (e : err) : bool := is_interrupt_error_gen true e.

(* the text of the two constants of internalErrorType *)
Definition ityp_text (t : ityp) : string :=
  match t with NodeRunError => "NodeRunError" | GraphRunError => "GraphRunError" end.

(* strings: "\n", and the loops of Error() *)
Definition nl : string := String (Ascii.ascii_of_nat 10) "".

Fixpoint go_concat_map (f : string -> string) (l : list string) : string :=
  match l with [] => "" | x :: r => f x ++ go_concat_map f r end.

(* p[len(p)-1] (the translated code reaches it only behind len(p) > 0) *)
Definition go_last (l : list string) : string := last l "".

(* the message of internalError as the model states it: "[typ]\n" cause, and when the node path is
   not empty a separator line and "node path: [k1, k2, ..., kn]" *)
Fixpoint join_comma (l : list string) : string :=
  match l with
  | [] => ""
  | [x] => x
  | x :: r => x ++ ", " ++ join_comma r
  end.

Definition path_suffix (np : list string) : string :=
  match np with
  | [] => ""
  | _ => nl ++ "------------------------" ++ nl ++ "node path: [" ++ join_comma np ++ "]"
  end.

Definition internal_text (errtext : err -> string) (t : ityp) (np : list string) (o : err) : string :=
  "[" ++ ityp_text t ++ "]" ++ nl ++ errtext o ++ path_suffix np.
