(* Model/OptionsSpec.v — the specification side of property C16: "who is addressed by what",
   written directly over the tree unfolding of the forest, without any recursion over option
   lists being handed down.  Executable (used in Examples), no proofs here. *)
From Coq Require Import Permutation.
From Eino Require Import Base.Util Model.Options.

(* the node a path designates, walking from graph [gi] *)
Fixpoint resolve (F : forest) (gi : nat) (p : path) : option node :=
  match p with
  | [] => None
  | k :: rest =>
    match nth_error F gi with
    | None => None
    | Some g =>
      match find_node k g with
      | None => None
      | Some nd =>
        match rest with
        | [] => Some nd
        | _ :: _ => match n_kind nd with KSub gj => resolve F gj rest | KComp _ => None end
        end
      end
    end
  end.

(* every node along the path is selected in this call *)
Fixpoint executes (F : forest) (gi : nat) (p : path) : bool :=
  match p with
  | [] => true
  | k :: rest =>
    match nth_error F gi with
    | None => false
    | Some g =>
      match find_node k g with
      | None => false
      | Some nd =>
        n_runs nd &&
        match rest with
        | [] => true
        | _ :: _ => match n_kind nd with KSub gj => executes F gj rest | KComp _ => false end
        end
      end
    end
  end.

Fixpoint path_eqb (a b : path) : bool :=
  match a, b with
  | [], [] => true
  | x :: a', y :: b' => N.eqb x y && path_eqb a' b'
  | _, _ => false
  end.
(* q is a prefix of p (possibly equal) *)
Fixpoint prefixb (q p : path) : bool :=
  match q, p with
  | [], _ => true
  | x :: q', y :: p' => N.eqb x y && prefixb q' p'
  | _ :: _, [] => false
  end.
(* q is a non-empty prefix of p and strictly shorter: q designates a graph that contains p *)
Definition proper_prefixb (q p : path) : bool :=
  match q with [] => false | _ :: _ => prefixb q p && negb (path_eqb q p) end.

(* the option values of [o] that reach the component at node path [p] whose option type is
   [ty]: an undesignated option reaches it iff it has that type; a designated one once per
   path that is [p] itself, or that designates a graph containing [p] (the option is then
   undesignated inside that graph, so again by type). *)
Definition addressed_items (o : copt) (p : path) (ty : N) : list item :=
  match o_paths o with
  | [] => if ty_matches o ty then o_items o else []
  | _ :: _ =>
      flat_map (fun q => if path_eqb q p then o_items o
                         else if proper_prefixb q p && ty_matches o ty then o_items o
                         else []) (o_paths o)
  end.
Definition spec_delivered (opts : list copt) (p : path) (ty : N) : list item :=
  flat_map (fun o => addressed_items o p ty) opts.

(* does option [o] address node path [p] at all *)
Definition addresses (o : copt) (p : path) (ty : N) : Prop :=
  (o_paths o = [] /\ ty_matches o ty = true) \/
  In p (o_paths o) \/
  (exists q, In q (o_paths o) /\ proper_prefixb q p = true /\ ty_matches o ty = true).

(* designating [q] with option [o] is an error by the text of the property:
   empty path, unknown node, path below a non-graph node, option of the wrong type *)
Fixpoint bad_path (F : forest) (o : copt) (gi : nat) (q : path) : bool :=
  match q with
  | [] => true
  | k :: rest =>
    match nth_error F gi with
    | None => true
    | Some g =>
      match find_node k g with
      | None => true
      | Some nd =>
        match n_kind nd, rest with
        | KComp ty, [] => match o_items o with [] => false | _ :: _ => negb (ty_matches o ty) end
        | KComp _, _ :: _ => true
        | KSub _, [] => false
        | KSub gj, _ :: _ => bad_path F o gj rest
        end
      end
    end
  end.

(* all option values of one Option have the Go type of the first (what the typed
   constructors WithChatModelOption(...model.Option) etc. guarantee) *)
Definition uniform (o : copt) : Prop :=
  forall it, In it (o_items o) -> head_ty o = Some (fst it).

(* callbacks: handler lists are compared as sets of handler ids *)
Definition handler_addressed (o : copt) (p : path) : Prop :=
  o_paths o = [] \/ exists q, In q (o_paths o) /\ q <> [] /\ prefixb q p = true.

(* well-formedness of a case: node keys are unique within a graph (they are the keys of a Go
   map), sub graph references point forward (the forest is a finite unfolding) *)
Definition keys_unique (F : forest) : Prop :=
  forall gi g, nth_error F gi = Some g -> NoDup (map n_key g).
Definition well_nested (F : forest) : Prop :=
  forall gi g nd gj, nth_error F gi = Some g -> In nd g -> n_kind nd = KSub gj ->
                     (gi < gj /\ gj < List.length F)%nat.

(* the same forest with the nodes of every graph listed in another order (Go: another iteration
   order of the graph's nodes map) *)
Definition forest_perm (F F' : forest) : Prop := Forall2 (@Permutation node) F F'.

(* ---- how often a handler is applied at a node ------------------------------------------- *)
(* how often the handlers of option [o] are put into the callback manager of the node at path
   [p] because of o's designated paths: once if some path designates the first node of p at the
   top level (one Option is taken once per node there, however many of its paths name the node),
   and once per path of length >= 2 that is p or a prefix of p (every such path travels down as
   an Option of its own) *)
Definition dmult (o : copt) (p : path) : nat :=
  match p with
  | [] => O
  | k :: _ => ((if designates_key k (o_paths o) then 1 else 0) +
               List.length (filter (fun q => (2 <=? List.length q)%nat && prefixb q p) (o_paths o)))%nat
  end.
(* ... and altogether: an undesignated option's handlers are in every manager once *)
Definition fired_mult (o : copt) (p : path) : nat :=
  ((match o_paths o with [] => 1 | _ :: _ => 0 end) + dmult o p)%nat.



Definition cnt (h : N) (l : list N) : nat := count_occ N.eq_dec l h.
(* the number of times handler [h] is in the callback manager of the node at path [p] *)
Definition spec_fired_count (opts : list copt) (p : path) (h : N) : nat :=
  list_sum (map (fun o => (cnt h (o_handlers o) * fired_mult o p)%nat) opts).
