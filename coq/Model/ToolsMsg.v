(* Model/ToolsMsg.v — the tools node's streamed output as schema messages: the sparse lists
   ToolsNode.Stream emits (compose/tool_node.go:339-346) in the message model of property C14
   (Model/ConcatMsg.v), so that the framework's own concatenation of them is C14's
   [msglist_stream] (concatStreamReader on []*schema.Message -> concatMessageArray ->
   ConcatMessages).  Definitions only. *)
From Eino Require Import Base.Util Model.Concat Model.ConcatMsg Model.Tools.
Local Open Scope string_scope.

(* schema.ToolMessage(content, toolCallID) *)
Definition tool_msg (m : tmsg) : msg := mkMsg "tool" "" (snd m) (fst m) [] [] None [].

(* the convert function of ToolsNode.Stream: a list as long as the call list, only position
   [fst e] set, to the tool message (chunk, id of that call) *)
Definition sparse (ids : list string) (e : emitted) : list (option msg) :=
  map (fun p => if Nat.eqb (fst e) (fst p) then Some (tool_msg (snd e, snd p)) else None)
      (combine (seq 0 (List.length ids)) ids).

(* what the framework's concatenation makes of the chunks received from the tools node.
   Generic in the application's registered concat functions [U] (C14's model is): tool messages
   carry no Extra map, so none of them is ever consulted. *)
Definition framework_concat {U : UserFn} (ids : list string) (em : list emitted) : res (list (option msg)) :=
  msglist_stream (map (sparse ids) em).

(* an application that registers no concat function of its own (the C17 harness) *)
Definition tools_no_user : UserFn := {| ufn := fun _ => None |}.
