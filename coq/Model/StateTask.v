(* Model/StateTask.v — C11: what the task manager does with a node's state handlers, as code
   (translator tie; compose/graph_manager.go).

     taskManager.submit, for every new task, before anything is started:
         if task.call.preProcessor != nil && !task.skipPreHandler {
             nInput, err := t.runWrapper(task.ctx, task.call.preProcessor, task.input, …)
             if err != nil { return … }
             task.input = nInput }                                                   [submit_prog]
     taskManager.executor:
         task.output, task.err = t.runWrapper(ctx, task.call.action, task.input, …)   [exec_prog]
     taskManager.waitOne, once the task has been received:
         if ta.err != nil { return ta, true }
         if ta.call.postProcessor != nil {
             nOutput, err := t.runWrapper(ta.ctx, ta.call.postProcessor, ta.output, …)
             if err != nil { ta.err = … }
             ta.output = nOutput }
         return ta, true                                                              [collect_prog]

   [texec] is the semantics over one task record (input, output, error) for arbitrary pre-processor,
   action and post-processor (each a function from its argument to a result and a failure flag); it
   logs every call with its argument and tells how the block ended (end reached / return / submit
   fails).  Gen/StateTask.v is what tools/go2v (extractor "statetask") reads
   from the source; Proofs/GenAgreeStateTask.v proves the programs equal; Proofs/StateTask.v proves the
   pipeline: the pre-handler is called once on the task's input and what it returns is what the node
   receives; the post-handler is called once on the node's output and what it returns is the task's
   output (what the successors receive); a skipped pre-handler (node of an interrupted nested graph)
   and a failed node call neither.  In the transition system these are PReady x -> PPred x' and
   PDone y -> PFin y' with x' / y' the value the critical section returned ([set_x], [after_cs]).
   Definitions only. *)
From Eino Require Import Base.Util Model.StateLock Model.StateLockLTS.

Inductive tproc := TPre | TAction | TPost.
Inductive tfield := FInput | FOutput.

Inductive tcond :=
| CHasPre        (* task.call.preProcessor != nil *)
| CNotSkip       (* !task.skipPreHandler *)
| CHasPost       (* task.call.postProcessor != nil *)
| CTaskErr       (* task.err != nil *)
| CCallErr       (* err != nil, err the error of the last runWrapper call *)
| CBoth (a b : tcond)
| CNot (a : tcond).   (* the opposite test: task.err == nil, task.call.postProcessor == nil … (a source that
                         spells a guard the other way round translates to a program with CNot; Proofs/
                         GenAgreeStateTask.v compares the behaviour of the programs, not their text) *)

Inductive tstmt :=
| TCall (p : tproc) (arg : tfield)       (* tmp, err := t.runWrapper(<task ctx>, p, task.arg, …) *)
| TCallInto (p : tproc) (arg : tfield)   (* task.output, task.err = t.runWrapper(<task ctx>, p, task.arg, …) *)
| TSet (fl : tfield)                     (* task.fl = tmp *)
| TSetErr                                (* task.err = <error built from err> *)
| TFail                                  (* return <error>: submit fails, the run fails *)
| TReturn                                (* return *)
| TIf (c : tcond) (body : list tstmt).

Section Task.
  Variable X : Type.
  Variables (has_pre skip has_post : bool).
  Variable proc : tproc -> X -> X * bool.      (* result, failed *)

  Record tstate := mkTS {
    ts_in : X; ts_out : X; ts_err : bool; ts_tmp : X; ts_cerr : bool; ts_calls : list (tproc * X) }.

  (* how a block ends: fell off its end / returned / failed (submit returns an error) *)
  Inductive tres := RRun (st : tstate) | RRet (st : tstate) | RFail (st : tstate).

  Fixpoint tcond_eval (st : tstate) (c : tcond) : bool :=
    match c with
    | CHasPre => has_pre
    | CNotSkip => negb skip
    | CHasPost => has_post
    | CTaskErr => ts_err st
    | CCallErr => ts_cerr st
    | CBoth a b => tcond_eval st a && tcond_eval st b
    | CNot a => negb (tcond_eval st a)
    end.

  Definition tget (st : tstate) (fl : tfield) : X :=
    match fl with FInput => ts_in st | FOutput => ts_out st end.

  Fixpoint texec1 (fuel : nat) (s : tstmt) (st : tstate) : tres :=
    match fuel with
    | O => RFail st
    | Datatypes.S fu =>
      match s with
      | TCall p arg =>
          RRun (mkTS (ts_in st) (ts_out st) (ts_err st) (fst (proc p (tget st arg))) (snd (proc p (tget st arg)))
                     (ts_calls st ++ [(p, tget st arg)]))
      | TCallInto p arg =>
          RRun (mkTS (ts_in st) (fst (proc p (tget st arg))) (snd (proc p (tget st arg))) (ts_tmp st) (ts_cerr st)
                     (ts_calls st ++ [(p, tget st arg)]))
      | TSet FInput => RRun (mkTS (ts_tmp st) (ts_out st) (ts_err st) (ts_tmp st) (ts_cerr st) (ts_calls st))
      | TSet FOutput => RRun (mkTS (ts_in st) (ts_tmp st) (ts_err st) (ts_tmp st) (ts_cerr st) (ts_calls st))
      | TSetErr => RRun (mkTS (ts_in st) (ts_out st) true (ts_tmp st) (ts_cerr st) (ts_calls st))
      | TFail => RFail st
      | TReturn => RRet st
      | TIf c body =>
          if tcond_eval st c then
            (fix seq (l : list tstmt) (st : tstate) : tres :=
               match l with
               | [] => RRun st
               | s' :: l' => match texec1 fu s' st with RRun st' => seq l' st' | r => r end
               end) body st
          else RRun st
      end
    end.

  Fixpoint tseq (l : list tstmt) (st : tstate) : tres :=
    match l with
    | [] => RRun st
    | s :: l' => match texec1 6 s st with RRun st' => tseq l' st' | r => r end
    end.

  Definition texec (l : list tstmt) (st : tstate) : tres := tseq l st.
End Task.

Arguments mkTS {X} ts_in ts_out ts_err ts_tmp ts_cerr ts_calls.
Arguments ts_in {X} t.
Arguments ts_out {X} t.
Arguments ts_err {X} t.
Arguments ts_calls {X} t.
Arguments RRun {X} st.
Arguments RRet {X} st.
Arguments RFail {X} st.

Definition submit_prog : list tstmt :=
  [TIf (CBoth CHasPre CNotSkip) [TCall TPre FInput; TIf CCallErr [TFail]; TSet FInput]].
Definition exec_prog : list tstmt := [TCallInto TAction FInput].
Definition collect_prog : list tstmt :=
  [TIf CTaskErr [TReturn];
   TIf CHasPost [TCall TPost FOutput; TIf CCallErr [TSetErr]; TSet FOutput];
   TReturn].
