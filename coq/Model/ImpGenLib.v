(* Model/ImpGenLib.v — property C01: the vocabulary of the statement-by-statement translation of the engine's
   decision code (tools/go2v, c01_imp.go; extractors "runlimit", "calcbranch", "chainlower" -> Gen/RunLimit.v,
   Gen/CalcBranch.v, Gen/ChainLower.v).  What a Go construct means on the model's data:
     []string                         list key
     map[string]struct{} / set use    duplicate-free list key in insertion order (Go's iteration order is
                                      arbitrary; what is proved about the translated code is stated up to order)
     for … { … break … }              fold_left over a state that carries a flag [brk]
     x, err := f(); if err != nil …   the error monad [res] of Base/Util.v ([fold_res] = a loop with error returns)
   Definitions only. *)
From Eino Require Import Base.Util Model.Graph.

Definition key_eqb (a b : key) : bool := N.eqb a b.

(* map[string]struct{} *)
Definition s_empty : list key := [].
Definition s_has (k : key) (s : list key) : bool := memb k s.
Definition s_add (k : key) (s : list key) : list key := if memb k s then s else s ++ [k].
Definition s_del (k : key) (s : list key) : list key := filter (fun x => negb (N.eqb x k)) s.
Definition s_elems (s : list key) : list key := s.

(* a loop whose body can return an error *)
Definition fold_res {S A : Type} (f : S -> A -> res S) (l : list A) (s : S) : res S :=
  fold_left (fun r a => do s <- r; f s a) l (Ok s).

(* for i, x := range l *)
Definition indexed {A : Type} (l : list A) : list (nat * A) := combine (seq 0 (List.length l)) l.

(* l[i] and l[i] = a *)
Definition l_get {A : Type} (d : A) (i : nat) (l : list A) : A := nth i l d.
Fixpoint l_set {A : Type} (i : nat) (a : A) (l : list A) : list A :=
  match l, i with
  | [], _ => []
  | _ :: l', O => a :: l'
  | x :: l', S i' => x :: l_set i' a l'
  end.
