(* Model/RunLoop.v — the run loop of compose/graph_run.go with its interrupt handling
   (owner: C05/C06).

   runner.run is modelled as  [iterate step]  over an explicit loop state
       lstate = channels + pending tasks (nextTasks with their inputs, skip-pre flags,
                nested checkpoints) + graph state
   and a checkpoint is exactly that loop state (checkpoint{Channels, Inputs, State,
   SkipPreHandler, SubGraphs}).  The model is GENERIC in the channel discipline: the
   section is parameterised by
       fold : resolveCompletedTasks ; updateValues ; updateDependencies   (no get)
       getr : getFromReadyChannels
   so every theorem proved here holds for Pregel and for DAG channels alike
   (Model/Interrupt.v instantiates them with the channel layer of Model/Graph.v).

   Batch mode (taskManager.needAll: Graph in any-/all-predecessor mode) is [step];
   eager mode (Workflow) is [estep] with an explicit schedule.

   Faithful to graph_run.go AFTER the four repairs recorded in known_findings.json
   (F-C06 initial task set tested for interrupt-before; F-C05 nested checkpoint handed
   to restored tasks only; F-C05c eager: tasks already created stay pending). The
   pre-repair behaviours are kept as [start_v0], [resume_v0], [estep_v0] for the
   *_refuted witnesses.

   Definitions only (no proofs here): must keep evaluating for the correspondence
   check even when a proof is broken. *)
From Eino Require Import Base.Util.
Open Scope N_scope.

Definition kStart : N := 0.
Definition kEnd : N := 1.

(* error classes of a failed run segment (class only) *)
Definition eNoTasks : N := 4.    (* "no tasks to execute" *)
Definition eChan    : N := 20.   (* an error out of the channel layer (merge conflict, END skipped, ...) *)

Definition memN (k : N) (l : list N) : bool := existsb (N.eqb k) l.

Section Loop.
  Context {V CS GS ENV SCP SINFO : Type}.
  Variable zero : V.                                        (* inputZeroValue() of a node          *)
  Variable fold : CS -> list (N * V) -> res CS.             (* completed (node, output) -> channels *)
  Variable getr : CS -> res (CS * list (N * V)).            (* ready (node, input), channels reset  *)
  Variable pre  : N -> V -> GS -> V * GS.                   (* state pre-handler (identity if none) *)

  (* what executing a node body yields *)
  Inductive texec :=
  | TDone (out : V)
  | TRerun                                  (* returned compose.InterruptAndRerun                  *)
  | TSub (cp : SCP) (info : SINFO)          (* a nested graph returned subGraphInterruptError      *)
  | TFail (e : N).                          (* any other error                                     *)

  (* node bodies: key, nested checkpoint handed through the context, input, environment *)
  Variable exec : N -> option SCP -> V -> ENV -> texec * ENV.

  Variable before after : list N.           (* WithInterruptBeforeNodes / WithInterruptAfterNodes  *)

  Record task := { t_key : N; t_in : V; t_skip : bool; t_cp : option SCP }.
  Record lstate := { ls_cs : CS; ls_next : list task; ls_gs : GS }.

  Record checkpoint := {
    cp_cs : CS;                      (* Channels       *)
    cp_inputs : list (N * V);        (* Inputs         *)
    cp_gs : GS;                      (* State          *)
    cp_skip : list N;                (* SkipPreHandler *)
    cp_subs : list (N * SCP);        (* SubGraphs      *)
  }.

  Record iinfo := {
    ii_gs : GS; ii_before : list N; ii_after : list N; ii_rerun : list N; ii_subs : list (N * SINFO);
  }.

  (* one execution of a node body: node, input handed to the body, aborted = asked for a rerun,
     skipped_pre = the task was submitted without running its pre-handler *)
  Record event := { ev_key : N; ev_in : V; ev_abort : bool; ev_skip : bool }.

  Inductive sres :=
  | Continue (s : lstate)
  | Done (v : V)
  | Interrupted (i : iinfo) (c : checkpoint)
  | Failed (e : N).

  (* ---------- taskManager.submit: pre-handlers first, then the bodies ---------- *)
  Fixpoint run_pres (ts : list task) (gs : GS) : list task * GS :=
    match ts with
    | [] => ([], gs)
    | t :: ts' =>
      let '(v, gs1) := if t_skip t then (t_in t, gs) else pre (t_key t) (t_in t) gs in
      let '(rest, gs2) := run_pres ts' gs1 in
      ({| t_key := t_key t; t_in := v; t_skip := t_skip t; t_cp := t_cp t |} :: rest, gs2)
    end.

  Fixpoint exec_all (ts : list task) (env : ENV) : list (N * texec) * ENV :=
    match ts with
    | [] => ([], env)
    | t :: ts' =>
      let '(r, env1) := exec (t_key t) (t_cp t) (t_in t) env in
      let '(rest, env2) := exec_all ts' env1 in
      ((t_key t, r) :: rest, env2)
    end.

  Definition is_rerun (r : texec) : bool := match r with TRerun => true | _ => false end.

  Fixpoint events_of (ts : list task) (rs : list (N * texec)) : list event :=
    match ts, rs with
    | t :: ts', r :: rs' => {| ev_key := t_key t; ev_in := t_in t; ev_abort := is_rerun (snd r); ev_skip := t_skip t |}
                            :: events_of ts' rs'
    | _, _ => []
    end.

  (* ---------- resolveInterruptCompletedTasks ---------- *)
  Definition outs (rs : list (N * texec)) : list (N * V) :=
    flat_map (fun r => match snd r with TDone o => [(fst r, o)] | _ => [] end) rs.
  Definition reruns (rs : list (N * texec)) : list N :=
    flat_map (fun r => match snd r with TRerun => [fst r] | _ => [] end) rs.
  Definition subcps (rs : list (N * texec)) : list (N * SCP) :=
    flat_map (fun r => match snd r with TSub c _ => [(fst r, c)] | _ => [] end) rs.
  Definition subinfos (rs : list (N * texec)) : list (N * SINFO) :=
    flat_map (fun r => match snd r with TSub _ i => [(fst r, i)] | _ => [] end) rs.
  Definition first_fail (rs : list (N * texec)) : option N :=
    match flat_map (fun r => match snd r with TFail e => [e] | _ => [] end) rs with
    | [] => None
    | e :: _ => Some e
    end.
  Definition afters (rs : list (N * texec)) : list N :=
    filter (fun k => memN k after) (map fst (outs rs)).
  (* getHitKey *)
  Definition hits (ready : list (N * V)) : list N :=
    filter (fun k => memN k before) (map fst ready).

  (* createTasks: a task created during the run carries no nested checkpoint (F-C05 repair) *)
  Definition mk_task (kv : N * V) : task :=
    {| t_key := fst kv; t_in := snd kv; t_skip := false; t_cp := None |}.

  Definition calc (cs : CS) (completed : list (N * V)) : res (CS * list (N * V)) :=
    do cs1 <- fold cs completed; getr cs1.

  Definition chan_err {A} (r : res A) : N := match r with Err e => e | _ => eChan end.

  (* handleInterrupt *)
  Definition plain_interrupt (cs : CS) (gs : GS) (pending : list (N * V)) (hb ha : list N) : sres :=
    Interrupted {| ii_gs := gs; ii_before := hb; ii_after := ha; ii_rerun := []; ii_subs := [] |}
                {| cp_cs := cs; cp_inputs := pending; cp_gs := gs; cp_skip := []; cp_subs := [] |}.

  (* handleInterruptWithSubGraphAndRerunNodes: the other finished tasks are folded into the
     channels (no get); the interrupted nested graphs and the rerun nodes become pending tasks
     with the zero input; [pending]/[hb]: tasks already created (eager mode only, F-C05c repair) *)
  Definition rerun_interrupt (cs : CS) (gs : GS) (rs : list (N * texec)) (to_fold : list (N * V))
             (pending : list (N * V)) (hb ha : list N) : sres :=
    match fold cs to_fold with
    | Ok cs1 =>
      Interrupted {| ii_gs := gs; ii_before := hb; ii_after := ha; ii_rerun := reruns rs; ii_subs := subinfos rs |}
                  {| cp_cs := cs1;
                     cp_inputs := pending ++ map (fun kc => (fst kc, zero)) (subcps rs) ++ map (fun k => (k, zero)) (reruns rs);
                     cp_gs := gs; cp_skip := map fst (subcps rs); cp_subs := subcps rs |}
    | r => Failed (chan_err r)
    end.

  Definition is_nil {A} (l : list A) : bool := match l with [] => true | _ => false end.

  (* ---------- one iteration of the loop, batch mode ---------- *)
  (* what the loop does with the collected results [rs] of the step's tasks *)
  Definition decide (cs : CS) (gs1 : GS) (rs : list (N * texec)) : sres :=
    match first_fail rs with
    | Some e => Failed e
    | None =>
      if negb (is_nil (subcps rs) && is_nil (reruns rs)) then
        rerun_interrupt cs gs1 rs (outs rs) [] [] (afters rs)
      else if is_nil rs then Failed eNoTasks
      else
        match calc cs (outs rs) with
        | Ok (cs2, ready) =>
          match nlist_get kEnd ready with
          | Some v => Done v
          | None =>
            if is_nil (hits ready) && is_nil (afters rs) then
              Continue {| ls_cs := cs2; ls_next := map mk_task ready; ls_gs := gs1 |}
            else
              (* waitAll returns nothing in batch mode; calculateNextTasks on nothing *)
              match calc cs2 [] with
              | Ok (cs4, ready2) =>
                match nlist_get kEnd ready2 with
                | Some v => Done v
                | None => plain_interrupt cs4 gs1 (ready ++ ready2) (hits ready ++ hits ready2) (afters rs)
                end
              | r => Failed (chan_err r)
              end
          end
        | r => Failed (chan_err r)
        end
    end.

  (* submit (pre-handlers, then the bodies), wait for all, decide *)
  Definition step (s : lstate) (env : ENV) : sres * list event * ENV :=
    let '(ts, gs1) := run_pres (ls_next s) (ls_gs s) in
    let '(rs, env1) := exec_all ts env in
    (decide (ls_cs s) gs1 rs, events_of ts rs, env1).

  (* ---------- outcome of a run segment (one Invoke/Stream call) ---------- *)
  Inductive outcome :=
  | ODone (v : V)
  | OInterrupted (i : iinfo) (c : checkpoint)
  | OFailed (e : N)
  | OLimit.        (* fuel exhausted: ErrExceedMaxSteps in Pregel mode (fuel = max steps);
                      in DAG mode a model artefact excluded by the theorems' hypotheses *)

  Fixpoint iterate (fuel : nat) (s : lstate) (env : ENV) (log : list event) : outcome * list event * ENV :=
    match fuel with
    | O => (OLimit, log, env)
    | S f =>
      match step s env with
      | (Continue s', evs, env') => iterate f s' env' (log ++ evs)
      | (Done v, evs, env') => (ODone v, log ++ evs, env')
      | (Interrupted i c, evs, env') => (OInterrupted i c, log ++ evs, env')
      | (Failed e, evs, env') => (OFailed e, log ++ evs, env')
      end
    end.

  (* ---------- restore path: loadChannels, state, restoreTasks ---------- *)
  Definition restore (c : checkpoint) : lstate :=
    {| ls_cs := cp_cs c;
       ls_next := map (fun kv => {| t_key := fst kv; t_in := snd kv;
                                    t_skip := memN (fst kv) (cp_skip c);
                                    t_cp := nlist_get (fst kv) (cp_subs c) |}) (cp_inputs c);
       ls_gs := cp_gs c |}.

  (* the checkpoint that holds exactly a loop state whose tasks are all freshly created *)
  Definition save (s : lstate) : checkpoint :=
    {| cp_cs := ls_cs s; cp_inputs := map (fun t => (t_key t, t_in t)) (ls_next s);
       cp_gs := ls_gs s; cp_skip := []; cp_subs := [] |}.

  Definition with_gs (s : lstate) (gs : GS) : lstate :=
    {| ls_cs := ls_cs s; ls_next := ls_next s; ls_gs := gs |}.

  (* a resumed segment: state modifier applied to the restored state, then the loop *)
  Definition resume (fuel : nat) (sm : GS -> GS) (c : checkpoint) (env : ENV) : outcome * list event * ENV :=
    let s := restore c in iterate fuel (with_gs s (sm (ls_gs s))) env [].

  (* before the F-C05 repair createTasks forwarded the run's checkpoint to every task it created:
     every task created in a resumed run was handed the nested checkpoint stored under its key *)
  Definition retag (subs : list (N * SCP)) (s : lstate) : lstate :=
    {| ls_cs := ls_cs s;
       ls_next := map (fun t => {| t_key := t_key t; t_in := t_in t; t_skip := t_skip t;
                                   t_cp := nlist_get (t_key t) subs |}) (ls_next s);
       ls_gs := ls_gs s |}.

  Fixpoint iterate_v0 (subs : list (N * SCP)) (fuel : nat) (s : lstate) (env : ENV) (log : list event)
    : outcome * list event * ENV :=
    match fuel with
    | O => (OLimit, log, env)
    | S f =>
      match step s env with
      | (Continue s', evs, env') => iterate_v0 subs f (retag subs s') env' (log ++ evs)
      | (Done v, evs, env') => (ODone v, log ++ evs, env')
      | (Interrupted i c, evs, env') => (OInterrupted i c, log ++ evs, env')
      | (Failed e, evs, env') => (OFailed e, log ++ evs, env')
      end
    end.

  Definition resume_v0 (fuel : nat) (sm : GS -> GS) (c : checkpoint) (env : ENV) : outcome * list event * ENV :=
    let s := restore c in iterate_v0 (cp_subs c) fuel (with_gs s (sm (ls_gs s))) env [].

  Definition out_of (r : sres) : outcome :=
    match r with
    | Done v => ODone v | Interrupted i c => OInterrupted i c | Failed e => OFailed e
    | Continue _ => OFailed eChan
    end.

  (* ---------- a fresh segment: the initial task set is computed from START ---------- *)
  (* [init]: Continue s = enter the loop at s; anything else ends the call before the loop.
     [v0 = true]: before the F-C06 repair the initial task set was submitted untested. *)
  Definition init_gen (v0 : bool) (cs0 : CS) (gs0 : GS) (x : V) : sres :=
    match calc cs0 [(kStart, x)] with
    | Ok (cs1, ready) =>
      match nlist_get kEnd ready with
      | Some v => Done v
      | None =>
        if v0 || is_nil (hits ready)
        then Continue {| ls_cs := cs1; ls_next := map mk_task ready; ls_gs := gs0 |}
        else plain_interrupt cs1 gs0 ready (hits ready) []
      end
    | r => Failed (chan_err r)
    end.
  Definition init := init_gen false.
  Definition init_v0 := init_gen true.

  Definition start_gen (v0 : bool) (fuel : nat) (cs0 : CS) (gs0 : GS) (x : V) (env : ENV) : outcome * list event * ENV :=
    match init_gen v0 cs0 gs0 x with
    | Continue s => iterate fuel s env []
    | r => (out_of r, [], env)
    end.
  Definition start := start_gen false.
  Definition start_v0 := start_gen true.

  (* ---------- eager mode (Workflow): taskManager.wait returns ONE completed task ----------
     Tasks are executed when submitted (their events are logged then); [es_running] holds the
     results not yet collected. The schedule is the list of node keys in collection order; when it
     is exhausted or names a task that is not running the first running task is taken. *)
  Record estate := { es_cs : CS; es_next : list task; es_gs : GS; es_running : list (N * texec) }.

  Inductive eres :=
  | EContinue (s : estate) (sched : list N)
  | EStop (r : sres).       (* Done / Interrupted / Failed (never Continue) *)

  Fixpoint take_key (k : N) (l : list (N * texec)) : option ((N * texec) * list (N * texec)) :=
    match l with
    | [] => None
    | x :: l' => if N.eqb (fst x) k then Some (x, l')
                 else match take_key k l' with Some (y, r) => Some (y, x :: r) | None => None end
    end.

  Definition pick (running : list (N * texec)) (sched : list N)
    : option ((N * texec) * list (N * texec) * list N) :=
    match running with
    | [] => None
    | x :: rest =>
      match sched with
      | [] => Some (x, rest, [])
      | k :: sched' => match take_key k running with
                       | Some (y, r) => Some (y, r, sched')
                       | None => Some (x, rest, sched')
                       end
      end
    end.

  (* what the loop does with the one collected result [c] while [rest] are still running.
     [v0 = true]: the code before the F-C05c repair (the completed task is resolved a second time,
     the tasks created from it are dropped, interrupt-before nodes are not reported) *)
  Definition edecide (v0 : bool) (cs : CS) (gs1 : GS) (c : N * texec) (rest : list (N * texec)) (sched' : list N) : eres :=
    match first_fail [c] with
    | Some e => EStop (Failed e)
    | None =>
      if negb (is_nil (subcps [c]) && is_nil (reruns [c])) then
        (* waitAll, then handleInterruptWithSubGraphAndRerunNodes on everything *)
        match first_fail rest with
        | Some e => EStop (Failed e)
        | None => EStop (rerun_interrupt cs gs1 (c :: rest) (outs (c :: rest)) [] [] (afters (c :: rest)))
        end
      else
        match calc cs (outs [c]) with
        | Ok (cs2, ready) =>
          match nlist_get kEnd ready with
          | Some v => EStop (Done v)
          | None =>
            if is_nil (hits ready) && is_nil (afters [c]) then
              EContinue {| es_cs := cs2; es_next := map mk_task ready; es_gs := gs1; es_running := rest |} sched'
            else
              match first_fail rest with
              | Some e => EStop (Failed e)
              | None =>
                let ha := afters [c] ++ afters rest in
                if negb (is_nil (subcps rest) && is_nil (reruns rest)) then
                  if v0 then EStop (rerun_interrupt cs2 gs1 (c :: rest) (outs (c :: rest)) [] [] ha)
                  else EStop (rerun_interrupt cs2 gs1 rest (outs rest) ready (hits ready) ha)
                else
                  match calc cs2 (outs rest) with
                  | Ok (cs4, ready2) =>
                    match nlist_get kEnd ready2 with
                    | Some v => EStop (Done v)
                    | None => EStop (plain_interrupt cs4 gs1 (ready ++ ready2) (hits ready ++ hits ready2) ha)
                    end
                  | r => EStop (Failed (chan_err r))
                  end
              end
          end
        | r => EStop (Failed (chan_err r))
        end
    end.

  Definition estep_gen (v0 : bool) (s : estate) (sched : list N) (env : ENV) : eres * list event * ENV :=
    let '(ts, gs1) := run_pres (es_next s) (es_gs s) in
    let '(rs, env1) := exec_all ts env in
    (match pick (es_running s ++ rs) sched with
     | None => EStop (Failed eNoTasks)
     | Some (c, rest, sched') => edecide v0 (es_cs s) gs1 c rest sched'
     end, events_of ts rs, env1).

  Definition estep := estep_gen false.
  Definition estep_v0 := estep_gen true.

  Fixpoint eiterate (v0 : bool) (fuel : nat) (s : estate) (sched : list N) (env : ENV) (log : list event)
    : outcome * list event * ENV :=
    match fuel with
    | O => (OLimit, log, env)
    | S f =>
      match estep_gen v0 s sched env with
      | (EContinue s' sched', evs, env') => eiterate v0 f s' sched' env' (log ++ evs)
      | (EStop r, evs, env') => (out_of r, log ++ evs, env')
      end
    end.

  Definition to_estate (s : lstate) : estate :=
    {| es_cs := ls_cs s; es_next := ls_next s; es_gs := ls_gs s; es_running := [] |}.

  Definition eresume (v0 : bool) (fuel : nat) (sm : GS -> GS) (c : checkpoint) (sched : list N) (env : ENV) :=
    let s := restore c in eiterate v0 fuel (to_estate (with_gs s (sm (ls_gs s)))) sched env [].

  (* [v0] selects the pre-repair [estep]; the initial task set is tested as repaired *)
  Definition estart (v0 : bool) (fuel : nat) (cs0 : CS) (gs0 : GS) (x : V) (sched : list N) (env : ENV)
    : outcome * list event * ENV :=
    match init cs0 gs0 x with
    | Continue s => eiterate v0 fuel (to_estate s) sched env []
    | r => (out_of r, [], env)
    end.

  (* ---------- driving a run through a store: call, and resume while interrupted ---------- *)
  (* One call is one run segment: [fresh] from the caller's input when there is no checkpoint under the
     id (or no id was given), [resumed sm c] from the stored checkpoint [c] otherwise. [mods k] = the
     state modifier of the k-th call, [tick k] = what the options of the k-th call change in the
     environment. The store keeps only what [ser] produces; [deser] failing is a failed call.
     A checkpoint is written exactly when the segment ends interrupted and an id was given. *)
  Section Drive.
    Context {B : Type}.
    Variable ser : checkpoint -> B.
    Variable deser : B -> option checkpoint.
    Variable fresh : ENV -> outcome * list event * ENV.
    Variable resumed : (GS -> GS) -> checkpoint -> ENV -> outcome * list event * ENV.
    Variable tick : nat -> ENV -> ENV.

    Record call_obs := { co_out : outcome; co_log : list event; co_written : bool }.

    Definition call (with_id : bool) (store : option B) (sm : GS -> GS) (env : ENV) : call_obs * option B * ENV :=
      let '(o, l, env') :=
        match (if with_id then store else None) with
        | None => fresh env
        | Some b => match deser b with
                    | Some c => resumed sm c env
                    | None => (OFailed eChan, [], env)
                    end
        end in
      match o with
      | OInterrupted _ c =>
          if with_id then ({| co_out := o; co_log := l; co_written := true |}, Some (ser c), env')
          else ({| co_out := o; co_log := l; co_written := false |}, store, env')
      | _ => ({| co_out := o; co_log := l; co_written := false |}, store, env')
      end.

    (* the whole run: first call, then up to [n] further calls while the run is interrupted
       (without an id nothing was stored: the run cannot be resumed) *)
    Fixpoint drive (with_id : bool) (n : nat) (k : nat) (mods : nat -> GS -> GS) (store : option B) (env : ENV)
      : list call_obs * ENV :=
      let '(co, store', env') := call with_id store (mods k) (tick k env) in
      match co_out co, n, with_id with
      | OInterrupted _ _, S n', true =>
          let '(rest, env'') := drive with_id n' (S k) mods store' env' in (co :: rest, env'')
      | _, _, _ => ([co], env')
      end.
  End Drive.
End Loop.

Arguments TDone {V SCP SINFO}. Arguments TRerun {V SCP SINFO}.
Arguments TSub {V SCP SINFO}. Arguments TFail {V SCP SINFO}.
Arguments Continue {V CS GS SCP SINFO}. Arguments Done {V CS GS SCP SINFO}.
Arguments Interrupted {V CS GS SCP SINFO}. Arguments Failed {V CS GS SCP SINFO}.
Arguments ODone {V CS GS SCP SINFO}. Arguments OInterrupted {V CS GS SCP SINFO}.
Arguments OFailed {V CS GS SCP SINFO}. Arguments OLimit {V CS GS SCP SINFO}.
