(* Model/C04NilEnd.v — property C04, finding F-C04e (fixed by ff3e750): how a run ends when the
   value that reaches END is nil (a legal value of an interface-typed output).

   compose/graph_run.go, runner.run: after every step calculateNextTasks says whether END
   received its input.  Before the fix it said so through its result alone
   (`if result != nil { return result, nil }`): a nil value at END was taken for "not finished",
   the loop went on with no task left and failed with "no tasks to execute".  In stream mode
   the result is a reader — never nil — so Stream / Collect / Transform delivered the nil.
   [finish_v0] is the old ending, [finish] the repaired one.  The chunk universe of the rest of
   the model has no nil; [oval] adds it here only.  Definitions only. *)
From Eino Require Import Base.Util Model.Paradigm Model.StreamOps.

Inductive oval : Type := ONil | OVal (v : val).

Definition e_notasks : N := 9.   (* "no tasks to execute" *)

(* value mode, before ff3e750 *)
Definition finish_v0 (end_reached : bool) (result : oval) : res oval :=
  match end_reached, result with
  | true, OVal v => Ok (OVal v)
  | _, _ => Err e_notasks
  end.

(* value mode, as repaired: reaching END is reported separately from the value *)
Definition finish (end_reached : bool) (result : oval) : res oval :=
  if end_reached then Ok result else Err e_notasks.

(* stream mode: what reaches END is a reader *)
Definition finish_stream (end_reached : bool) (s : stream oval) : res (stream oval) :=
  if end_reached then Ok s else Err e_notasks.

(* concatenation of interface-typed chunks: nil chunks are skipped, all nil = nil
   (internal.concatInterfaces) *)
Definition oconcat (xs : list oval) : res oval :=
  match flat_map (fun x => match x with ONil => [] | OVal v => [v] end) xs with
  | [] => Ok ONil
  | [v] => Ok (OVal v)
  | vs => res_map OVal (vconcat vs)
  end.

(* ---------------------------------------------------------------- finding F-C04f (fixed by d2e8680) *)
(* A nil stored under an input key.  The invoke form of the input-key wrapper hands the value under
   the key to the node as it is; a node whose input type is an interface takes the nil, a node
   with a concrete input type fails its input assertion.  The stream form (defaultStreamMapFilter)
   asserted `v.(T)` — never true for nil — and then dereferenced the nil type of the value for its
   error message: a (recovered) panic for every T.  [iface]: the node's input type is an interface. *)
Definition inkey_value (iface : bool) (v : oval) : res oval :=
  match v with
  | ONil => if iface then Ok ONil else Err e_type
  | OVal x => Ok (OVal x)
  end.

(* one chunk {k: v} through the stream filter: the chunk the node receives / an error item *)
Definition inkey_chunk_v0 (iface : bool) (v : oval) : item oval :=
  match v with ONil => Bad e_node | OVal x => Val (OVal x) end.

Definition inkey_chunk (iface : bool) (v : oval) : item oval :=
  match v with
  | ONil => if iface then Val ONil else Bad e_type
  | OVal x => Val (OVal x)
  end.
