(* Model/ConcatMsg.v — executable model of schema.ConcatMessages, concatToolCalls,
   concatMessageArray and of the stream-level entry points (ConcatMessageStream,
   compose.concatStreamReader on *Message / []*Message).  Definitions only.

   The functions are written as the n-ary Go functions compute them (a function of the
   whole chunk list).  Error messages are not modelled (class tags only); Go returns at
   the first failing check, the model reports "some check fails", which is the same
   set of inputs. *)
From Eino Require Import Base.Util Model.Concat.

Section User.
Context {U : UserFn}.

Record toolcall : Type := mkTC {
  tc_idx : option Z;        (* *int Index; nil = None *)
  tc_id : string;
  tc_type : string;
  tc_name : string;         (* Function.Name *)
  tc_args : string;         (* Function.Arguments *)
  tc_extra : N              (* the Extra map of the call: never concatenated, only carried; 0 = nil *)
}.

Record usage : Type := mkUsage { u_prompt : Z; u_compl : Z; u_total : Z }.

Record rmeta : Type := mkMeta {
  rm_finish : string;
  rm_usage : option usage;                 (* *TokenUsage *)
  rm_logprobs : option (list string)       (* *LogProbs; the list is LogProbs.Content (one token per entry) *)
}.

Record msg : Type := mkMsg {
  m_role : string;
  m_name : string;
  m_tcid : string;                         (* ToolCallID *)
  m_content : string;
  m_multi : list string;                   (* MultiContent parts (nil and empty are the same list) *)
  m_tcs : list toolcall;
  m_meta : option rmeta;                   (* *ResponseMeta *)
  m_extra : list (string * cval)           (* Extra (nil and empty are the same map) *)
}.

Definition E_NILMSG : N := 4%N.     (* nil chunk in the message list *)
Definition E_CONFLICT : N := 5%N.   (* different roles / names / tool-call ids / tool ids, types, names *)
Definition E_LEN : N := 6%N.        (* message arrays of different length *)

Definition str_empty (s : string) : bool := String.eqb s EmptyString.

(* "first non-empty value wins, a later different non-empty value is an error"
   (Role, Name, ToolCallID; per group: tool id, type, function name) *)
Fixpoint pick_from (cur : string) (l : list string) : res string :=
  match l with
  | [] => Ok cur
  | s :: l' =>
      if str_empty s then pick_from cur l'
      else if str_empty cur then pick_from s l'
      else if String.eqb cur s then pick_from cur l'
      else Err E_CONFLICT
  end.
Definition pick (l : list string) : res string := pick_from EmptyString l.

(* ---------------------------------------------------------------- concatToolCalls *)

Definition is_nil_idx (c : toolcall) : bool :=
  match tc_idx c with None => true | Some _ => false end.
Definition has_idx (i : Z) (c : toolcall) : bool :=
  match tc_idx c with Some j => Z.eqb i j | None => false end.

(* the distinct indexes, ascending (what sort.SliceStable leaves: one merged call per index) *)
Fixpoint insert_idx (i : Z) (l : list Z) : list Z :=
  match l with
  | [] => [i]
  | j :: l' => if Z.ltb i j then i :: j :: l' else if Z.eqb i j then j :: l' else j :: insert_idx i l'
  end.
Definition idxs_of (cs : list toolcall) : list Z :=
  fold_left (fun acc c => match tc_idx c with Some i => insert_idx i acc | None => acc end) cs [].

(* one index group: the first fragment supplies Index and Extra; id/type/name must agree;
   arguments are joined in arrival order *)
Definition merge_group (i : Z) (g : list toolcall) : res toolcall :=
  do id <- pick (map tc_id g);
  do ty <- pick (map tc_type g);
  do nm <- pick (map tc_name g);
  Ok (mkTC (match g with c0 :: _ => tc_idx c0 | [] => Some i end) id ty nm
           (concat_strings (map tc_args g))
           (match g with c0 :: _ => tc_extra c0 | [] => 0%N end)).

Definition concat_toolcalls (cs : list toolcall) : res (list toolcall) :=
  do merged <- res_mapM (fun i => merge_group i (filter (has_idx i) cs)) (idxs_of cs);
  Ok (filter is_nil_idx cs ++ merged).

(* ---------------------------------------------------------------- ResponseMeta *)

Definition zero_usage : usage := mkUsage 0 0 0.
Definition umax (a b : usage) : usage :=
  mkUsage (Z.max (u_prompt a) (u_prompt b)) (Z.max (u_compl a) (u_compl b)) (Z.max (u_total a) (u_total b)).
Definition empty_meta : rmeta := mkMeta EmptyString None None.

Definition meta_step (acc : option rmeta) (x : option rmeta) : option rmeta :=
  match x with
  | None => acc
  | Some x =>
      let a := match acc with Some a => a | None => empty_meta end in
      Some (mkMeta
        (if str_empty (rm_finish x) then rm_finish a else rm_finish x)
        (match rm_usage x with
         | None => rm_usage a
         | Some u => Some (umax (match rm_usage a with Some au => au | None => zero_usage end) u)
         end)
        (match rm_logprobs x with
         | None => rm_logprobs a
         | Some lp => Some ((match rm_logprobs a with Some l => l | None => [] end) ++ lp)
         end))
  end.
Definition concat_meta (l : list (option rmeta)) : option rmeta := fold_left meta_step l None.

(* MultiContent: the last non-empty one *)
Definition multi_step (acc x : list string) : list string :=
  match x with [] => acc | _ => x end.
Definition concat_multi (l : list (list string)) : list string := fold_left multi_step l [].

Definition nonempty_map (m : list (string * cval)) : bool :=
  match m with [] => false | _ => true end.

Fixpoint all_some {A} (l : list (option A)) : option (list A) :=
  match l with
  | [] => Some []
  | None :: _ => None
  | Some a :: l' => match all_some l' with Some r => Some (a :: r) | None => None end
  end.

(* ---------------------------------------------------------------- ConcatMessages *)

Definition concat_msgs (l : list (option msg)) : res msg :=
  match all_some l with
  | None => Err E_NILMSG
  | Some ms =>
      do role <- pick (map m_role ms);
      do name <- pick (map m_name ms);
      do tcid <- pick (map m_tcid ms);
      do tcs <- concat_toolcalls (flat_map m_tcs ms);
      do extra <- concat_maps_top (filter nonempty_map (map m_extra ms));
      Ok (mkMsg role name tcid
                (concat_strings (map m_content ms))
                (concat_multi (map m_multi ms))
                tcs
                (concat_meta (map m_meta ms))
                extra)
  end.

(* ConcatMessageStream / concatStreamReader[*Message]: empty stream is an error, a single
   chunk is returned as it is (possibly nil), otherwise ConcatMessages *)
Definition msg_stream (l : list (option msg)) : res (option msg) :=
  match l with
  | [] => Err E_EMPTY
  | [m] => Ok m
  | _ => res_map Some (concat_msgs l)
  end.

(* ---------------------------------------------------------------- concatMessageArray *)

Definition column (i : nat) (mas : list (list (option msg))) : list msg :=
  flat_map (fun ma => match nth_error ma i with Some (Some m) => [m] | _ => [] end) mas.

Definition concat_column (slice : list msg) : res (option msg) :=
  match slice with
  | [] => Ok None
  | [m] => Ok (Some m)
  | _ => res_map Some (concat_msgs (map Some slice))
  end.

Definition concat_msg_arrays (mas : list (list (option msg))) : res (list (option msg)) :=
  match mas with
  | [] => Panic                                 (* mas[0]; the registry calls it with len >= 2 only *)
  | ma0 :: _ =>
      let n := List.length ma0 in
      if forallb (fun ma => Nat.eqb (List.length ma) n) mas
      then res_mapM (fun i => concat_column (column i mas)) (seq 0 n)
      else Err E_LEN
  end.

(* concatStreamReader[[]*Message] *)
Definition msglist_stream (l : list (list (option msg))) : res (list (option msg)) :=
  match l with
  | [] => Err E_EMPTY
  | [x] => Ok x
  | _ => concat_msg_arrays l
  end.

End User.
