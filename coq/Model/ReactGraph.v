(* Model/ReactGraph.v — the graph react.NewAgent builds, as an INSTANCE of the shared engine
   model (Model/Graph.v: channels, calculateNextTasks, branches, the Pregel run loop and its
   step limit), instead of the dedicated superstep loop [agent_loop] of Model/React.v.
   Proofs/ReactGraph.v proves the two equal.

   compose.NewGraph[[]*schema.Message, *schema.Message] with local state (react.go:186-251):
     START --data--> chat
     chat  : chat-model node with state pre-handler modelPreHandle; one stream branch
             {tools, END} whose condition is the StreamToolCallChecker on the node's output stream
     tools : ToolsNode with state pre-handler toolsNodePreHandle;
             ToolReturnDirectly empty  : --data--> chat
             ToolReturnDirectly non-empty: one branch {chat, direct_return} whose condition reads
             state.ReturnDirectly (set by the pre-handler of the very task whose output
             is being routed — the engine model's branch sees only the output value, so the
             tools task hands the flag on with its output), and direct_return --data--> END
     compiled with WithMaxRunSteps(MaxStep) in AnyPredecessor (Pregel) mode.

   Values travelling on the edges:
     RIn ms            []*schema.Message (the caller's input)
     RModel chunks m   the chat model's output: the chunks it emitted in this mode (what the
                       branch condition reads) and their concatenation (what every other consumer
                       gets; None: the chunks cannot be concatenated - whoever tries fails)
     RTools o rs direct  the tools node's output: what it emitted in this mode (one value / the merged
                       sparse frames: what direct_return filters), its position-wise concatenation
                       (what every other consumer gets) + the flag above
     RFinal m          direct_return's output
     RLate e           direct_return's output stream when the tools node's stream ends with an error
                       item: the node has returned it (the run ends normally), its reader fails
   The graph state St carries react's state struct, the rest of the model's script (the scripted
   model is a node body with memory) and the observation log of the run. *)
From Eino Require Import Base.Util Model.Tools Model.Graph Model.React.
Local Open Scope string_scope.

Inductive rval : Type :=
| RIn (ms : list msg)
| RModel (chunks : list chunk) (m : option msg)
| RTools (o : tout) (results : res (list tmsg)) (direct : bool)
| RFinal (m : msg)
| RLate (e : N).

Definition kChat : key := 2%N.
Definition kTools : key := 3%N.
Definition kDirect : key := 4%N.

(* node error numbers (class eNode c in the engine) *)
Definition cModel : N := 2%N.
Definition cConcat : N := 3%N.
Definition cNoDirect : N := 4%N.
Definition cType : N := 5%N.          (* a node received a value of the wrong Go type: never happens (theorem) *)
Definition cToolsBase : N := 16%N.    (* tools node error e  |->  16 + e *)

Record rstate : Type := mkRS {
  rs_script : list step;              (* what the scripted model will still reply *)
  rs_messages : list msg;             (* state.Messages *)
  rs_rd : option nat;                 (* state.ReturnDirectly / ReturnDirectlyToolCallIndex *)
  rs_inputs : list (list msg);        (* observation: model inputs so far *)
  rs_rounds : list (list call);       (* observation: tool rounds so far *)
  rs_emits : list msg }.              (* observation: messages handed to the future so far *)

Section ReactGraph.
  Variable tn : list call -> res (list tmsg).
  Variable tns : list call -> res (list string * list emitted * option N).
  Variable rd : string -> bool.
  Variable rd_nonempty : bool.
  Variable modifier : list msg -> list msg.
  Variable visible : call -> bool.
  Variable checker : list chunk -> bool.
  Variable md : React.mode.

  Definition b2n (b : bool) : N := if b then 1%N else 0%N.

  (* the engine indexes a branch's table by [v_size output]; nothing is ever merged (every channel
     receives one value per superstep), no field mappings, no output keys *)
  Definition react_ops : vops rval :=
    {| v_merge := fun _ => Err eMergeType;
       v_zero := RIn [];
       v_wrap := fun _ v => v;
       v_norm := fun v => v;
       v_size := fun v => match v with
                          | RModel chunks _ => b2n (checker chunks)
                          | RTools _ _ direct => b2n direct
                          | _ => 0%N
                          end |}.

  Definition lam (k : key) (dsucc : list key) (brs : list branch) : node :=
    {| n_key := k; n_kind := KLambda; n_outkey := None; n_dsucc := dsucc; n_csucc := [];
       n_dmap := []; n_branches := brs |}.

  Definition react_graph (max_step : nat) : graph :=
    {| g_nodes :=
         lam kSTART [kChat] []
         :: lam kChat [] [ {| b_ends := [kTools; kEND]; b_nodata := false; b_table := [[kEND]; [kTools]] |} ]
         :: (if rd_nonempty
             then [ lam kTools [] [ {| b_ends := [kChat; kDirect]; b_nodata := false;
                                       b_table := [[kChat]; [kDirect]] |} ];
                    lam kDirect [kEND] [] ]
             else [ lam kTools [kChat] [] ]);
       g_mode := Pregel; g_eager := false; g_max := max_step |}.

  (* the node bodies, state handlers included *)
  Definition exec_chat (input : list msg) (s : rstate) : res rval * rstate :=
    let msgs := (rs_messages s ++ input)%list in
    let s1 := mkRS (rs_script s) msgs (rs_rd s) (rs_inputs s ++ [modifier msgs]) (rs_rounds s) (rs_emits s) in
    match rs_script s with
    | [] => (Err cModel, s1)
    | SFail :: _ => (Err cModel, s1)
    | SMsg content calls chunks :: script' =>
        match delivered md content calls chunks with
        | None =>
            (Ok (RModel (emitted_chunks md content calls chunks) None),
             mkRS script' msgs (rs_rd s) (rs_inputs s1) (rs_rounds s) (rs_emits s))
        | Some m =>
            (Ok (RModel (emitted_chunks md content calls chunks) (Some m)),
             mkRS script' msgs (rs_rd s) (rs_inputs s1) (rs_rounds s) (rs_emits s ++ [m]))
        end
    end.

  Definition is_some {A} (o : option A) : bool := match o with Some _ => true | None => false end.

  Definition exec_tools (m : msg) (s : rstate) : res rval * rstate :=
    let rdi := if rd_nonempty then rd_call_index rd (m_calls m) else None in
    let s1 := mkRS (rs_script s) (rs_messages s ++ [m]) rdi (rs_inputs s) (rs_rounds s ++ [m_calls m]) (rs_emits s) in
    match tools_out tn tns md (m_calls m) with
    | Ok o =>
        let rr := tout_results o in
        (Ok (RTools o rr (is_some rdi)),
         mkRS (rs_script s) (rs_messages s1) rdi (rs_inputs s) (rs_rounds s1)
              (rs_emits s ++ match rr with Ok results => emitted_results visible (m_calls m) results | _ => [] end))
    | Err e => (Err (cToolsBase + e), s1)
    | Panic => (Panic, s1)
    end.

  Definition exec_direct (o : tout) (s : rstate) : res rval * rstate :=
    match rs_rd s with
    | Some i =>
        match tout_direct i o with
        | Ok (Some r) => (Ok (RFinal (tool_msg r)), s)
        | Ok None => (Err cNoDirect, s)
        | Err e => (Ok (RLate e), s)
        | Panic => (Ok (RLate E_PANIC), s)
        end
    | None => (Err cNoDirect, s)
    end.

  Definition react_exec (s : rstate) (p : path) (v : rval) : res rval * rstate :=
    match p with
    | [k] =>
        if N.eqb k kChat then
          match v with
          | RIn ms => exec_chat ms s
          | RTools _ (Ok results) _ => exec_chat (map tool_msg results) s
          | RTools _ (Err e) _ => (Err (cToolsBase + e), s)   (* the concatenation of the tools node's stream fails *)
          | RTools _ Panic _ => (Panic, s)
          | _ => (Err cType, s)
          end
        else if N.eqb k kTools then
          match v with
          | RModel _ (Some m) => exec_tools m s
          | RModel _ None => (Err cConcat, s)     (* the node's pre-processing cannot concatenate its input *)
          | _ => (Err cType, s)
          end
        else if N.eqb k kDirect then
          match v with RTools o _ _ => exec_direct o s | _ => (Err cType, s) end
        else (Err cType, s)
    | _ => (Err cType, s)
    end.

  Definition init_rstate (script : list step) : rstate := mkRS script [] None [] [] [].

  (* reading the engine's outcome back as a ReAct outcome; None = an outcome the ReAct graph
     cannot produce (theorem: never) *)
  Definition out_of_err (e : err) : option rerr :=
    let c := e_class e in
    if N.eqb c eMaxSteps then Some EStepLimit
    else if N.eqb c ePanic then Some (ETools E_PANIC)
    else if N.eqb c (eNode cModel) then Some EModel
    else if N.eqb c (eNode cConcat) then Some EConcat
    else if N.eqb c (eNode cNoDirect) then Some ENoDirect
    else if N.leb (eNode cToolsBase) c then Some (ETools (c - eNode cToolsBase))
    else None.

  Definition out_of (o : Graph.outcome rval) : option React.outcome :=
    match o with
    | Done (RModel _ (Some m)) _ => Some (Final m)
    | Done (RModel _ None) _ => Some (Failed (ELate E_CONCAT))
    | Done (RFinal m) _ => Some (Final m)
    | Done (RLate e) _ => Some (Failed (ELate e))
    | Done _ _ => None
    | Fail [e] _ => option_map Failed (out_of_err e)
    | Fail _ _ => None
    end.

  Definition trace_of (r : Graph.outcome rval * rstate) : option trace :=
    match out_of (fst r) with
    | Some o => Some (mkTrace (rs_inputs (snd r)) (rs_rounds (snd r)) (rs_emits (snd r)) o)
    | None => None
    end.

  (* the run: compose's runner on the ReAct graph *)
  Definition engine_run (max_step : nat) (script : list step) (input : list msg)
    : Graph.outcome rval * rstate :=
    Graph.run rval rstate react_ops react_exec sched_first [react_graph max_step] (RIn input) (init_rstate script).

  Definition engine_trace (max_step : nat) (script : list step) (input : list msg) : option trace :=
    trace_of (engine_run max_step script input).

  (* the supersteps of the run: which nodes ran in each (the graph has no nested graph, so every
     log entry belongs to the top-level instance; the first entry is the run marker) *)
  Definition nodes_log (l : log rval) : list (list key) :=
    map (fun e => map (fun ev => last (fst ev) 0%N) (snd e)) l.
  Definition engine_supersteps (max_step : nat) (script : list step) (input : list msg) : list (list key) :=
    nodes_log (outcome_log rval (fst (engine_run max_step script input))).
End ReactGraph.
