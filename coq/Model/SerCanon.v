(* Model/SerCanon.v — the comparison of decoded values used by the correspondence check
   (Corr/C12.v).  Definitions only. *)
From Coq Require Import List Bool NArith String.
From Eino Require Import Base.Util Base.Universe.
Import ListNotations.

(* The property identifies nil and empty containers; so does the comparison: both sides are
   brought to the form in which an empty slice / map is the nil one (types, nil pointers, nil
   interfaces, lengths and every element stay as they are), then compared exactly. *)
Fixpoint canon (v : val) : val :=
  match v with
  | VBase _ _ | VNamed _ _ _ | VNilPtr _ => v
  | VStruct n fs => VStruct n (map (fun fv => (fst fv, canon (snd fv))) fs)
  | VPtr w => VPtr (canon w)
  | VSlice t None => v
  | VSlice t (Some []) => VSlice t None
  | VSlice t (Some es) => VSlice t (Some (map canon es))
  | VMap k t None => v
  | VMap k t (Some []) => VMap k t None
  | VMap k t (Some kvs) => VMap k t (Some (map (fun kv => (canon (fst kv), canon (snd kv))) kvs))
  | VIface it None => v
  | VIface it (Some w) => VIface it (Some (canon w))
  | VArray t es => VArray t (map canon es)
  | VDef d w => VDef d (canon w)
  end.

(* equal up to nil ~ empty container *)
Definition val_equivb (a b : val) : bool := val_eqb (canon a) (canon b).
