(* Model/ConcatUser.v — the concat functions the harness registers with
   compose.RegisterStreamChunkConcatFunc (harness/cmd/c14/user.go) for its two custom chunk
   types, as the [UserFn] instance the correspondence check evaluates the model with.
     tag 6  Acc{N int}   sum of the N fields
     tag 7  Lim{N int}   sum of the N fields, error when the sum exceeds 5
     tag 9  Num (an interface type; the function is registered for the interface type itself,
            so ConcatItems[Num] does not look at the dynamic types of the chunks): sum of the
            Val() of the non-nil chunks; payload = Val(), 0 for a nil chunk.  Only valid as the
            static chunk type of a stream (under a map key the dynamic types NumA / NumB count,
            and they are not registered): the harness uses tag 9 at top level only.
   and, for the refutation example only, a function that does not satisfy the laws
     tag 6  (count_user)  the number of chunks. *)
From Eino Require Import Base.Util Model.Concat.

Definition nsum (ps : list N) : N := fold_right N.add 0%N ps.

Definition E_USER : N := 7%N.      (* the error of a registered function *)

Definition harness_ufn (tag : N) : option (list N -> res N) :=
  if N.eqb tag 6 then Some (fun ps => Ok (nsum ps))
  else if N.eqb tag 7 then Some (fun ps => if N.leb (nsum ps) 5 then Ok (nsum ps) else Err E_USER)
  else if N.eqb tag 9 then Some (fun ps => Ok (nsum ps))
  else None.

Definition harness_user : UserFn := {| ufn := harness_ufn |}.

Definition count_user : UserFn :=
  {| ufn := fun tag => if N.eqb tag 6 then Some (fun ps => Ok (N.of_nat (List.length ps))) else None |}.
